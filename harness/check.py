#!/venv/bin/python
"""check.py <Cxx> [--tier quick|thorough] [--replay file]

Exit 0: the property held on everything explored; 1: violation (a VIOLATION line was printed);
2: infrastructure failure / timeout (never a violation)."""
import argparse
import importlib
import subprocess
import os
import sys
import time
import traceback

HERE = os.path.dirname(os.path.abspath(__file__))
sys.path.insert(0, HERE)
import core  # noqa: E402


def main():
    ap = argparse.ArgumentParser()
    ap.add_argument("pid")
    ap.add_argument("--tier", default=os.environ.get("VERIF_TIER", "quick"), choices=["quick", "thorough"])
    ap.add_argument("--replay", default=None)
    a = ap.parse_args()
    pid = a.pid.upper()
    seed = core.seed_from_env()
    t0 = time.time()
    try:
        mod = importlib.import_module("props." + pid.lower())
    except ImportError:
        traceback.print_exc()
        return 2
    try:
        if a.replay:
            return mod.replay(a.replay)
        st = core.lean_prepare(pid, need_driver=getattr(mod, "NEED_DRIVER", True),
                               leanchecker=(a.tier == "thorough"))
        try:
            res = mod.run(st, a.tier, seed)
        except (KeyboardInterrupt, RuntimeError, MemoryError, subprocess.TimeoutExpired, ImportError):
            raise                    # the harness' own sanity checks, resources, time-outs: infrastructure
        except BaseException as e:   # noqa
            if isinstance(e, OSError) and not isinstance(e, FileNotFoundError):
                raise                # disk full, too many open files, permissions: infrastructure
            # (a file the implementation was expected to write and did not is an answer of the implementation)
            # the harness could not evaluate a case: on the unchanged tree this does not happen (every seed is run), so the
            # implementation has answered in a way the comparison code has no place for (an unexpected key, type, exit, shape).
            # The correspondence is then not established: reported as a broken obligation, not as exit 2.
            tb = traceback.format_exc()
            sys.stderr.write(tb)
            res = core.Result(pid)
            res.rule = "evaluation aborted"
            res.corr_breaks.append({"name": "harness-evaluation (the implementation's answer could not be compared)", "input": None,
                                    "model": "-", "impl": "%s: %s" % (type(e).__name__, str(e)[:300]), "traceback": tb[-3000:]})
        return core.finish(pid, a.tier, seed, t0, st, res,
                           level=getattr(mod, "LEVEL", "proof"), level_note=getattr(mod, "LEVEL_NOTE", ""))
    except Exception:
        traceback.print_exc()
        print("INFRASTRUCTURE-FAILURE property=%s (exit 2, not a violation)" % pid)
        return 2


if __name__ == "__main__":
    sys.exit(main())
