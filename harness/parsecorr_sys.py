"""Correspondence between the Lean model of the `.sys` statement parser (`lean/PepperModel/ParseSys.lean`, driver ops
`parse-sys-line`, `parse-sys-declare`, `parse-sys-doc`, `parse-sys-first`, `render-sys`) and the REAL code:
`peppercompiler.system_parser_pyparsing.parse_declare_statement / parse_import_statement / parse_component_statement`
(pyparsing grammars) and the real `peppercompiler.system_parser.load_system` (first-statement search + statement loop).

    check_lines(res, drv, lines, tag)   every line (a) through each of the three real statement parsers, raw, and
                                        through the model's statement parsers; (b) as a one-statement document through
                                        the real loop of `load_system` (recording `System`, substitution replaced by
                                        "return this text") and through `parse-sys-doc` / `parse-sys-line`
    check_docs(res, drv, docs, tag)     whole file texts (+ arguments) through the real `load_system` with the REAL
                                        `process_list`; the statement found by the first-statement search, the rest
                                        of the file and the substituted document are recorded and compared with
                                        `parse-sys-first`; the result is compared with `parse-sys-doc`
    gen_lines(rng, n)                   statements rendered from random ASTs with free legal spacing + malformed stream
    gen_docs(rng, n)                    file texts (comments, blank lines, templates, case variants, broken lines)
    example_docs()                      every .sys file under /repo/examples with its corpus arguments

How the real code is observed without editing /repo: `utils.DEBUG = True` makes `error()` raise; ANY exception
(pyparsing.ParseException, SyntaxError/NameError of `eval`, AssertionError, …) is a reject.  `system_parser.System`
is replaced by a recorder for the duration of a call and restored afterwards.

pyparsing's process-global default white space (`ParserElement.DEFAULT_WHITE_CHARS`) is read at call time and passed
to the model as `dw`; `with_default_ws(chars)` sets it the way another grammar module of the package would.

Outside the model, counted and not compared: non-ASCII lines; template arguments outside the model's argument
language (the model answers `out-of-model`); lines with `**` (power: evaluation time is unbounded) are not even
given to the real `eval`; documents whose substitution raises (that is C13's model).
"""
import contextlib
import json
import os
import re
import sys

HERE = os.path.dirname(os.path.abspath(__file__))
if HERE not in sys.path:
    sys.path.insert(0, HERE)

import core      # noqa: E402

REJ = {"err": "reject"}
DECL0 = "declare system X: ->"


# ------------------------------------------------------------------------------------------ observing the real code

class _RecSystem:
    last = None

    def __init__(self, path, name, prefix, params, includes=None):
        self.name, self.params, self.stmts, self.io = name, list(params), [], None
        _RecSystem.last = self

    def add_import(self, imports):
        self.stmts.append({"k": "import", "items": [[p, a] for p, a in imports]})

    def add_component(self, name, templ, params, ins, outs):
        self.stmts.append({"k": "component", "name": name, "templ": templ, "nargs": len(params),
                           "ins": _sigs(ins), "outs": _sigs(outs)})

    def add_IO(self, ins, outs):
        self.io = (_sigs(ins), _sigs(outs))


def _sigs(l):
    return [{"name": n, "star": bool(s)} for n, s in l]


def _mods():
    import peppercompiler.utils as utils
    import peppercompiler.system_parser as sp
    import peppercompiler.system_parser_pyparsing as spp
    return utils, sp, spp


def current_dw():
    import pyparsing
    return pyparsing.ParserElement.DEFAULT_WHITE_CHARS


@contextlib.contextmanager
def with_default_ws(chars):
    """what `import peppercompiler.nupack_mfe_grammar` (" \\t\\n") or any other grammar module does to the process"""
    import pyparsing
    _mods()
    old = pyparsing.ParserElement.DEFAULT_WHITE_CHARS
    pyparsing.ParserElement.set_default_whitespace_chars(chars)
    try:
        yield
    finally:
        pyparsing.ParserElement.set_default_whitespace_chars(old)


@contextlib.contextmanager
def instrumented():
    utils, sp, spp = _mods()
    saved = (utils.DEBUG, sp.System, sp.process_list, sp.parse_declare_statement)
    utils.DEBUG = True
    sp.System = _RecSystem
    try:
        yield utils, sp, spp
    finally:
        utils.DEBUG, sp.System, sp.process_list, sp.parse_declare_statement = saved


def _guard(f):
    try:
        with core.quiet():
            return {"ok": f()}
    except BaseException as e:  # noqa
        if isinstance(e, (KeyboardInterrupt, MemoryError)):
            raise
        return dict(REJ)


def real_declare(spp, line):
    def f():
        name, params, ins, outs = spp.parse_declare_statement(line)
        return {"name": name, "params": list(params), "inputs": _sigs(ins), "outputs": _sigs(outs)}
    return _guard(f)


def real_import(spp, line):
    return _guard(lambda: {"k": "import", "items": [[p, a] for p, a in spp.parse_import_statement(line)]})


def real_component(spp, line):
    def f():
        name, templ, params, ins, outs = spp.parse_component_statement(line)
        return {"k": "component", "name": name, "templ": templ, "nargs": len(params), "ins": _sigs(ins), "outs": _sigs(outs)}
    return _guard(f)


def _src(rec):
    return {"kind": "sys", "name": rec.name, "params": rec.params, "inputs": rec.io[0], "outputs": rec.io[1],
            "stmts": rec.stmts}


def real_loop(sp, fname, doc):
    """the real statement loop of load_system on `doc` (substitution replaced by the constant `doc`)"""
    sp.process_list = lambda f, params: doc

    def f():
        _RecSystem.last = None
        sp.load_system(fname, [], "", ".")
        return _src(_RecSystem.last)
    return _guard(f)


def is_ascii(s):
    return all(ord(c) < 128 for c in s)


def _norm(x):
    return json.loads(json.dumps(x))


def _differs(model, impl):
    return _norm(model) != _norm(impl)


# ------------------------------------------------------------------------------------------ lines

def check_lines(res, drv, lines, tag):
    """returns the number of disagreements found (also appended to res.corr_breaks)"""
    bad = 0
    reqs, expect = [], []
    with instrumented() as (utils, sp, spp), core.scratch("parsesys_") as d:
        fname = os.path.join(d, "x.sys")
        with open(fname, "w") as f:
            f.write(DECL0 + "\n")
        dw = current_dw()
        for line in lines:
            if not is_ascii(line):
                res.count("%s:non-ascii-skipped" % tag)
                continue
            if "**" in line:
                res.count("%s:power-skipped" % tag)
                continue
            rd = real_declare(spp, line)
            ri = real_import(spp, line)
            rc = real_component(spp, line)
            rl = real_loop(sp, fname, line)
            for kind, r in (("declare", rd), ("import", ri), ("component", rc)):
                res.count("%s:direct-%s:%s" % (tag, kind, "accept" if "ok" in r else "reject"))
            res.count("%s:loop:%s" % (tag, ("accept-%d" % len(rl["ok"]["stmts"])) if "ok" in rl else "reject"))
            reqs.append({"op": "parse-sys-declare", "line": line, "dw": dw}); expect.append(("declare", line, rd))
            reqs.append({"op": "parse-sys-line", "as": "import", "line": line, "dw": dw}); expect.append(("import", line, ri))
            reqs.append({"op": "parse-sys-line", "as": "component", "line": line, "dw": dw}); expect.append(("component", line, rc))
            reqs.append({"op": "parse-sys-doc", "declare": DECL0, "doc": line, "dw": dw})
            expect.append(("loop-doc", line, rl if "err" in rl else {"ok": rl["ok"]["stmts"]}))
            if "\n" not in line:
                if "ok" in rl:
                    st = rl["ok"]["stmts"]
                    one = {"ok": st[0] if st else None}
                    if len(st) > 1:
                        one = {"ok": "more than one statement from a line without newline", "stmts": st}
                else:
                    one = rl
                reqs.append({"op": "parse-sys-line", "line": line, "dw": dw}); expect.append(("loop-line", line, one))
    outs = drv.call_many(reqs)
    for (kind, line, impl), m in zip(expect, outs):
        if m.get("err") == "out-of-model":
            res.count("%s:%s:out-of-model" % (tag, kind))
            continue
        if kind == "loop-doc" and "ok" in m:
            m = {"ok": m["ok"]["stmts"]}
        res.disagreements_checked += 1
        if _differs(m, impl):
            bad += 1
            res.corr_breaks.append({"name": "ParseSys.line", "input": {"line": line, "via": kind, "dw": dw, "tag": tag},
                                    "model": m, "impl": impl})
    return bad


# ------------------------------------------------------------------------------------------ documents

def _real_doc(sp, fname, args):
    """real load_system with the real process_list; returns (result, record)"""
    rec = {"line": None, "rest": None, "doc": None, "subst_error": False, "nparams": None}
    orig_pl, orig_decl = _ORIG["pl"], _ORIG["decl"]

    def decl(line):
        rec["line"] = line
        r = orig_decl(line)
        rec["nparams"] = len(r[1])
        return r

    def pl(f, params):
        rest = list(f)
        rec["rest"] = rest
        try:
            doc = orig_pl(iter(rest), params)
        except BaseException as e:  # noqa
            if isinstance(e, (KeyboardInterrupt, MemoryError)):
                raise
            rec["subst_error"] = True
            raise
        rec["doc"] = doc
        return doc

    sp.parse_declare_statement = decl
    sp.process_list = pl

    def f():
        _RecSystem.last = None
        sp.load_system(fname, list(args), "", ".")
        return _src(_RecSystem.last)
    return _guard(f), rec


_ORIG = {}


def check_docs(res, drv, docs, tag):
    """docs: list of (file text, args or None).  args None = as many dummy arguments (5) as the file declares."""
    bad = 0
    reqs, expect = [], []
    with instrumented() as (utils, sp, spp), core.scratch("parsesys_") as d:
        _ORIG["pl"], _ORIG["decl"] = sp.process_list, sp.parse_declare_statement
        dw = current_dw()
        fname = os.path.join(d, "x.sys")
        for text, args in docs:
            if not is_ascii(text):
                res.count("%s:non-ascii-skipped" % tag)
                continue
            if "**" in text:
                res.count("%s:power-skipped" % tag)
                continue
            with open(fname, "w", newline="") as f:
                f.write(text)
            with open(fname, "r") as f:
                seen = f.read()          # the text as Python's text mode delivers it (universal newlines)
            r, rec = _real_doc(sp, fname, args if args is not None else [])
            if args is None and "err" in r and rec["nparams"] and rec["doc"] is None and not rec["subst_error"]:
                r, rec = _real_doc(sp, fname, [5] * rec["nparams"])
            # first-statement search
            reqs.append({"op": "parse-sys-first", "text": seen})
            expect.append(("first", text, {"ok": {"line": rec["line"], "rest": rec["rest"]}} if rec["rest"] is not None
                           else {"ok": {"line": rec["line"]}}))
            if rec["subst_error"]:
                res.count("%s:substitution-error-skipped" % tag)
                continue
            if rec["doc"] is None and rec["nparams"] is not None:
                res.count("%s:arity-mismatch-skipped" % tag)
                continue
            res.count("%s:doc:%s" % (tag, "accept" if "ok" in r else "reject"))
            reqs.append({"op": "parse-sys-doc", "declare": rec["line"], "doc": rec["doc"] or "", "dw": dw})
            expect.append(("doc", text, r))
    outs = drv.call_many(reqs)
    for (kind, text, impl), m in zip(expect, outs):
        if m.get("err") == "out-of-model":
            res.count("%s:%s:out-of-model" % (tag, kind))
            continue
        if kind == "first" and "rest" not in impl["ok"]:
            m = {"ok": {"line": m["ok"]["line"]}}
        res.disagreements_checked += 1
        if _differs(m, impl):
            bad += 1
            res.corr_breaks.append({"name": "ParseSys.doc", "input": {"text": text, "via": kind, "dw": dw, "tag": tag},
                                    "model": m, "impl": impl})
    return bad


def check_render(res, drv, asts, tag):
    """the Lean `renderSStmt` / `renderDecl` spell statements the way progen.render_sys does"""
    import progen
    bad = 0
    reqs, expect = [], []
    for ast in asts:
        text = progen.render_sys(ast, _NoComment())
        ls = text.split("\n")
        if not ast.get("params"):
            reqs.append({"op": "render-sys", "decl": ast}); expect.append(ls[0])
        for s, l in zip(ast["stmts"], ls[1:]):
            if s["k"] == "component" and s.get("nargs"):
                continue
            reqs.append({"op": "render-sys", "stmt": s}); expect.append(l)
    for r, e, m in zip(reqs, expect, drv.call_many(reqs)):
        res.disagreements_checked += 1
        if m != {"ok": e}:
            bad += 1
            res.corr_breaks.append({"name": "ParseSys.render", "input": r, "model": m, "impl": e})
    return bad


class _NoComment:
    def random(self):
        return 1.0


# ------------------------------------------------------------------------------------------ generators

LETTERS = "abcdefghijklmnopqrstuvwxyzABCDEFGHIJKLMNOPQRSTUVWXYZ"
DIGITS = "0123456789"
ODD_NAMES = ["as", "asx", "a", "import", "component", "declare", "system", "As", "x_", "a1", "A_b_9", "systemX", "N"]


def g_name(rng):
    if rng.random() < 0.2:
        return rng.choice(ODD_NAMES)
    n = rng.choice(LETTERS)
    for _ in range(rng.choice((0, 1, 1, 2, 3, 6))):
        n += rng.choice(LETTERS + DIGITS + "_")
    return n


def g_path(rng):
    if rng.random() < 0.1:
        return rng.choice(["as", "a/as", "../x", "~/lib/a.b-c", "9", "-", ".", "_", "a//b", "./a", "x~1", "import"])
    segs = []
    for _ in range(rng.choice((1, 1, 2, 3))):
        s = ""
        for _ in range(rng.choice((1, 2, 4))):
            s += rng.choice(LETTERS + DIGITS + "._-~")
        segs.append(s)
    return "/".join(segs)


def g_sigs(rng):
    return [{"name": g_name(rng), "star": rng.random() < 0.3} for _ in range(rng.choice((0, 1, 1, 2, 3)))]


ARGS_IN = ["1", "5", "0", "00", "12", "-3", "+4", "--2", "2*3", "1 + 2", "1+2", "2 * -3", "10 - 4", "'abc'", '"x y"',
           "''", "'a_1' ", "6  16", "007", "1 +", "*2", "(1", "1 2", "-", "3 *", "1 (", "0 0", "01", "2* *3"]
ARGS_OUT = ["x", "toe", "1.5", "1e3", "a.b", "1 < 2", "[1", "None", "True", "system", "nums", "'a' + 'b'", "<t>", "0x10",
            "1_0", "'it''s'", "#1", "'#'", "1 # one", "1/2", "1//0", "1/0", "not 1", "{1", "a=1", "1;2", "\\", "'a", "b'c'"]


def g_arg(rng):
    r = rng.random()
    if r < 0.55:
        return str(rng.randrange(0, 40))
    if r < 0.85:
        return rng.choice(ARGS_IN)
    return rng.choice(ARGS_OUT)


def g_stmt(rng):
    if rng.random() < 0.45:
        return {"k": "import", "items": [[g_path(rng), g_name(rng) if rng.random() < 0.4 else None]
                                         for _ in range(rng.choice((1, 1, 2, 3)))]}
    return {"k": "component", "name": g_name(rng), "templ": g_name(rng), "ins": g_sigs(rng), "outs": g_sigs(rng),
            "args": [g_arg(rng) for _ in range(rng.choice((0, 1, 2, 4)))] if rng.random() < 0.5 else None}


def g_decl(rng):
    return {"k": "declare", "name": g_name(rng), "ins": g_sigs(rng), "outs": g_sigs(rng),
            "params": [g_name(rng) for _ in range(rng.choice((0, 1, 2, 3)))] if rng.random() < 0.4 else None}


class Sp:
    """free legal spacing"""
    def __init__(self, rng, style):
        self.rng, self.style = rng, style

    def ws(self):
        if self.style == 0:
            return " "
        return "".join(self.rng.choice("  \t") for _ in range(self.rng.choice((1, 1, 2, 3))))

    def o(self, canon=" "):
        """optional white space; `canon` is what the canonical spelling has here"""
        if self.style == 0:
            return canon
        return self.ws() if self.rng.random() < 0.5 else ""


def case_variant(rng, k):
    r = rng.random()
    if r < 0.85:
        return k
    if r < 0.9:
        return k.upper()
    if r < 0.95:
        return k.capitalize()
    return "".join(c.upper() if rng.random() < 0.5 else c for c in k)


def render(rng, s, style=None):
    if style is None:
        style = 0 if rng.random() < 0.3 else 1
    sp = Sp(rng, style)

    def sig(x):
        return x["name"] + (sp.o("") + "*" if x["star"] else "")

    def sigs(l):
        return (sp.o() + "+" + sp.o()).join(map(sig, l))

    def par(l):
        if l is None:
            return ""
        return sp.o("") + "(" + sp.o("") + (sp.o("") + "," + sp.o()).join(l) + sp.o("") + ")"
    lead = sp.o("") if style else ""
    if s["k"] == "import":
        body = (sp.o("") + "," + sp.o()).join(p + (sp.ws() + "as" + sp.o() + a if a else "") for p, a in s["items"])
        out = lead + case_variant(rng, "import") + sp.ws() + body
    elif s["k"] == "component":
        out = (lead + case_variant(rng, "component") + sp.ws() + s["name"] + sp.o() + "=" + sp.o() + s["templ"] +
               par(s["args"]) + sp.o("") + ":" + sp.o() + sigs(s["ins"]) + sp.o() + "->" + sp.o() + sigs(s["outs"]))
    else:
        out = (lead + case_variant(rng, "declare") + sp.ws() + "system" + sp.o() + s["name"] + par(s["params"]) +
               sp.o("") + ":" + sp.o() + sigs(s["ins"]) + sp.o() + "->" + sp.o() + sigs(s["outs"]))
    if style and rng.random() < 0.15:
        out += sp.o() + "#" + rng.choice(["", " note", " a, b -> c", "# x", " import z", "\t1"])
    if style and rng.random() < 0.2:
        out += sp.ws()
    return out


ALPHA_MUT = " \t:=*+->(),#asASx1_./~$\n\r\x0c'\"0"


def tokens_of(line):
    return re.findall(r"[A-Za-z0-9_./~]+|\s+|.", line, re.S)


def mutate(rng, line):
    k = rng.randrange(14)
    if not line:
        return rng.choice(ALPHA_MUT)
    i = rng.randrange(len(line))
    if k == 0:
        return line[:i] + line[i + 1:]
    if k == 1:
        return line[:i] + rng.choice(ALPHA_MUT) + line[i:]
    if k == 2:
        return line[:i] + rng.choice(ALPHA_MUT) + line[i + 1:]
    toks = tokens_of(line)
    j = rng.randrange(len(toks))
    if k == 3:      # doubled token
        return "".join(toks[:j] + [toks[j], toks[j]] + toks[j + 1:])
    if k == 4:      # doubled token with a space
        return "".join(toks[:j] + [toks[j], " ", toks[j]] + toks[j + 1:])
    if k == 5:      # missing field
        return "".join(toks[:j] + toks[j + 1:])
    if k == 6:      # keyword glued to what follows
        return re.sub(r"^(\s*[A-Za-z]+)\s+", lambda m: m.group(1) + rng.choice(["", "X", "_", "$", "1", ",", "\x0c", "#"]), line, count=1)
    if k == 7:      # `as` without alias / dangling things
        return line + rng.choice([" as", " as ", ",", " ,", " +", " ->", " *", ":", ")", "(", " x", " as x", "\n", "\n\n", " \n", "\r", "#"])
    if k == 8:      # tabs for spaces and back
        return line.replace(" ", "\t") if rng.random() < 0.5 else line.replace("\t", " ")
    if k == 9:      # newline inside
        ws = [m.start() for m in re.finditer(r"[ \t]", line)]
        if ws:
            p = rng.choice(ws)
            return line[:p] + rng.choice(["\n", "\r", "\r\n", "\x0b", "\x0c", "\x1c", "\x1f"]) + line[p + 1:]
        return line + "\n"
    if k == 10:     # all white space removed between two tokens
        ws = [m for m in re.finditer(r"[ \t]+", line)]
        if ws:
            m = rng.choice(ws)
            return line[:m.start()] + line[m.end():]
        return line
    if k == 11:     # swap two tokens
        if len(toks) > 1:
            a = rng.randrange(len(toks) - 1)
            toks[a], toks[a + 1] = toks[a + 1], toks[a]
        return "".join(toks)
    if k == 12:     # leading junk
        return rng.choice(["x ", "# ", "\t", "\x0c", "declare ", "import ", "component ", "_", "1", "\n", "$"]) + line
    return line[:i] + rng.choice(["->", "as", "system", "import", "()", "(,)", "(1,)", "(,1)", "**", "+", ",,", "  "]) + line[i:]


FIXED_LINES = [
    "", " ", "\t", "#", "# c", "import", "component", "declare", "import a", "import a,b", "import a , b as c",
    "import a as", "import a asb", "import a as as", "import as as as", "import a, as", "import a as b c", "import a,",
    "import ,a", "IMPORT a", "import\ta", "import\x0ca", "import a#b", "import a # b, c", "import a\n", "import a\n\n",
    "import a \n # c", "import a\r", "importX a", "import$ a", "import_ a", "import1 a", "import, a", "import a as 1",
    "import a as _b", "import a/b/c as d, ../e", "import a b", "import a as b as c", "import a\tas\tb",
    "component a = b: ->", "component a=b:->", "component a = b: x -> y", "component a = b(): x -> y",
    "component a = b(1): x -> y", "component a = b(1,2): x* + y -> z*", "component a = b(1,): x -> y",
    "component a = b(,1): x -> y", "component a = b(1 2): x -> y", "component a = b(6  16): x -> y",
    "component a = b((1)): x -> y", "component a = b(1)): x -> y", "component a = b(1: x -> y", "component a = b(x): ->",
    "component a = b(1\t+\t2): ->", "component a = b( 1 , 2 ): ->", "component a = b(#1): x -> y", "component a = b(1 # x): ->",
    "component a = b(1) # x): ->", "component a = b('a,b'): ->", "component a = b('ab'): ->", "component a = b(-1, +2, 3*4): ->",
    "component a = b(01): ->", "component a = b(00): ->", "component a = b: x + -> y", "component a = b: x ++ y -> z",
    "component a = b: x** -> z", "component a = b: x * -> z", "component a = b: x*+y*->z*", "component a = b: x -> y z",
    "component a = b: x - > y", "component a = b: x -> y # c", "component a = b: x -> y\n", "Component a = b: x -> y",
    "componentx = b: ->", "component 1a = b: ->", "component a = 1b: ->", "component _a = b: ->", "component a b: ->",
    "component a == b: ->", "component a = b ->", "component a = b: x", "component a = b:", "component = b: ->",
    "declare system a: ->", "declare system a(): ->", "declare system a(x): ->", "declare system a(x, y): i* + j -> k",
    "declare system a(x,): ->", "declare system a(1): ->", "declare systema: ->", "declaresystem a: ->", "DECLARE system a: ->",
    "declare SYSTEM a: ->", "declare  system  a : x->y", "declare system a: -> # c", "declare component a: ->",
    "declare system a(x y): ->", "declare system a(x: ->", "declare system a x): ->", "declare\tsystem\ta:\t->\t",
    "declare system a: x + y* -> z", "declare#\nsystem a: ->", "declare system: ->", "declare system system: ->",
    "length x = 3", "equal a b", "foo", "x import a", "import a # c\n", "import a\t", "import a \t\n",
]


def gen_lines(rng, n, res=None):
    """returns a list of lines: the fixed list first, then about 45% valid renderings (free legal spacing, case
    variants of the keywords, comments), 40% with one mutation, 15% with two.  `res.count`s the distribution."""
    out = list(FIXED_LINES)
    if res is not None:
        res.count("generated:fixed-list", min(n, len(out)))
    while len(out) < n:
        r = rng.random()
        s = g_decl(rng) if r < 0.2 else g_stmt(rng)
        line = render(rng, s)
        r = rng.random()
        if r < 0.45:
            how = "valid"
        elif r < 0.85:
            line = mutate(rng, line)
            how = "mutated-once"
        else:
            line = mutate(rng, mutate(rng, line))
            how = "mutated-twice"
        if res is not None:
            res.count("generated:%s:%s" % (s["k"], how))
        out.append(line)
    return out[:n]


def gen_asts(rng, n):
    """ASTs in the JSON shape of the compile op (no template arguments: progen writes none)"""
    out = []
    for _ in range(n):
        stmts = []
        for _ in range(rng.randrange(0, 5)):
            s = g_stmt(rng)
            if s["k"] == "component":
                s = {"k": "component", "name": s["name"], "templ": s["templ"], "nargs": 0, "ins": s["ins"], "outs": s["outs"]}
            stmts.append(s)
        out.append({"kind": "sys", "name": g_name(rng), "params": [], "inputs": g_sigs(rng), "outputs": g_sigs(rng),
                    "stmts": stmts})
    return out


def gen_docs(rng, n):
    """file texts with arguments (None = dummy arguments)"""
    out = []
    for _ in range(n):
        L = []
        for _ in range(rng.choice((0, 0, 1, 2))):
            L.append(rng.choice(["", "  ", "# header", "\t# x", "#", " \x0c "]))
        d = g_decl(rng)
        params = d["params"] or []
        dl = render(rng, d)
        if rng.random() < 0.1:
            dl = mutate(rng, dl)
        L.append(dl)
        for _ in range(rng.randrange(0, 7)):
            r = rng.random()
            if r < 0.12:
                L.append(rng.choice(["", "   ", "# comment", "  # import x", "\t"]))
                continue
            s = g_stmt(rng)
            if s["k"] == "component" and s["args"] is not None and params and rng.random() < 0.6:
                s["args"] = [rng.choice(["<%s>" % rng.choice(params), "<%s+1>" % rng.choice(params), "3", "<2*3>"])
                             for _ in s["args"]]
            line = render(rng, s)
            if r < 0.25:
                line = mutate(rng, line)
            if r > 0.93:
                line = line.replace(s.get("name", "\0"), "{%s,%s2}" % (s.get("name"), s.get("name")), 1)
            if 0.25 <= r < 0.29:
                line = rng.choice(["length q = 3", "declare system z: ->", "equal a b", "Import a", "import <1+", "sequence a = N"])
            L.append(line)
        nl = rng.choice(["\n", "\n", "\n", "\r\n"])
        text = nl.join(L) + (nl if rng.random() < 0.8 else "")
        out.append((text, None))
    return out


def example_docs():
    exdir = os.path.join(core.REPO if hasattr(core, "REPO") else "/repo", "examples")
    corpus = {}
    try:
        with open(os.path.join(os.path.dirname(HERE), "corpus", "examples.json")) as f:
            corpus = {p: a for p, a in json.load(f)}
    except OSError:
        pass
    out = []
    for root, _, files in os.walk(exdir):
        for fn in sorted(files):
            if fn.endswith(".sys"):
                p = os.path.join(root, fn)
                rel = os.path.relpath(p, exdir)
                with open(p) as f:
                    out.append((rel, f.read(), corpus.get(rel)))
    return sorted(out)


# ------------------------------------------------------------------------------------------ own use

def main(argv):
    n = int(argv[1]) if len(argv) > 1 else 20000
    seed = int(argv[2]) if len(argv) > 2 else 0
    res = core.Result("ParseSys")
    drv = core.Driver()
    rng = core.rng_for(seed, "parsesys")
    bad = 0
    done = 0
    while done < n:
        m = min(10000, n - done)
        lines = gen_lines(rng, m, res)
        bad += check_lines(res, drv, lines, "gen")
        with with_default_ws(" \t\n"):
            bad += check_lines(res, drv, lines[:m // 5], "gen-ws-nl")
        with with_default_ws(" \n\t\r"):
            bad += check_lines(res, drv, lines[:m // 10], "gen-ws-all")
        bad += check_docs(res, drv, gen_docs(rng, m // 10), "gen-doc")
        bad += check_render(res, drv, gen_asts(rng, m // 50), "render")
        done += m
        print("... %d lines, %d disagreements" % (done, bad), flush=True)
    ex = example_docs()
    exl = 0
    for rel, text, args in ex:
        bad += check_docs(res, drv, [(text, args)], "example")
        # every substituted line on its own
        with instrumented() as (utils, sp, spp):
            try:
                names = []
                line = ""
                rest = text.split("\n")
                while rest:
                    line = re.sub(r"#.*", "", rest.pop(0)).strip()
                    if line:
                        break
                names = spp.parse_declare_statement(line)[1]
                a = args if args is not None else [5] * len(names)
                with core.quiet():
                    doc = sp.process_list(iter(l + "\n" for l in rest), dict(zip(names, a)))
            except BaseException as e:  # noqa
                if isinstance(e, KeyboardInterrupt):
                    raise
                res.count("example:unreadable")
                print("example not readable:", rel, repr(e)[:100])
                continue
        ls = [l for l in doc.split("\n") if l.strip()]
        exl += len(ls) + 1
        bad += check_lines(res, drv, ls + [line], "example")
    print("examples: %d files, %d lines" % (len(ex), exl))
    for k in sorted(res.distribution):
        print("  %-55s %d" % (k, res.distribution[k]))
    print("compared: %d   disagreements: %d" % (res.disagreements_checked, bad))
    for b in res.corr_breaks[:30]:
        print(json.dumps(b, default=str))
    return 0 if bad == 0 else 1


if __name__ == "__main__":
    sys.exit(main(sys.argv))
