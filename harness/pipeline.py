"""The full tool chain on the real code, in-process: compile -> Convert.get_constraints -> a nucleotide string
satisfying the arrays -> process_results -> output(.mfe) -> finish (.seqs / strands file).
Used by C06, C14, C16, C17."""
import os
import re

import core
from core import quiet
import progen
import impl

GROUP = {"A": "A", "C": "C", "G": "G", "T": "T", "R": "AG", "Y": "CT", "W": "AT", "S": "CG", "M": "AC", "K": "GT",
         "B": "CGT", "D": "AGT", "H": "ACT", "V": "ACG", "N": "ACGT"}
COMP = {"A": "T", "T": "A", "C": "G", "G": "C"}
# an undesigned sequence (never used in a strand) keeps its template: degenerate letters and their complements
COMPX = dict(zip("ACGTRYWSMKBDHVN", "TGCAYRWSKMVHDBN"))


def assignment_for(eq, wc, st, rng):
    """a string over ACGT and ' ' satisfying the constraint arrays (0-based, None = separator / no partner)"""
    n = len(st)
    out = [" "] * n
    for i in range(n):
        if st[i] is None:
            continue
        r = eq[i]
        if r != i:
            out[i] = out[r]
            continue
        p = wc[i]
        if p is not None and p < i:
            out[i] = COMP[out[p]]
        else:
            out[i] = rng.choice(GROUP[st[i]])
    return "".join(out)


def check_assignment(eq, wc, st, nts):
    for i, c in enumerate(st):
        if c is None:
            if nts[i] != " ":
                return "position %d should be blank" % i
            continue
        if nts[i] not in GROUP[c]:
            return "position %d: %s not in %s" % (i, nts[i], c)
        if nts[i] != nts[eq[i]]:
            return "position %d != its eq representative" % i
        if wc[i] is not None and nts[i] != COMP[nts[wc[i]]]:
            return "position %d not complementary to its wc representative" % i
    return None


class Stage(Exception):
    def __init__(self, stage, exc):
        Exception.__init__(self, "%s: %r" % (stage, exc))
        self.stage = stage
        self.exc = exc


def run_pipeline(b, rng, root, struct_orient=False, fixed_text=None, mfe_hook=None, nts_source="python", ssm_opts=None):
    """Runs the chain in directory `root`. Returns dict with pil, mfe, seqs, strands texts and the arrays.
    Raises Stage(stage, exception) when a stage fails."""
    from peppercompiler import compiler as pc
    from peppercompiler.design.constraint_load import Convert
    from peppercompiler import finish as pf
    import peppercompiler.utils as utils
    utils.DEBUG = False
    out = {"anon_before": impl.anon_counter()}
    cwd = os.getcwd()
    progen.write_bundle(b, root)
    os.chdir(root)
    try:
        pil, save, mfe, seqs, strands = "out.pil", "out.save", "out.mfe", "out.seqs", "out.strands"
        fixed = None
        if fixed_text is not None:
            fixed = "fixed.fix"
            with open(fixed, "w") as f:
                f.write(fixed_text)
        try:
            with quiet():
                pc.compiler(b.entry, list(getattr(b, "args", [])), pil, save, fixed, True, list(b.includes) if b.includes else None)
        except BaseException as e:
            if isinstance(e, KeyboardInterrupt): raise
            raise Stage("compile", e)
        out["pil"] = open(pil).read()
        try:
            with quiet():
                conv = Convert(pil, struct_orient)
                eq, wc, st = conv.get_constraints()
        except BaseException as e:
            if isinstance(e, KeyboardInterrupt): raise
            raise Stage("constraints", e)
        out["arrays"] = (eq, wc, st)
        if nts_source == "python":
            nts = assignment_for(eq, wc, st, rng)
        else:
            nts = nts_source(eq, wc, st)
        bad = check_assignment(eq, wc, st, nts)
        if bad:
            raise Stage("assignment", ValueError(bad))
        out["nts"] = nts
        try:
            with quiet():
                conv.process_results(nts)
                conv.output(mfe, findmfe=False)
        except BaseException as e:
            if isinstance(e, KeyboardInterrupt): raise
            raise Stage("mfe-write", e)
        out["mfe"] = open(mfe).read()
        if mfe_hook is not None:
            mfe_hook(mfe, out)
        try:
            with quiet():
                pf.finish(save, mfe, seqs, strands, False, False, 0, 0, 0, 0, False, 0)
        except BaseException as e:
            if isinstance(e, KeyboardInterrupt): raise
            raise Stage("finish", e)
        out["seqs"] = open(seqs).read()
        out["strands"] = open(strands).read()
        return out
    finally:
        os.chdir(cwd)


def parse_seqs_file(text):
    """{'sequence': {name: seq}, 'strand': {...}, 'structure': {...}}, keeping duplicates as a list of pairs too"""
    d = {"sequence": {}, "strand": {}, "structure": {}}
    order = []
    for line in text.split("\n"):
        line = line.strip()
        if not line or line.startswith("#"):
            continue
        m = re.match(r"(sequence|strand|structure) (\S+) =\s?(\S*)\Z", line)
        if not m:
            raise ValueError("unreadable .seqs line %r" % line)
        d[m.group(1)][m.group(2)] = m.group(3)
        order.append((m.group(1), m.group(2)))
    return d, order


def rc(s):
    return "".join(COMP[c] for c in reversed(s))


def sat_src(design, impl_design, seqs_text, strands_text):
    """SatSrc: do the finished sequences satisfy what the source denotes?  `design` = src-denote (raw),
    `impl_design` = denotation of the emitted PIL (raw; only used to translate anonymous names: both list the
    domains in the same order).  Returns a list of problems (empty = satisfied)."""
    from semantics import parse_nuc, bonds
    problems = []
    d, order = parse_seqs_file(seqs_text)
    S = d["sequence"]
    # anonymous domains: the .seqs file uses the implementation's numbering; both designs list domains in the same order
    name_of = {}
    if len(design["domains"]) != len(impl_design["domains"]):
        return ["source denotes %d domains, emitted PIL %d" % (len(design["domains"]), len(impl_design["domains"]))]
    for (a, _), (b, _) in zip(design["domains"], impl_design["domains"]):
        name_of[a] = b
    val = {}
    # signal connector sequences are introduced by the compiler in the specification; they are not saved objects
    signal_doms = {parse_nuc(e[0][0])[0][0] for e in design["equals"] if e and e[0]}
    for name, tmpl in design["domains"]:
        real = name_of.get(name, name)
        if real not in S and name in signal_doms:
            continue
        if real not in S:
            problems.append("sequence %s missing from the .seqs file" % real); continue
        s = S[real]
        if len(s) != len(tmpl):
            problems.append("sequence %s has length %d, constraint %s" % (real, len(s), tmpl)); continue
        for i, (c, t) in enumerate(zip(s, tmpl)):
            if c not in GROUP or not set(GROUP[c]) <= set(GROUP[t]):
                problems.append("sequence %s position %d: %s not allowed by %s" % (real, i, c, t))
            val[(name, i)] = c

    def ev(nucs):
        out = []
        for x in nucs:
            v, comp = parse_nuc(x)
            if v not in val:
                return None
            out.append(COMPX[val[v]] if comp else val[v])
        return "".join(out)
    for name, nucs in design["seqs"]:
        real = name_of.get(name, name)
        if name in signal_doms:
            continue
        want = ev(nucs)
        if want is not None and S.get(real) != want:
            problems.append("sequence %s = %s is not the concatenation of its domains (%s)" % (real, S.get(real), want))
    T = d["strand"]
    strand_val = {}
    # every position that lies on a strand (whether or not the strand is in a structure) is in the designer's arrays and is assigned:
    # its finished letter is a base, not a left-over template code
    undesigned = []
    for name, dummy, nucs in design["strands"]:
        for x in nucs:
            v, _ = parse_nuc(x)
            if v in val and val[v] not in "ACGT":
                undesigned.append("%s (strand %s)" % ("%s:%d" % v, name))
    if undesigned:
        problems.append("position %s lies on a strand but its finished letter is not a base (the assignment was not carried through)" % undesigned[0])
    for name, dummy, nucs in design["strands"]:
        want = ev(nucs)
        strand_val[name] = want
        if want is not None and T.get(name) != want:
            problems.append("strand %s = %s, its domains give %s" % (name, T.get(name), want))
    for name, snames, dp, opt in design["structs"]:
        want = "+".join(strand_val.get(s) or "?" for s in snames)
        got = d["structure"].get(name)
        if got != want:
            problems.append("structure %s = %s, its strands give %s" % (name, got, want))
            continue
        flat = got.replace("+", "")
        for i, j in bonds(dp):
            if flat[i] not in COMP or flat[i] != COMP.get(flat[j]):
                problems.append("structure %s: target pair (%d,%d) is %s-%s" % (name, i, j, flat[i], flat[j]))
    # ports bound to one signal agree — through any depth of nesting: signal connectors themselves are not saved
    # objects, so propagate the equalities (with orientation) and compare every pair of VALUED nucleotides of a class
    from semantics import UF
    uf = UF()
    for e in design["equals"]:
        regs = [[parse_nuc(x) for x in reg] for reg in e]
        for reg in regs[1:]:
            for (va, ca), (vb, cb) in zip(regs[0], reg):
                uf.union(va, vb, (1 if ca else 0) ^ (1 if cb else 0))
    # a sequence that is never placed in a strand is not designed and keeps its template letter (the compiler warns about
    # it): such a letter agrees with a designed base when it allows it, so classes are compared as sets of bases
    seen = {}
    for v in list(uf.p):
        if v not in val or val[v] not in GROUP:
            continue
        r, par = uf.find(v)
        letter = COMPX[val[v]] if par else val[v]
        allowed = frozenset(GROUP[letter])
        if r in seen and not (seen[r][1] & allowed):
            problems.append("ports bound to one signal disagree: %s:%d and %s:%d" % (seen[r][0][0], seen[r][0][1], v[0], v[1]))
            break
        seen[r] = (seen[r][0], seen[r][1] & allowed) if r in seen else (v, allowed)
    # the strands-to-order file lists exactly the non-dummy strands
    listed = []
    for line in strands_text.split("\n"):
        if line.strip():
            m = re.match(r"strand (\S+)\t(\S+)\Z", line)
            if not m:
                problems.append("unreadable strands-file line %r" % line); continue
            listed.append((m.group(1), m.group(2)))
    want = [(n, strand_val[n]) for n, dm, _ in design["strands"] if not dm]
    if listed != want:
        problems.append("strands-to-order file lists %r, expected %r" % (listed[:4], want[:4]))
    return problems


def listing_problems(b, seqs_text):
    """the `.seqs` file lists every sequence, strand and structure the SOURCE names (also the zero-length ones), under its
    instance-path prefix.  Names are read off the source ASTs of the bundle (`b.files`: "<file>@<instance path>" -> AST), not
    off anything the implementation or the model produced."""
    d, _ = parse_seqs_file(seqs_text)
    kinds = {"seq": "sequence", "strand": "strand", "struct": "structure"}
    problems = []
    for key, ast in getattr(b, "files", {}).items():
        if ast.get("kind") != "comp":
            continue
        ip = key.split("@", 1)[1]
        pfx = ip + "-" if ip else ""
        for st in ast["stmts"]:
            if st["k"] in kinds and (pfx + st["name"]) not in d[kinds[st["k"]]]:
                problems.append("%s %s of the source is not listed in the .seqs file" % (kinds[st["k"]], pfx + st["name"]))
    return problems


def satisfiable(design):
    """independent decision: does the design admit an assignment? (link closure + template intersection)"""
    import semantics
    S = semantics.system_of_design(design)
    if S.conflict:
        return False
    root_allowed = {}
    for v, t in S.templates.items():
        r, p = S.uf.find(v)
        s = semantics.compl_set(t) if p else t
        root_allowed[r] = root_allowed.get(r, frozenset("ACGT")) & s
    return all(root_allowed.values())
