"""Independent reader of .comp / .sys source text into the AST the Lean model consumes, written from
doc/component.md and doc/system.md (NOT from the package's regexes), plus a bundle builder that follows imports
(importing file's directory first, then the include list) and substitutes template arguments per instance.

Used to run the denotational oracles and the model correspondence on the repository's own examples: it covers
the statement-level parsing glue that generated programs (rendered from ASTs) exercise only in one direction."""
import os
import re

import progen


class SrcSyntax(Exception):
    pass


# ---------------------------------------------------------------- template substitution (own hand expansion)

def expand_template(text, env):
    """comments stripped; `length x = e` lines update env; <e> evaluated (ints); {a,b} lines multiplied out"""
    out = []
    env = dict(env)
    for raw in text.split("\n"):
        line = raw.split("#", 1)[0]
        m = re.match(r"\s*length\s+(\w+)\s*=\s*(.*)", line)
        if m:
            env[m.group(1)] = eval(m.group(2), {"__builtins__": None}, env)
            continue
        line = re.sub(r"<([^<>]*?)>", lambda mm: str(eval(mm.group(1), {"__builtins__": None}, env)), line)
        lines = [line]
        while any("{" in l and "}" in l for l in lines):
            nxt = []
            for l in lines:
                mm = re.search(r"\{([^{}]*?)\}", l)
                if mm:
                    nxt += [l[:mm.start()] + alt + l[mm.end():] for alt in mm.group(1).split(",")]
                else:
                    nxt.append(l)
            if nxt == lines:
                break
            lines = nxt
        out += [l for l in lines if l.strip()]
    return out


# ---------------------------------------------------------------- statements

NAME = r"[\w-]+"


def parse_items(text):
    items = []
    pos = 0
    text = text.strip()
    while pos < len(text):
        if text[pos].isspace():
            pos += 1; continue
        if text[pos] == '"':
            end = text.index('"', pos + 1)
            items.append({"t": "nuc", "text": text[pos + 1:end]}); pos = end + 1; continue
        m = re.compile(r"domains\(\s*(%s?)(\*?)\s*\)" % NAME).match(text, pos)
        if m:
            items.append({"t": "dom", "name": m.group(1), "star": bool(m.group(2))}); pos = m.end(); continue
        m = re.compile(r"(%s?)(\*?)(?=\s|$)" % NAME).match(text, pos)
        if m and m.group(1):
            items.append({"t": "ref", "name": m.group(1), "star": bool(m.group(2))}); pos = m.end(); continue
        raise SrcSyntax("item list %r" % text)
    return items


def split_len(rest):
    """`items : length`"""
    if ":" in rest:
        body, ln = rest.rsplit(":", 1)
        ln = ln.strip()
        if not ln.isdigit():
            raise SrcSyntax("declared length %r" % ln)
        return body.strip(), int(ln)
    return rest.strip(), None


def parse_comp(lines):
    decl = lines[0]
    m = re.match(r"declare\s+component\s+(%s)\s*(\((.*?)\))?\s*:(.*?)->(.*)\Z" % NAME, decl.strip())
    if not m:
        raise SrcSyntax("declare line %r" % decl)
    def ports(txt):
        out = []
        for p in txt.split("+"):
            p = p.strip()
            if not p:
                continue
            mm = re.match(r"(%s?)(\*?)\s*(\(\s*(%s)\s*\))?\Z" % (NAME, NAME), p)
            if not mm:
                raise SrcSyntax("port %r" % p)
            out.append({"seq": mm.group(1), "star": bool(mm.group(2)), "struct": mm.group(4)})
        return out
    ast = {"kind": "comp", "name": m.group(1), "params": [x.strip() for x in (m.group(3) or "").split(",") if x.strip()],
           "inputs": ports(m.group(4)), "outputs": ports(m.group(5)), "stmts": []}
    for line in lines[1:]:
        line = line.strip()
        cmd = line.split()[0]
        rest = line[len(cmd):].strip()
        if cmd == "sequence":
            mm = re.match(r"(%s)\s*=\s*(.*)\Z" % NAME, rest)
            if not mm:
                raise SrcSyntax(line)
            body, ln = split_len(mm.group(2))
            ast["stmts"].append({"k": "seq", "name": mm.group(1), "items": parse_items(body), "len": ln})
        elif cmd == "strand":
            dummy = False
            if rest.startswith("[dummy]"):
                dummy = True; rest = rest[len("[dummy]"):].strip()
            mm = re.match(r"(%s)\s*=\s*(.*)\Z" % NAME, rest)
            if not mm:
                raise SrcSyntax(line)
            body, ln = split_len(mm.group(2))
            ast["stmts"].append({"k": "strand", "dummy": dummy, "name": mm.group(1), "items": parse_items(body), "len": ln})
        elif cmd == "structure":
            opt = None
            mm = re.match(r"\[\s*(no-opt|([\d.]+)\s*nt)\s*\]\s*(.*)\Z", rest)
            if mm:
                opt = "no-opt" if mm.group(1) == "no-opt" else mm.group(2)
                rest = mm.group(3)
            mm = re.match(r"(%s)\s*=\s*([^:]*):\s*(domain\s+)?(.*)\Z" % NAME, rest)
            if not mm:
                raise SrcSyntax(line)
            ast["stmts"].append({"k": "struct", "opt": opt, "name": mm.group(1), "strands": [s.strip() for s in mm.group(2).split("+")],
                                 "domain": bool(mm.group(3)), "text": mm.group(4).strip()})
        elif cmd == "kinetic":
            low = None
            mm = re.match(r"\[\s*k\s*>\s*([\d.eE]+)\s*/M/s\s*\]\s*(.*)\Z", rest)
            if mm:
                low = mm.group(1); rest = mm.group(2)
            elif rest.startswith("["):
                raise SrcSyntax("kinetic parameters %r" % rest)
            ins, outs = rest.split("->")
            ast["stmts"].append({"k": "kinetic", "low": low, "high": None, "ins": [x.strip() for x in ins.split("+") if x.strip()],
                                 "outs": [x.strip() for x in outs.split("+") if x.strip()]})
        else:
            raise SrcSyntax("statement %r" % line)
    return ast


def parse_sys(lines):
    m = re.match(r"declare\s+system\s+(\w+)\s*(\((.*?)\))?\s*:(.*?)->(.*)\Z", lines[0].strip())
    if not m:
        raise SrcSyntax("declare line %r" % lines[0])
    def sigs(txt):
        out = []
        for p in txt.split("+"):
            p = p.strip()
            if p:
                mm = re.match(r"(\w+)\s*(\*?)\Z", p)
                if not mm:
                    raise SrcSyntax("signal %r" % p)
                out.append({"name": mm.group(1), "star": bool(mm.group(2))})
        return out
    ast = {"kind": "sys", "name": m.group(1), "params": [x.strip() for x in (m.group(3) or "").split(",") if x.strip()],
           "inputs": sigs(m.group(4)), "outputs": sigs(m.group(5)), "stmts": []}
    for line in lines[1:]:
        line = line.strip()
        if line.startswith("import"):
            items = []
            for part in line[len("import"):].split(","):
                part = part.strip()
                mm = re.match(r"(\S+)(\s+as\s+(\w+))?\Z", part)
                if not mm:
                    raise SrcSyntax(line)
                items.append([mm.group(1), mm.group(3)])
            ast["stmts"].append({"k": "import", "items": items})
        elif line.startswith("component"):
            mm = re.match(r"component\s+(\w+)\s*=\s*(\w+)\s*(\((.*?)\))?\s*:(.*?)->(.*)\Z", line)
            if not mm:
                raise SrcSyntax(line)
            args = [eval(x, {"__builtins__": None}, {}) for x in (mm.group(4) or "").split(",") if x.strip()]
            ast["stmts"].append({"k": "component", "name": mm.group(1), "templ": mm.group(2), "nargs": len(args), "_args": args,
                                 "ins": sigs(mm.group(5)), "outs": sigs(mm.group(6))})
        else:
            raise SrcSyntax("statement %r" % line)
    return ast


# ---------------------------------------------------------------- bundles from a directory

def first_statement_params(text):
    for raw in text.split("\n"):
        line = raw.split("#", 1)[0].strip()
        if line:
            m = re.match(r"declare\s+(component|system)\s+[\w-]+\s*(\((.*?)\))?", line)
            if not m:
                raise SrcSyntax("declare line %r" % line)
            return [x.strip() for x in (m.group(3) or "").split(",") if x.strip()]
    raise SrcSyntax("empty file")


def bundle_from_dir(root, entry, args, includes=()):
    """follow imports from `entry` (relative to `root`, the invocation directory)"""
    b = progen.Bundle()
    b.entry = entry
    b.includes = list(includes)
    b.nargs = len(args)

    def find(base, path):
        for d in [path] + list(includes):
            cand = os.path.join(d, base)
            issys = os.path.isfile(os.path.join(root, cand + ".sys"))
            iscomp = os.path.isfile(os.path.join(root, cand + ".comp"))
            if issys and iscomp:
                raise SrcSyntax("ambiguous %s" % cand)
            if issys or iscomp:
                return cand + (".sys" if issys else ".comp"), os.path.dirname(cand)
        raise SrcSyntax("missing %s" % base)

    def load(base, args, path, instpath, top):
        fname, newpath = find(base, path)
        text = open(os.path.join(root, fname)).read()
        b.texts[os.path.normpath(fname)] = text
        params = first_statement_params(text)
        if len(params) != len(args):
            raise SrcSyntax("arity")
        lines = expand_template(text, dict(zip(params, args)))
        key = os.path.normpath(fname) + "@" + ("" if top else instpath)
        if fname.endswith(".comp"):
            ast = parse_comp(lines)
            b.files[key] = progen.strip_private(ast)
        else:
            ast = parse_sys(lines)
            b.files[key] = progen.strip_private(ast)
            templates = {}
            for s in ast["stmts"]:
                if s["k"] == "import":
                    for p, alias in s["items"]:
                        templates[alias or p.split("/")[-1]] = p
                else:
                    sub = (instpath + "-" if instpath else "") + s["name"]
                    load(templates[s["templ"]], s["_args"], newpath if newpath else ".", sub, False)
    load(entry, list(args), ".", "", True)
    # the model's file-existence probe must see everything the real directory holds
    for dp, _, fns in os.walk(root):
        for fn in fns:
            if fn.endswith(".sys") or fn.endswith(".comp"):
                rel = os.path.normpath(os.path.relpath(os.path.join(dp, fn), root))
                if rel not in b.texts:
                    b.texts[rel] = open(os.path.join(dp, fn)).read()
    b.args = list(args)
    return b
