/* Extracts the finite tables of spuriousSSM.c by executing the real functions over their whole
   domain.  Compiled with -DSSM_SOURCE="<path>" ; main renamed. */
#define main ssm_main
#include SSM_SOURCE
#undef main
#include <stdio.h>
int main(void) {
  int c, k;
  init_rand();
  printf("{\"wc\":[");
  int first = 1;
  for (c = 1; c < 256; c++) {
    char r = WC((char)c);
    if (r != ' ') { printf("%s[%d,%d]", first ? "" : ",", c, (int)(unsigned char)r); first = 0; }
  }
  printf("],\"degenerates\":[");
  for (k = 0; degenerates[k]; k++) printf("%s%d", k ? "," : "", (int)(unsigned char)degenerates[k]);
  printf("],\"randbase\":[");
  first = 1;
  for (c = 1; c < 256; c++) {
    int seen[256] = {0}; int t, any = 0;
    for (t = 0; t < 4096; t++) { unsigned char r = (unsigned char)randbasec((char)c); seen[r] = 1; }
    for (t = 0; t < 256; t++) if (seen[t] && t != ' ') any = 1;
    if (!any) continue;
    printf("%s[%d,[", first ? "" : ",", c); first = 0;
    int f2 = 1;
    for (t = 0; t < 256; t++) if (seen[t]) { printf("%s%d", f2 ? "" : ",", t); f2 = 0; }
    printf("]]");
  }
  printf("]}\n");
  return 0;
}
