/* Extracts the finite tables of spuriousSSM.c by executing the real functions over their whole
   domain.  Compiled with -DSSM_SOURCE="<path>" ; main renamed. */
#define main ssm_main
#include SSM_SOURCE
#undef main
#include <stdio.h>
int main(void) {
  int c, k;
  init_rand();
  printf("{\"wc\":[");
  int first = 1;
  for (c = 1; c < 256; c++) {
    char r = WC((char)c);
    if (r != ' ') { printf("%s[%d,%d]", first ? "" : ",", c, (int)(unsigned char)r); first = 0; }
  }
  printf("],\"degenerates\":[");
#ifndef SSM_NO_DEGENERATES_STRING
  for (k = 0; degenerates[k]; k++) printf("%s%d", k ? "," : "", (int)(unsigned char)degenerates[k]);
#else
  /* the source no longer has the `degenerates` pair string: the same relation (template code, base) is obtained from the
     behaviour of the real test_consistency on one-position inputs and written in the pair-string format */
  {
    int b; const char *bases = "ACGT"; int wc1[1] = {-1}, eq1[1] = {0}; char S1[2] = {0, 0}, St1[2] = {0, 0};
    N = 1; k = 0;
    FILE *devnull = freopen("/dev/null", "w", stderr); (void)devnull;
    for (c = 33; c < 127; c++) for (b = 0; b < 4; b++) {
      S1[0] = bases[b]; St1[0] = (char)c;
      if (test_consistency(S1, St1, wc1, eq1)) { printf("%s%d,%d", k ? ",32," : "", c, (int)bases[b]); k = 1; }
    }
  }
#endif
  printf("],\"randbase\":[");
  first = 1;
  for (c = 1; c < 256; c++) {
    int seen[256] = {0}; int t, any = 0;
    for (t = 0; t < 4096; t++) { unsigned char r = (unsigned char)randbasec((char)c); seen[r] = 1; }
    for (t = 0; t < 256; t++) if (seen[t] && t != ' ') any = 1;
    if (!any) continue;
    printf("%s[%d,[", first ? "" : ",", c); first = 0;
    int f2 = 1;
    for (t = 0; t < 256; t++) if (seen[t]) { printf("%s%d", f2 ? "" : ",", t); f2 = 0; }
    printf("]]");
  }
  printf("]}\n");
  return 0;
}
