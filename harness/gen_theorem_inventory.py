"""Rewrites the per-property theorem inventory in DESIGN.md (between THEOREM-INVENTORY markers) from lean/PepperProps."""
import os, re, json
VERIF = os.path.dirname(os.path.dirname(os.path.abspath(__file__)))
rows = []
tot = 0
for i in range(1, 21):
    pid = "C%02d" % i
    p = os.path.join(VERIF, "lean", "PepperProps", pid + ".lean")
    if not os.path.exists(p):
        rows.append("| %s | — | (no theorem file) | |" % pid); continue
    src = open(p).read()
    body = re.sub(r"/-.*?-/", "", src, flags=re.S)
    body = re.sub(r"--.*", "", body)
    names = re.findall(r"^\s*theorem\s+([A-Za-z_][\w.']*)", body, flags=re.M)
    partial = [n for n in names if "partial" in n]
    full = [n for n in names if "partial" not in n]
    ax = {}
    ev = os.path.join(VERIF, "evidence", pid + ".json")
    if os.path.exists(ev):
        try:
            ax = json.load(open(ev))["coverage"].get("theorems", {}) or {}
        except Exception:
            ax = {}
    axs = sorted({a for v in ax.values() if v for a in v})
    tot += len(names)
    rows.append("| %s | %d | %s | %s |" % (pid, len(names), ", ".join("`%s`" % n for n in full[:14]) + (" …" if len(full) > 14 else ""),
                                        ", ".join("`%s`" % n for n in partial) or "—"))
import sys
sys.path.insert(0, os.path.join(VERIF, "harness"))
try:
    from core import EXTRA_MODULES
except Exception:
    EXTRA_MODULES = {}
for name in sorted({n for v in EXTRA_MODULES.values() for n in v}):
    p = os.path.join(VERIF, "lean", "PepperProps", name + ".lean")
    if not os.path.exists(p):
        continue
    body = re.sub(r"/-.*?-/", "", open(p).read(), flags=re.S)
    body = re.sub(r"--.*", "", body)
    names = re.findall(r"^\s*theorem\s+([A-Za-z_][\w.']*)", body, flags=re.M)
    tot += len(names)
    used = ", ".join(sorted(k for k, v in EXTRA_MODULES.items() if name in v))
    rows.append("| %s (text level; audited with %s) | %d | %s | %s |" % (name, used, len(names),
                ", ".join(["`%s`" % n for n in names if "partial" not in n][:14]) + (" …" if len(names) > 14 else ""),
                ", ".join("`%s`" % n for n in names if "partial" in n) or "—"))
table = ["| property | theorems | full-strength theorems (first 14) | theorems named `_partial` |", "|---|---|---|---|"] + rows + \
        ["", "Total: %d property theorems; every one is audited with `#print axioms` on every run (allowed: propext, Classical.choice, Quot.sound)." % tot]
p = os.path.join(VERIF, "DESIGN.md")
s = open(p).read()
a, b = "<!-- THEOREM-INVENTORY-BEGIN -->", "<!-- THEOREM-INVENTORY-END -->"
block = a + "\n" + "\n".join(table) + "\n" + b
if a not in s:
    raise SystemExit("markers missing")
s = re.sub(re.escape(a) + r".*?" + re.escape(b), lambda _: block, s, flags=re.S)
open(p, "w").write(s)
print(tot, "theorems")
