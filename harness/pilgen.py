"""PIL documents for C04 / C05 / C15: typed generator, renderer with free spacing, an independent reader, and the
independent oracle (union-find with parity over (domain, index) variables, written from DESIGN.md section 4 and
doc/PIL_Spec.tex; shares no code with peppercompiler).

Statements are dicts (the JSON the Lean driver consumes):
  {"k":"seq","name","tmpl"} {"k":"sup","name","items":[raw names, optional trailing *]}
  {"k":"strand","name","dummy","items"} {"k":"struct","name","params":str|None,"strands":[..],"struct":".()+"}
  {"k":"equal","items"} {"k":"kinetic"}
"""
import re

# the table of doc/PIL_Spec.tex ("Nucleotide symbols")
CODES = {"A": "A", "C": "C", "G": "G", "T": "T", "R": "AG", "Y": "CT", "W": "AT", "S": "CG", "M": "AC", "K": "GT",
         "B": "CGT", "D": "AGT", "H": "ACT", "V": "ACG", "N": "ACGT"}
BASES = "ACGT"
BCOMP = {"A": "T", "T": "A", "C": "G", "G": "C"}
BIT = {"A": 1, "C": 2, "G": 4, "T": 8}
MASK = {c: sum(BIT[b] for b in s) for c, s in CODES.items()}
CODE_OF_MASK = {m: c for c, m in MASK.items()}

STRAND_GAP = 2          # strand layout: two blanks after every strand
STRUCT_GAP_STRAND = 1   # structure layout: one blank after every strand ...
STRUCT_GAP_STRUCT = 1   # ... and one more after every structure


def compl_mask(m):
    return ((m & 1) << 3) | ((m & 8) >> 3) | ((m & 2) << 1) | ((m & 4) >> 1)


class IllFormed(Exception):
    pass


# ------------------------------------------------------------------------------------------------ denotation

def denote(stmts):
    """The design a statement list denotes: domains, regions of every name, strands, structures, equal entries.
    A nucleotide is (domain, index, comp)."""
    doms = {}       # name -> template
    regs = {}       # sequence / super-sequence name -> [nuc]
    order = []      # sequence names in order
    strands = {}    # name -> (dummy, [nuc])
    sorder = []
    structs = []    # (name, [strand names], dot-paren, params)
    equals = []     # [[nuc]...]

    def region(raw):
        star = raw.endswith("*")
        nm = raw[:-1] if star else raw
        if nm not in regs:
            raise IllFormed("undefined sequence %r" % nm)
        r = regs[nm]
        return [(d, i, not c) for (d, i, c) in reversed(r)] if star else list(r)

    for s in stmts:
        k = s["k"]
        if k == "seq":
            if s["name"] in regs:
                raise IllFormed("duplicate sequence")
            if any(c not in CODES for c in s["tmpl"]):
                raise IllFormed("template alphabet")
            doms[s["name"]] = s["tmpl"]
            regs[s["name"]] = [(s["name"], i, False) for i in range(len(s["tmpl"]))]
            order.append(s["name"])
        elif k == "sup":
            if s["name"] in regs:
                raise IllFormed("duplicate sequence")
            r = []
            for it in s["items"]:
                r += region(it)
            regs[s["name"]] = r
            order.append(s["name"])
        elif k == "strand":
            if s["name"] in strands:
                raise IllFormed("duplicate strand")
            r = []
            for it in s["items"]:
                r += region(it)
            strands[s["name"]] = (bool(s.get("dummy")), r)
            sorder.append(s["name"])
        elif k == "struct":
            if any(x[0] == s["name"] for x in structs):
                raise IllFormed("duplicate structure")
            for n in s["strands"]:
                if n not in strands:
                    raise IllFormed("undefined strand")
            parts = s["struct"].split("+")
            if len(parts) != len(s["strands"]) or any(len(p) != len(strands[n][1]) for p, n in zip(parts, s["strands"])):
                raise IllFormed("structure size")
            if any(c not in ".()+" for c in s["struct"]):
                raise IllFormed("structure alphabet")
            structs.append((s["name"], list(s["strands"]), s["struct"], s.get("params")))
        elif k == "equal":
            rs = [region(it) for it in s["items"]]
            if not rs or any(len(r) != len(rs[0]) for r in rs):
                raise IllFormed("equal sizes")
            equals.append(rs)
    return {"doms": doms, "regs": regs, "order": order, "strands": strands, "sorder": sorder, "structs": structs,
            "equals": equals}


def pairs_of(dp):
    """base pairs of a dot-paren string, positions not counting '+'; raises on an unmatched ')' (an unmatched
    '(' stays unpaired, as in the reader under test)"""
    out, stack, pos = [], [], 0
    for c in dp:
        if c == "+":
            continue
        if c == "(":
            stack.append(pos)
        elif c == ")":
            if not stack:
                raise IllFormed("unbalanced")
            out.append((stack.pop(), pos))
        pos += 1
    return out


class UF:
    """union-find with parity: find(v) -> (root, parity of v relative to the root)"""
    def __init__(self):
        self.p = {}
        self.par = {}
        self.odd = False

    def find(self, v):
        if v not in self.p:
            self.p[v] = v
            self.par[v] = 0
            return v, 0
        path = []
        x = v
        while self.p[x] != x:
            path.append(x)
            x = self.p[x]
        root = x
        # path compression, parity relative to the root
        acc = 0
        for y in reversed(path):
            acc ^= self.par[y]
            self.p[y] = root
            self.par[y] = acc
        return root, self.par[v] if path else 0

    def consistent(self, v, w, parity):
        rv, pv = self.find(v)
        rw, pw = self.find(w)
        return rv != rw or (pv ^ pw) == parity

    def union(self, v, w, parity):
        """force value(v) = value(w) xor parity; returns False (and records it) on an odd cycle"""
        rv, pv = self.find(v)
        rw, pw = self.find(w)
        if rv == rw:
            if (pv ^ pw) != parity:
                self.odd = True
                return False
            return True
        self.p[rv] = rw
        self.par[rv] = pv ^ pw ^ parity
        return True


def links_of(d):
    """semantic links: (var, var, parity)"""
    out = []
    for rs in d["equals"]:
        for r in rs[1:]:
            for (a, i, c), (b, j, e) in zip(rs[0], r):
                out.append(((a, i), (b, j), int(c != e)))
    for name, sn, dp, _ in d["structs"]:
        nucs = []
        for n in sn:
            nucs += d["strands"][n][1]
        for x, y in pairs_of(dp):
            (a, i, c), (b, j, e) = nucs[x], nucs[y]
            out.append(((a, i), (b, j), int(c == e)))
    return out


def line_of(d, layout):
    """[None | nuc] for every index of the constraint arrays, or None when the layout is undefined
    (structure layout and a non-empty strand that occurs in no structure)"""
    line = []
    if layout == "strand":
        for n in d["sorder"]:
            line += list(d["strands"][n][1]) + [None] * STRAND_GAP
    else:
        used = set()
        for name, sn, dp, _ in d["structs"]:
            for n in sn:
                used.add(n)
                line += list(d["strands"][n][1]) + [None] * STRUCT_GAP_STRAND
            line += [None] * STRUCT_GAP_STRUCT
        for n in d["sorder"]:
            if n not in used and d["strands"][n][1]:
                return None
    while line and line[-1] is None:
        line.pop()
    return line


def oracle(stmts, layout):
    """("unsat", reason) | ("nolayout",) | ("empty",) | ("ok", eq, wc, st) -- the arrays the property demands."""
    d = denote(stmts)
    uf = UF()
    for v, w, p in links_of(d):
        uf.union(v, w, p)
    if uf.odd:
        return ("unsat", "odd-cycle")
    mask = {}
    for name, t in d["doms"].items():
        for i, c in enumerate(t):
            r, p = uf.find((name, i))
            m = MASK[c]
            if p:
                m = compl_mask(m)
            mask[r] = mask.get(r, 15) & m
    if any(m == 0 for m in mask.values()):
        return ("unsat", "template")
    line = line_of(d, layout)
    if line is None:
        return ("nolayout",)
    if not line:
        return ("empty",)
    key = []
    first = {}
    for i, n in enumerate(line):
        if n is None:
            key.append(None)
            continue
        r, p = uf.find((n[0], n[1]))
        k = (r, p ^ int(n[2]))
        key.append(k)
        first.setdefault(k, i)
    eq, wc, st = [], [], []
    for i, k in enumerate(key):
        if k is None:
            eq.append(None); wc.append(None); st.append(None)
            continue
        eq.append(first[k])
        wc.append(first.get((k[0], 1 - k[1])))
        m = mask.get(k[0], 15)
        st.append(CODE_OF_MASK[compl_mask(m) if k[1] else m])
    return ("ok", eq, wc, st)


def segments(stmts, layout):
    """expected strands on the line, grouped by complex (lengths)"""
    d = denote(stmts)
    if layout == "strand":
        return [[len(d["strands"][n][1])] for n in d["sorder"]]
    return [[len(d["strands"][n][1]) for n in sn] for _, sn, _, _ in d["structs"]]


def design_json(stmts):
    """the canonical JSON of the denoted design, as the model's `pil-denote` prints it"""
    d = denote(stmts)

    def nj(r):
        return [[a, i, bool(c)] for a, i, c in r]

    def opt(p):
        # mirrors Pil.optOfParams of the model (the real designer ignores structure parameters altogether, so this field is
        # compared between the model and this specification only): leading decimal numeral, zero = no-opt, anything else default
        if p is None:
            return 1
        ip = re.match(r"\d*", p).group(0)
        m = re.match(r"\.(\d*)", p[len(ip):])
        frac = m.group(1) if m else ""
        if not ip and not frac:
            return 1
        n = int(ip) if ip else 0
        if not frac.rstrip("0"):
            return "no-opt" if n == 0 else n
        return "other:" + (ip.lstrip("0") or "0") + "." + frac.rstrip("0")
    return {
        "domains": [[n, d["doms"][n]] for n in d["order"] if n in d["doms"] and d["doms"][n]],
        "seqs": [[n, nj(d["regs"][n])] for n in d["order"] if d["regs"][n]],
        "strands": [[n, d["strands"][n][0], nj(d["strands"][n][1])] for n in d["sorder"]],
        "structs": [[n, sn, dp, opt(p)] for n, sn, dp, p in d["structs"]],
        "equals": [[nj(r) for r in rs] for rs in d["equals"]],
    }


# ------------------------------------------------------------------------------------------------ reader

def read_pil(text):
    """Independent reader of PIL text (doc/PIL_Spec.tex): one statement per line, `#` comments, tokens separated by
    blanks/tabs.  Returns the statement list; raises IllFormed on a line it cannot read."""
    out = []
    for raw in text.split("\n"):
        h = raw.find("#")
        line = (raw if h < 0 else raw[:h]).strip(" \t\r")
        if not line:
            continue
        toks = line.split()
        kw = toks[0]
        rest = toks[1:]

        def cut_colon(ts):
            return ts[:ts.index(":")] if ":" in ts else ts
        if kw == "sequence":
            if len(rest) < 2 or rest[1] != "=":
                raise IllFormed(raw)
            body = cut_colon(rest[2:])
            if len(body) > 1:
                raise IllFormed(raw)
            out.append({"k": "seq", "name": rest[0], "tmpl": body[0] if body else ""})
        elif kw in ("sup-sequence", "super-sequence"):
            if len(rest) < 2 or rest[1] != "=":
                raise IllFormed(raw)
            out.append({"k": "sup", "name": rest[0], "items": cut_colon(rest[2:])})
        elif kw == "strand":
            dummy = bool(rest) and rest[0] == "[dummy]"
            if dummy:
                rest = rest[1:]
            if len(rest) < 2 or rest[1] != "=":
                raise IllFormed(raw)
            out.append({"k": "strand", "name": rest[0], "dummy": dummy, "items": cut_colon(rest[2:])})
        elif kw == "structure":
            params = None
            if rest and rest[0].startswith("[") and rest[0].endswith("]"):
                params = rest[0][1:-1]
                rest = rest[1:]
            if len(rest) < 2 or rest[1] != "=" or ":" not in rest:
                raise IllFormed(raw)
            c = rest.index(":")
            names = [x for x in "".join(t if t == "+" else " " + t + " " for t in rest[2:c]).replace("+", " + ").split()
                     if x != "+"]
            out.append({"k": "struct", "name": rest[0], "params": params, "strands": names,
                        "struct": "".join(rest[c + 1:])})
        elif kw == "equal":
            out.append({"k": "equal", "items": rest})
        elif kw == "kinetic":
            out.append({"k": "kinetic"})
        else:
            raise IllFormed(raw)
    return out


# ------------------------------------------------------------------------------------------------ renderer

def _ws(rng, wide=True):
    r = rng.random()
    if not wide or r < 0.6:
        return " "
    return rng.choice(["  ", "\t", " \t", "   ", "\t\t "])


COMMENTS = ["# a comment", "### another : comment = with + symbols", "#", "# sequence ghost = NNN : 3",
            "#structure [1nt] X = Y : ..."]


def render(stmts, rng, style="free"):
    """PIL text for the statement list.  style "free": random blanks/tabs around `=`, `:`, `+`, inside structures,
    comment lines, trailing comments, blank lines, optional ` : length` suffixes; "emitted": the compiler's spelling.
    Every line is newline-terminated, except that a free-style document sometimes lacks the final line end."""
    free = style == "free"
    lens = {}
    slens = {}
    lines = []

    def sp():
        return _ws(rng, free)

    def ilen(raw):
        return lens.get(raw[:-1] if raw.endswith("*") else raw, 0)
    for s in stmts:
        if free and rng.random() < 0.12:
            lines.append(rng.choice(["", "  ", "\t"]) + rng.choice(COMMENTS))
        if free and rng.random() < 0.08:
            lines.append(rng.choice(["", " ", "\t "]))
        k = s["k"]
        lead = rng.choice(["", "", "", " ", "\t"]) if free else ""
        suffix = (not free) or rng.random() < 0.6
        if k == "seq":
            lens[s["name"]] = len(s["tmpl"])
            ln = "sequence" + sp() + s["name"] + sp() + "=" + sp() + s["tmpl"]
            if suffix or not s["tmpl"]:
                ln += sp() + ":" + sp() + str(len(s["tmpl"]))
        elif k == "sup":
            n = sum(ilen(x) for x in s["items"])
            lens[s["name"]] = n
            kw = "sup-sequence" if not free else rng.choice(["sup-sequence", "super-sequence"])
            ln = kw + sp() + s["name"] + sp() + "=" + sp() + sp().join(s["items"])
            if suffix:
                ln += sp() + ":" + sp() + str(n)
        elif k == "strand":
            n = sum(ilen(x) for x in s["items"])
            slens[s["name"]] = n
            ln = "strand" + sp() + ("[dummy]" + sp() if s.get("dummy") else "") + s["name"] + sp() + "=" + sp() + \
                sp().join(s["items"])
            if suffix or not s["items"]:      # an empty strand is only readable with its length: `strand X =  : 0`
                ln += (sp() if s["items"] else rng.choice([" ", "  ", " \t"])) + ":" + sp() + str(n)
        elif k == "struct":
            ln = "structure" + sp()
            if s.get("params") is not None:
                ln += "[" + s["params"] + "]" + sp()
            plus = (lambda: rng.choice([" + ", "+", " +", "+ ", "\t+  "])) if free else (lambda: " + ")
            names = s["strands"][0]
            for n in s["strands"][1:]:
                names += plus() + n
            dp = s["struct"]
            if free and rng.random() < 0.4:
                dp = "".join(c + (rng.choice([" ", "  ", "\t"]) if rng.random() < 0.15 else "") for c in dp).rstrip()
            ln += s["name"] + sp() + "=" + sp() + names + sp() + ":" + sp() + dp
        elif k == "equal":
            ln = "equal" + sp() + sp().join(s["items"]) + (" " if not free else rng.choice(["", " ", "\t"]))
        else:
            ln = rng.choice(["kinetic [0.000000 /M/s < k < inf /M/s] In + Gate -> Out",
                             "kinetic A -> B + C", "kinetic [1000.1 /s < k < inf /s] Glob -> X + Y"])
        if free and rng.random() < 0.15:
            ln += sp() + rng.choice(COMMENTS)
        lines.append(lead + ln)
    if free and rng.random() < 0.3:
        lines.append(rng.choice(COMMENTS))
    text = "".join(l + "\n" for l in lines)
    if free and lines and "#" not in lines[-1] and lines[-1].strip() and rng.random() < 0.12:
        text = text[:-1]        # a hand-written file whose last line has no line end (a statement, not a comment: the reader is known not
                                # to strip a comment on an unterminated last line, DESIGN 0.7)
    return text


# ------------------------------------------------------------------------------------------------ generator

NAME_POOL = ["a", "b", "c", "d", "t", "x", "y", "toe_x", "data_x", "__Anon-435", "Gate-data_x", "d1", "d2", "s_1", "TAG",
             "N", "A", "reg", "m-1", "q0", "_u", "Seq9"]
STRAND_POOL = ["A", "B", "In", "Out", "Base", "Gate", "S1", "S2", "X", "a", "b", "hp", "top-1", "bot_2", "K"]
STRUCT_POOL = ["Gate", "Waste", "IN", "Open", "Closed", "C1", "C2", "X", "A", "hp", "duplex", "T-1"]


def _fresh(rng, pool, used, prefix):
    for _ in range(6):
        n = rng.choice(pool)
        if n not in used:
            used.add(n)
            return n
    i = len(used)
    while True:
        n = "%s%d" % (prefix, i)
        if n not in used:
            used.add(n)
            return n
        i += 1


def _rev(r):
    return [(d, i, not c) for (d, i, c) in reversed(r)]


def _code_with(rng, base, pN=0.5):
    if rng.random() < pN:
        return "N"
    return rng.choice([c for c, s in CODES.items() if base in s])


def _code_without(rng, base):
    return rng.choice([c for c, s in CODES.items() if base not in s])


def _noncrossing_ok(pairs, paired, i, j):
    if i == j or i in paired or j in paired:
        return False
    if i > j:
        i, j = j, i
    for a, b in pairs:
        if (a < i < b < j) or (i < a < j < b):
            return False
    return True


def _dot_paren(n_per_strand, pairs):
    total = sum(n_per_strand)
    s = ["."] * total
    for a, b in pairs:
        s[min(a, b)] = "("
        s[max(a, b)] = ")"
    out, pos = [], 0
    for n in n_per_strand:
        out.append("".join(s[pos:pos + n]))
        pos += n
    return "+".join(out)


def gen_doc(rng, size=None, bias="mixed"):
    """Hand-written-style PIL document as a statement list.

    size: dict(strands, nt, doms) upper bounds.  bias: "sat" (satisfiable by construction: links are only added when a
    parity union-find stays consistent, then templates are drawn around a hidden assignment), "unsat" (one
    deliberate conflict), "boundary" (near-conflicts, D/V and B/H meetings, self-pairing of even length,
    palindromes), "mixed".  Returns (stmts, meta)."""
    size = dict({"strands": 12, "nt": 60, "doms": 10}, **(size or {}))
    if bias == "mixed":
        bias = rng.choice(["sat", "sat", "unsat", "boundary"])
    meta = {"bias": bias, "tricks": []}
    used_seq, used_strand, used_struct = set(), set(), set()
    regs = {}      # name -> region
    doml = {}      # domain -> length
    stmts_seq, stmts_sup, stmts_strand, stmts_struct, stmts_equal = [], [], [], [], []
    uf = UF()

    # ---- domains
    ndom = rng.randint(1, size["doms"])
    common = rng.randint(1, 8)
    for _ in range(ndom):
        r = rng.random()
        L = common if r < 0.35 else rng.randint(1, 8) if r < 0.85 else rng.randint(9, max(9, min(25, size["nt"] // 2)))
        n = _fresh(rng, NAME_POOL, used_seq, "dom")
        doml[n] = L
        regs[n] = [(n, i, False) for i in range(L)]

    def item(rng, names):
        n = rng.choice(names)
        return n + "*" if rng.random() < 0.4 else n

    def reg_of(raw):
        return _rev(regs[raw[:-1]]) if raw.endswith("*") else list(regs[raw])

    # ---- super-sequences (nested, starred items)
    sup_order = []
    for _ in range(rng.choice([0, 0, 1, 1, 2, 3, 4])):
        names = list(regs)
        its, r = [], []
        for _ in range(rng.randint(1, 4)):
            it = item(rng, names)
            if len(r) + len(reg_of(it)) > size["nt"]:
                break
            its.append(it)
            r += reg_of(it)
        if not its:
            continue
        n = _fresh(rng, NAME_POOL, used_seq, "sup")
        regs[n] = r
        sup_order.append(n)
        stmts_sup.append({"k": "sup", "name": n, "items": its})

    # ---- strands
    strands = {}
    sorder = []
    nstr = rng.randint(1, size["strands"])
    for si in range(nstr):
        names = list(regs)
        its, r = [], []
        want = rng.randint(1, 5)
        for _ in range(want):
            if any(x["items"] for x in stmts_strand) and rng.random() < 0.45:
                # the complement of something an earlier strand carries, so that helices exist
                prev = rng.choice([x for x in stmts_strand if x["items"]])["items"]
                it = rng.choice(prev)
                it = it[:-1] if it.endswith("*") else it + "*"
            else:
                it = item(rng, names)
            if len(r) + len(reg_of(it)) > size["nt"]:
                continue
            its.append(it)
            r += reg_of(it)
        if sorder and rng.random() < 0.07:
            # an EMPTY strand (`strand X =  : 0`: what remains of a strand all of whose domains have length 0); it takes part in
            # structures like any other strand, with an empty segment
            its, r = [], []
            meta["tricks"].append("empty-strand")
        elif not its:
            it = rng.choice([n for n in doml])
            if doml[it] > size["nt"]:
                continue
            its, r = [it], reg_of(it)
        n = _fresh(rng, STRAND_POOL, used_strand, "S")
        strands[n] = r
        sorder.append(n)
        stmts_strand.append({"k": "strand", "name": n, "dummy": rng.random() < 0.1, "items": its})

    allow_odd = bias in ("unsat",) and rng.random() < 0.35

    def try_link(v, w, parity, force=False):
        if uf.consistent(v, w, parity):
            uf.union(v, w, parity)
            return True
        if force:
            meta["tricks"].append("odd-cycle")
            return True
        return False

    # ---- structures
    def add_structure(sn, density, force_all=False):
        if not any(strands[n] for n in sn):
            full = [n for n in sorder if strands[n]]
            if not full:
                return
            sn = list(sn) + [rng.choice(full)]     # the reader needs a non-empty structure text
        nucs = []
        for n in sn:
            nucs += strands[n]
        N = len(nucs)
        pairs, paired = [], set()
        if N >= 2:
            tries = int(density * N) + 1
            for _ in range(tries):
                i = rng.randrange(N)
                j = rng.randrange(N)
                if i > j:
                    i, j = j, i
                # a stem growing inwards
                k = 0
                maxk = rng.choice([1, 1, 2, 4, 8, 30])
                while k < maxk and i + k < j - k and _noncrossing_ok(pairs, paired, i + k, j - k):
                    (a, x, c), (b, y, e) = nucs[i + k], nucs[j - k]
                    if not try_link((a, x), (b, y), int(c == e), force=force_all):
                        break
                    pairs.append((i + k, j - k)); paired.update((i + k, j - k))
                    k += 1
        name = _fresh(rng, STRUCT_POOL, used_struct, "C")
        params = rng.choice([None, None, "1nt", "1nt", "3nt", "0nt", "12nt", "no-opt", "no-opt", "0.5nt", "1e+06nt"])
        stmts_struct.append({"k": "struct", "name": name, "params": params, "strands": list(sn),
                             "struct": _dot_paren([len(strands[n]) for n in sn], pairs)})

    if sorder:
        for _ in range(rng.choice([0, 1, 1, 2, 3, max(1, len(sorder) // 2)])):
            k = rng.choice([1, 1, 2, 2, 3])
            sn = [rng.choice(sorder) for _ in range(k)]
            if rng.random() < 0.15 and k >= 2:
                sn[1] = sn[0]                      # a strand twice in one structure
            add_structure(sn, rng.choice([0.0, 0.2, 0.5, 1.0]))
        if rng.random() < 0.7:
            used = {n for s in stmts_struct for n in s["strands"]}
            left = [n for n in sorder if n not in used]
            rng.shuffle(left)
            while left:
                k = min(len(left), rng.choice([1, 1, 2]))
                add_structure(left[:k], rng.choice([0.0, 0.3, 0.8]))
                left = left[k:]

    # ---- equal lines
    for _ in range(rng.choice([0, 0, 1, 1, 2, 3])):
        names = list(regs)
        first = item(rng, names)
        L = len(reg_of(first))
        cands = [n for n in names if len(regs[n]) == L]
        its = [first]
        for _ in range(rng.randint(1, 3)):
            it = rng.choice(cands)
            it = it + "*" if rng.random() < 0.4 else it
            if rng.random() < 0.18:
                # a region set equal to its OWN reverse complement (a palindromic site): satisfiable for even length
                it = first[:-1] if first.endswith("*") else first + "*"
                meta["tricks"].append("equal-to-own-complement")
            r0, r1 = reg_of(first), reg_of(it)
            ok = all(uf.consistent((a, x), (b, y), int(c != e)) for (a, x, c), (b, y, e) in zip(r0, r1))
            snapshot = None
            if ok:
                # unions of one line interact: apply them one by one, stop at the first conflict
                good = True
                for (a, x, c), (b, y, e) in zip(r0, r1):
                    if not uf.consistent((a, x), (b, y), int(c != e)):
                        good = False
                        break
                    uf.union((a, x), (b, y), int(c != e))
                if good:
                    its.append(it)
                elif allow_odd:
                    its.append(it); meta["tricks"].append("odd-cycle")
            elif allow_odd:
                its.append(it); meta["tricks"].append("odd-cycle")
        if len(its) > 1 or rng.random() < 0.2:
            stmts_equal.append({"k": "equal", "items": its})

    # ---- boundary / conflict tricks on the links (before templates are drawn)
    trick = None
    if bias in ("unsat", "boundary"):
        trick = rng.choice(["template", "template", "selfpair", "palindrome", "meeting", "homodimer"] if bias == "unsat"
                           else ["near", "meeting", "selfpair-even", "palindrome-even", "near", "homodimer-even"])
    if trick in ("homodimer", "homodimer-even"):
        # one strand twice in a complex, paired antiparallel with its own copy: position i of the first copy pairs with
        # position L-1-i of the second; for odd L the middle position is paired with itself
        odd = trick == "homodimer"
        cands = [n for n in sorder if strands[n] and len(strands[n]) % 2 == (1 if odd else 0)]
        if cands:
            s_ = rng.choice(cands)
            nucs = strands[s_]
            L = len(nucs)
            lo = rng.randint(0, (L - 1) // 2) if rng.random() < 0.5 else 0
            pairs = []
            for i in range(lo, L - lo):
                (p, x, c), (q, y, e) = nucs[i], nucs[L - 1 - i]
                if try_link((p, x), (q, y), int(c == e), force=odd):
                    pairs.append((i, 2 * L - 1 - i))
                elif not odd:
                    pairs = [pq for pq in pairs if pq[0] < i and pq[1] > 2 * L - 1 - i]
                    break
            # keep the pairing symmetric (i ~ L-1-i and L-1-i ~ i are the same link)
            keep = {i for i, _ in pairs}
            pairs = [(i, j) for i, j in pairs if (L - 1 - i) in keep]
            name = _fresh(rng, STRUCT_POOL, used_struct, "HD")
            stmts_struct.append({"k": "struct", "name": name, "params": rng.choice([None, "1nt", "no-opt", "0nt"]), "strands": [s_, s_],
                                 "struct": _dot_paren([L, L], pairs)})
            meta["tricks"].append(trick)
    if trick in ("selfpair", "selfpair-even"):
        odd = trick == "selfpair"
        cands = [n for n in doml if doml[n] % 2 == (1 if odd else 0) and 2 * doml[n] <= size["nt"] + 20]
        if cands:
            a = rng.choice(cands)
            L = doml[a]
            n = _fresh(rng, STRAND_POOL, used_strand, "H")
            gap = rng.choice([None, None] + [x for x in doml if x != a][:1])
            its = [a, a] if gap is None else [a, gap, a]
            strands[n] = sum((reg_of(x) for x in its), [])
            sorder.append(n)
            stmts_strand.append({"k": "strand", "name": n, "dummy": False, "items": its})
            mid = 0 if gap is None else doml[gap]
            nucs = strands[n]
            pairs = [(i, 2 * L + mid - 1 - i) for i in range(L)]
            for i, j in pairs:
                (p, x, c), (q, y, e) = nucs[i], nucs[j]
                try_link((p, x), (q, y), int(c == e), force=True)
            name = _fresh(rng, STRUCT_POOL, used_struct, "HP")
            stmts_struct.append({"k": "struct", "name": name, "params": rng.choice([None, "1nt", "no-opt", "0nt"]), "strands": [n],
                                 "struct": "(" * L + "." * mid + ")" * L})
            meta["tricks"].append(trick)
    if trick in ("palindrome", "palindrome-even"):
        odd = trick == "palindrome"
        cands = [n for n in regs if len(regs[n]) % 2 == (1 if odd else 0) and regs[n]]
        if cands:
            a = rng.choice(cands)
            for (p, x, c), (q, y, e) in zip(regs[a], _rev(regs[a])):
                try_link((p, x), (q, y), int(c != e), force=True)
            stmts_equal.append({"k": "equal", "items": rng.choice([[a, a + "*"], [a + "*", a]])})
            meta["tricks"].append(trick)

    # ---- hidden assignment, templates
    hidden = {}
    rootbase = {}
    for dname, L in doml.items():
        for i in range(L):
            r, p = uf.find((dname, i))
            if r not in rootbase:
                rootbase[r] = rng.choice(BASES)
            b = rootbase[r]
            hidden[(dname, i)] = BCOMP[b] if p else b
    pN = rng.choice([0.2, 0.5, 0.8, 1.0])
    tmpl = {d: [_code_with(rng, hidden[(d, i)], pN) for i in range(L)] for d, L in doml.items()}

    # classes with at least two positions, and the link graph for path lengths
    cls = {}
    for v in hidden:
        cls.setdefault(uf.find(v)[0], []).append(v)
    big = [vs for vs in cls.values() if len(vs) >= 2]
    if trick in ("template", "near", "meeting") and big:
        adj = {}
        d_now = None
        try:
            d_now = denote([{"k": "seq", "name": d, "tmpl": "".join(tmpl[d])} for d in doml] + stmts_sup + stmts_strand +
                           stmts_struct + stmts_equal)
        except IllFormed:
            d_now = None
        if d_now:
            for v, w, p in links_of(d_now):
                adj.setdefault(v, []).append(w)
                adj.setdefault(w, []).append(v)
        vs = rng.choice(big)
        v = rng.choice(vs)
        # breadth-first distances from v; prefer a partner at distance 1..6
        dist = {v: 0}
        todo = [v]
        while todo:
            x = todo.pop(0)
            for y in adj.get(x, ()):
                if y not in dist:
                    dist[y] = dist[x] + 1
                    todo.append(y)
        want = rng.randint(1, 6)
        others = [w for w in vs if w != v]
        near = [w for w in others if dist.get(w) == want] or [w for w in others if 1 <= dist.get(w, 99) <= 6] or others
        w = rng.choice(near)
        meta["path"] = dist.get(w)
        bv, bw = hidden[v], hidden[w]
        if trick == "template":
            tmpl[v[0]][v[1]] = rng.choice([bv, _code_with(rng, bv, 0.0)])
            # a code for w that excludes every base the code of v allows (seen from w's side)
            pv = uf.find(v)[1] ^ uf.find(w)[1]
            mv = MASK[tmpl[v[0]][v[1]]]
            mv = compl_mask(mv) if pv else mv
            free = [c for c, m in MASK.items() if m & mv == 0]
            if free:
                tmpl[w[0]][w[1]] = rng.choice(free)
            else:
                tmpl[v[0]][v[1]] = bv
                tmpl[w[0]][w[1]] = _code_without(rng, bw)
            meta["tricks"].append("template-conflict")
        elif trick == "near":
            tmpl[v[0]][v[1]] = bv
            tmpl[w[0]][w[1]] = rng.choice([c for c, s in CODES.items() if bw in s and len(s) == 2])
            meta["tricks"].append("near-conflict")
        else:
            # D meets V (common part R) / B meets H (common part Y); the mate's code is complemented when the two
            # positions are at odd parity
            cv, cw = ("D", "V") if bv in "AG" else ("B", "H")
            if uf.find(v)[1] ^ uf.find(w)[1]:
                cw = {"D": "H", "H": "D", "B": "V", "V": "B"}[cw]
            tmpl[v[0]][v[1]] = cv
            tmpl[w[0]][w[1]] = cw
            meta["tricks"].append("meeting")

    for d in doml:
        stmts_seq.append({"k": "seq", "name": d, "tmpl": "".join(tmpl[d])})

    # ---- order of statements: definitions before uses; equal / kinetic lines anywhere after their operands
    stmts = list(stmts_seq)
    rng.shuffle(stmts)
    stmts += stmts_sup + stmts_strand + stmts_struct
    for e in stmts_equal:
        # after the last definition it mentions
        names = {x[:-1] if x.endswith("*") else x for x in e["items"]}
        last = max(i for i, s in enumerate(stmts) if s["k"] in ("seq", "sup") and s["name"] in names)
        stmts.insert(rng.randint(last + 1, len(stmts)), e)
    for _ in range(rng.choice([0, 0, 1, 2])):
        stmts.insert(rng.randint(0, len(stmts)), {"k": "kinetic"})
    meta["strands"] = len(sorder)
    meta["nt"] = sum(len(strands[n]) for n in sorder)
    return stmts, meta


def canon_stmts(stmts):
    """statements as compared between readers (kinetic lines carry nothing)"""
    out = []
    for s in stmts:
        k = s["k"]
        if k == "seq":
            out.append(("seq", s["name"], s["tmpl"]))
        elif k == "sup":
            out.append(("sup", s["name"], tuple(s["items"])))
        elif k == "strand":
            out.append(("strand", s["name"], bool(s.get("dummy")), tuple(s["items"])))
        elif k == "struct":
            out.append(("struct", s["name"], s.get("params"), tuple(s["strands"]), s["struct"]))
        elif k == "equal":
            out.append(("equal", tuple(s["items"])))
        else:
            out.append(("kinetic",))
    return out


# ------------------------------------------------------------------------------------------------ running the real code

def classify_exc(e):
    """small stable class of an exception of Convert(...).get_constraints() / design(...)"""
    import traceback
    funcs = [f.name for f in traceback.extract_tb(e.__traceback__)]
    if "load_spec" in funcs:
        return "load"
    if isinstance(e, ValueError):
        if "propagate_templates" in funcs:
            return "overconstrained"
        if "dump" in funcs:
            return "noPositions"
        return "valueError"
    if isinstance(e, KeyError):
        return "keyError"
    if isinstance(e, AssertionError):
        return "assertion"
    if isinstance(e, TypeError):
        return "layout"
    if isinstance(e, SystemExit):
        return "exit"
    return type(e).__name__


def impl_constraints(fn, layout):
    """the real Convert(file, mode).get_constraints(): {"ok": {eq, wc, st}} | {"err": class}"""
    import core
    from peppercompiler.design.constraint_load import Convert
    try:
        with core.quiet():
            eq, wc, st = Convert(fn, layout == "struct").get_constraints()
    except BaseException as e:
        if isinstance(e, KeyboardInterrupt):
            raise
        return {"err": classify_exc(e)}
    return {"ok": {"eq": list(eq), "wc": list(wc), "st": list(st)}}


def impl_statements(fn):
    """what the real reader made of the file, as statements (kinetic lines leave no trace)"""
    import core
    from peppercompiler.design.PIL_parser import load_spec
    with core.quiet():
        spec = load_spec(fn)
    out = []

    def nm(o):
        return o.name
    for name, o in spec.seqs.items():
        if name in spec.base_seqs:
            out.append(("seq", name, o.template))
        else:
            out.append(("sup", name, tuple(nm(x) for x in o.seqs)))
    strands = [("strand", n, bool(o.dummy), tuple(nm(x) for x in o.seqs)) for n, o in spec.strands.items()]
    structs = [("struct", n, o.params, tuple(nm(x) for x in o.strands), o.struct) for n, o in spec.structs.items()]
    equals = [("equal", tuple(nm(x) for x in e)) for e in spec.equals]
    return {"seqs": out, "strands": strands, "structs": structs, "equals": equals}


def expected_statements(stmts):
    c = canon_stmts(stmts)
    return {"seqs": [x for x in c if x[0] in ("seq", "sup")], "strands": [x for x in c if x[0] == "strand"],
            "structs": [x for x in c if x[0] == "struct"], "equals": [x for x in c if x[0] == "equal"]}


def model_norm(r):
    """model response -> the same shape as impl_constraints"""
    if "err" in r:
        e = r["err"]
        return {"err": "load" if e.startswith("load") else e}
    if isinstance(r.get("ok"), dict) and "eq" in r["ok"]:
        return {"ok": {"eq": r["ok"]["eq"], "wc": r["ok"]["wc"], "st": r["ok"]["st"]}}
    return r


def call_parallel(reqs, nproc=8):
    """the driver on many requests, several processes; requests are dealt out by decreasing size so that every
    process gets its share of the big documents"""
    import core
    from concurrent.futures import ThreadPoolExecutor
    if not reqs:
        return []
    order = sorted(range(len(reqs)), key=lambda i: -len(str(reqs[i])))
    nb = nproc * 6
    buckets = [order[k::nb] for k in range(nb)]
    buckets = [b for b in buckets if b]
    out = [None] * len(reqs)

    def work(idx):
        return idx, core.Driver().call_many([reqs[i] for i in idx])
    with ThreadPoolExecutor(max_workers=nproc) as ex:
        for idx, res in ex.map(work, buckets):
            for i, r in zip(idx, res):
                out[i] = r
    return out


# ------------------------------------------------------------------------------------------------ spuriousSSM input files

C_TEMPLATE_CHARS = "ATCGatcgRYWSMKBDHVNrywsmkbdhvn "
CCOMP = {"A": "T", "T": "A", "C": "G", "G": "C", "R": "Y", "Y": "R", "W": "W", "S": "S", "M": "K", "K": "M",
         "B": "V", "V": "B", "D": "H", "H": "D", "N": "N"}   # complement of a code = code of the complemented set


def read_c_files(st_text, eq_text, wc_text):
    """Independent reader of the three input files the way the documented C program loads them (template: accepted
    characters only, trailing blanks stripped; eq: numbers, trailing zeros stripped; wc: numbers, trailing -1 beyond
    the other arrays dropped).  Returns (st, eq, wc, problems)."""
    problems = []
    st = [c for c in st_text if c in C_TEMPLATE_CHARS]
    while st and st[-1] == " ":
        st.pop()

    def nums(t):
        out = []
        for tok in t.split():
            if not re.fullmatch(r"[+-]?\d+", tok):
                break
            out.append(int(tok))
        return out
    wc = nums(wc_text)
    eq = nums(eq_text)
    if any(v == 0 or v < -1 for v in wc):
        problems.append("wc-value")
    while eq and eq[-1] == 0:
        eq.pop()
    if any(v < 0 for v in eq):
        problems.append("eq-value")
    m = max(len(eq), len(st))
    while len(wc) > m and m > 0:
        if wc[-1] == -1:
            wc.pop()
        else:
            problems.append("wc-longer")
            break
    n = max(m, len(wc))
    if n == 0:
        problems.append("zero-length")
    if not (len(st) == len(eq) == len(wc) == n):
        problems.append("lengths")
    return st, eq, wc, problems


def check_contract(st, eq, wc, segs):
    """the documented input contract, clause by clause; returns the list of violated clauses"""
    bad = []
    n = len(st)
    if not (len(eq) == n and len(wc) == n) or n == 0:
        return ["lengths"]

    def add(c):
        if c not in bad:
            bad.append(c)
    for i in range(n):
        blank = st[i] == " "
        if blank != (eq[i] == 0):
            add("blank-eq")
        if blank and wc[i] != -1:
            add("blank-wc")
        if not blank and st[i] not in CODES:
            add("template-letter")
        if eq[i] < 0 or eq[i] > n:
            add("eq-range"); continue
        if wc[i] == 0 or wc[i] < -1 or wc[i] > n:
            add("wc-range"); continue
        if eq[i] != 0:
            r = eq[i] - 1
            if eq[r] != eq[i]:
                add("eq-idempotent")
            if r > i:
                add("eq-lowest")
            if st[r] != st[i]:
                add("eq-template")
            if wc[r] != wc[i]:
                add("wc-constant-on-class")
        if wc[i] != -1:
            w = wc[i] - 1
            if eq[i] == 0:
                add("blank-wc"); continue
            if wc[w] != eq[i]:
                add("wc-of-wc")
            if eq[w] != wc[i]:
                add("wc-representative")
            if wc[i] == eq[i]:
                add("own-partner")
            if st[w] == " " or st[i] == " " or CCOMP.get(st[w]) != st[i]:
                add("wc-template")
    # separators against the expected strands: >= 1 blank between strands, >= 2 between complexes
    runs = []
    i = 0
    while i < n:
        if st[i] == " ":
            i += 1
            continue
        j = i
        while j < n and st[j] != " ":
            j += 1
        runs.append((i, j - i))
        i = j
    want = []
    for c in segs:
        c = [l for l in c if l]
        for k, l in enumerate(c):
            want.append((2 if k == 0 else 1, l))
    if [l for _, l in want] != [l for _, l in runs]:
        add("strand-lengths")
    else:
        for k in range(1, len(runs)):
            gap = runs[k][0] - (runs[k - 1][0] + runs[k - 1][1])
            if gap < want[k][0]:
                add("separators")
    return bad


def ssm_binary():
    """the spuriousSSM binary built from $PEPPER_REPO (cached by source hash under /verif/build)"""
    import core, hashlib, os, subprocess
    try:
        import ssm  # another area's helper, when present
        if hasattr(ssm, "binary"):
            return ssm.binary()
    except Exception:
        pass
    src = os.path.join(core.REPO, "peppercompiler", "SpuriousDesign", "spuriousSSM.c")
    with open(src, "rb") as f:
        h = hashlib.sha1(f.read()).hexdigest()[:12]
    exe = os.path.join(core.BUILD, "spuriousSSM_%s" % h)
    if not os.path.exists(exe):
        tmp = exe + ".tmp%d" % os.getpid()
        p = subprocess.run(["gcc", "-O2", "-w", "-o", tmp, src, "-lm"], capture_output=True, text=True)
        if p.returncode != 0:
            raise RuntimeError("cannot build spuriousSSM: " + p.stderr[-500:])
        os.replace(tmp, exe)
    return exe


def run_ssm(exe, st, wc, eq, timeout=120):
    import subprocess, os
    env = dict(os.environ)
    p = subprocess.run([exe, "template=" + st, "wc=" + wc, "eq=" + eq, "imax=1", "quiet=TRUE"], capture_output=True,
                       text=True, timeout=timeout, env=env)
    return p.returncode, p.stdout, p.stderr


def sizes_for(tier, rng):
    """document size bounds: mostly small, a tail up to the tier's limit"""
    r = rng.random()
    if tier == "quick":
        if r < 0.7:
            return {"strands": 4, "nt": 24, "doms": 5}
        if r < 0.95:
            return {"strands": 8, "nt": 40, "doms": 8}
        return {"strands": 12, "nt": 60, "doms": 10}
    if r < 0.6:
        return {"strands": 4, "nt": 24, "doms": 5}
    if r < 0.9:
        return {"strands": 8, "nt": 40, "doms": 8}
    if r < 0.99:
        return {"strands": 14, "nt": 70, "doms": 12}
    if r < 0.999:
        return {"strands": 25, "nt": 120, "doms": 20}
    return {"strands": 40, "nt": 200, "doms": 30}


def gen_chain(rng, hops, kind):
    """A chain x0 - x1 - ... - x<hops> of domains linked hop by hop (an `equal` line, an `equal` with a star, or a
    duplex structure), an exact base at one position of x0 and, at the position of x<hops> linked to it, a code that
    excludes the forced base (kind "conflict"), leaves exactly one more (kind "near") or is N (kind "free").
    The conflict therefore travels over a path of exactly `hops` links."""
    m = rng.randint(1, 4)
    names = ["x%d" % i for i in range(hops + 1)]
    k0 = rng.randrange(m)
    b = rng.choice(BASES)
    pos, par = k0, 0
    body = []
    for i in range(hops):
        how = rng.choice(["equal", "star", "pair"])
        if how == "equal":
            body.append({"k": "equal", "items": rng.choice([[names[i], names[i + 1]], [names[i + 1], names[i]]])})
        elif how == "star":
            body.append({"k": "equal", "items": rng.choice([[names[i], names[i + 1] + "*"], [names[i] + "*", names[i + 1]]])})
            pos, par = m - 1 - pos, par ^ 1
        else:
            sa, sb = "P%da" % i, "P%db" % i
            body.append({"k": "strand", "name": sa, "dummy": False, "items": [names[i]]})
            body.append({"k": "strand", "name": sb, "dummy": False, "items": [names[i + 1]]})
            body.append({"k": "struct", "name": "D%d" % i, "params": rng.choice([None, "1nt"]), "strands": [sa, sb],
                         "struct": "(" * m + "+" + ")" * m})
            pos, par = m - 1 - pos, par ^ 1
    forced = BCOMP[b] if par else b
    t0 = ["N"] * m
    t0[k0] = b
    tl = ["N"] * m
    if kind == "conflict":
        tl[pos] = _code_without(rng, forced)
    elif kind == "near":
        tl[pos] = rng.choice([c for c, s in CODES.items() if forced in s and len(s) == 2])
    stmts = [{"k": "seq", "name": n, "tmpl": "N" * m} for n in names]
    stmts[0]["tmpl"] = "".join(t0)
    if hops == 0:
        return stmts, {"bias": "chain", "tricks": [], "path": 0}
    last = list(stmts[hops]["tmpl"])
    last[pos] = tl[pos]
    stmts[hops]["tmpl"] = "".join(last)
    used = {n for s in body if s["k"] == "strand" for n in s["items"]}
    rest = [n for n in names if n not in used]
    if rest:
        body.append({"k": "strand", "name": "R", "dummy": False, "items": rest})
        body.append({"k": "struct", "name": "RS", "params": None, "strands": ["R"], "struct": "." * (m * len(rest))})
    return stmts + body, {"bias": "chain", "tricks": ["chain-" + kind], "path": hops, "strands": 0, "nt": 0}
