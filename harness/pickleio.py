"""Ties the Lean model of `pickle` (lean/PepperModel/Pickle.lean; driver ops `pickle-run`, `pickle-canon`, `pickle-dump`,
`pickle-roundtrip`) to the REAL pickle of the running CPython, for the object graphs `compiler.save` writes.

    ops_of(data)            the opcode list of real pickle bytes (`pickletools.genops`) in the driver's wire format:
                            short / long spellings of one opcode merged, ints as decimal strings, floats as the 8 raw
                            bytes (hex), str as is
    walk(obj)               id()-based walk of a live Python object graph into a heap in the model's cell vocabulary:
                            exactly what the pickler sees — None / bool / int / float by value, str / bytes / tuple /
                            list / dict / set / frozenset by identity, classes and functions as `global` cells holding
                            the module-name and qualified-name STRING OBJECTS (the pickler memoises those by identity),
                            everything else through `obj.__reduce_ex__(4)` (`copyreg.__newobj__` → NEWOBJ form, any other
                            callable → REDUCE form; list items, dict items in iteration order; state).  Returns
                            (heap, root, info) — info: classes with `__setstate__`, counts
    stats(heap, root)       instances, shared references, cycles (strongly connected components) of a heap
    python pickleio.py <file.save>   (fresh process) prints {"heap":…, "root":…, "info":…} of `compiler.load(file)`

Nothing here canonises: canonical forms are computed by the Lean `canon` (driver), also for the heaps walked here.
"""
import json
import pickletools
import struct
import sys
import types

# opcode name -> model constructor (spellings merged)
_SIMPLE = {
    "FRAME": "frame", "STOP": "stop", "NONE": "none", "NEWTRUE": "newtrue", "NEWFALSE": "newfalse", "MEMOIZE": "memoize",
    "EMPTY_DICT": "emptyDict", "EMPTY_LIST": "emptyList", "EMPTY_TUPLE": "emptyTuple", "EMPTY_SET": "emptySet",
    "MARK": "mark", "SETITEM": "setitem", "SETITEMS": "setitems", "APPEND": "append", "APPENDS": "appends",
    "ADDITEMS": "additems", "FROZENSET": "frozenset", "TUPLE": "tuple", "TUPLE1": "tuple1", "TUPLE2": "tuple2",
    "TUPLE3": "tuple3", "STACK_GLOBAL": "stackGlobal", "NEWOBJ": "newobj", "NEWOBJ_EX": "newobjEx", "REDUCE": "reduce",
    "BUILD": "build", "POP": "pop", "POP_MARK": "popMark", "DUP": "dup",
}
_STR = {"SHORT_BINUNICODE", "BINUNICODE", "BINUNICODE8"}
_INT = {"BININT", "BININT1", "BININT2", "LONG1", "LONG4"}
_BYTES = {"SHORT_BINBYTES", "BINBYTES", "BINBYTES8"}
_GET = {"BINGET", "LONG_BINGET"}
_PUT = {"BINPUT", "LONG_BINPUT"}


class Unmodelled(Exception):
    pass


def float_hex(x):
    return struct.pack(">d", x).hex()


def ops_of(data, census=None):
    out = []
    for op, arg, _pos in pickletools.genops(data):
        n = op.name
        if census is not None:
            census[n] = census.get(n, 0) + 1
        if n in _SIMPLE:
            out.append([_SIMPLE[n]])
        elif n in _STR:
            out.append(["str", arg])
        elif n in _INT:
            out.append(["int", str(int(arg))])
        elif n in _GET:
            out.append(["get", arg])
        elif n in _PUT:
            out.append(["put", arg])
        elif n == "BINFLOAT":
            out.append(["float", float_hex(arg)])
        elif n in _BYTES:
            out.append(["bytes", bytes(arg).hex()])
        elif n == "PROTO":
            out.append(["proto", arg])
        elif n == "GLOBAL":
            m, q = arg.split(" ", 1)
            out.append(["global", m, q])
        else:
            raise Unmodelled("opcode " + n)
    return out


def strip_framing(ops):
    """the opcode sequence without PROTO / FRAME (framing belongs to the byte stream)"""
    return [o for o in ops if o[0] not in ("proto", "frame")]


_BUILTIN_BASES = (list, tuple, set, frozenset, int, float, str, bytes, bytearray, BaseException)


def attr_view(o):
    """(via_new, head, rest, state, listitems, dictitems-flat) of an instance read off its ATTRIBUTES — type, `__dict__`, and
    for dict subclasses the items — ignoring any `__reduce__` / `__reduce_ex__` / `__getstate__` the class defines.
    For classes that define none of these it is exactly what the pickler sees.  None: no such view (C types, subclasses of
    other builtins): the pickler's view is used."""
    t = type(o)
    if not (t.__flags__ & (1 << 9)) or isinstance(o, _BUILTIN_BASES) or not hasattr(o, "__dict__"):   # Py_TPFLAGS_HEAPTYPE
        return None
    d = o.__dict__
    state = d if d else None
    if isinstance(o, dict):
        flat = []
        for k, v in dict.items(o):
            flat += [k, v]
        return (False, t, (), state, [], flat)
    return (True, t, (), state, [], [])


def walk(root, view="pickler"):
    """heap of the graph below `root`: view "pickler" = as the pickler traverses it (`__reduce_ex__(4)`); view "attrs" =
    instances by `attr_view` where it exists.  info["custom_reduce"] lists the classes on which the two views differ."""
    import copyreg
    heap = []          # cells [tag, kids]
    ids = {}           # id(obj) -> ref
    keep = []          # every object whose id() was taken stays alive until the walk is over
    info = {"setstate": [], "classes": {}, "dict_key_kinds": {}, "custom_reduce": []}
    todo = []          # (cell index, list of child objects) to fill in

    def new(tag, kids=None):
        heap.append([tag, kids if kids is not None else []])
        return len(heap) - 1

    def ref_of(o):
        """reference for object o, allocating (and scheduling the children of) a new cell at the first visit"""
        t = type(o)
        if o is None:
            return new(["none"])
        if t is bool:
            return new(["bool", o])
        if t is int:
            return new(["int", str(o)])
        if t is float:
            return new(["float", float_hex(o)])
        if t is tuple and len(o) == 0:
            return new(["tuple"])
        r = ids.get(id(o))
        if r is not None:
            return r
        keep.append(o)
        if t is str:
            r = new(["str", o])
        elif t is bytes:
            r = new(["bytes", o.hex()])
        elif t is tuple:
            r = new(["tuple"]); todo.append((r, list(o)))
        elif t is list:
            r = new(["list"]); todo.append((r, list(o)))
        elif t is dict:
            r = new(["dict"])
            flat = []
            for k, v in o.items():
                flat += [k, v]
                kk = type(k).__name__
                info["dict_key_kinds"][kk] = info["dict_key_kinds"].get(kk, 0) + 1
            todo.append((r, flat))
        elif t is set:
            r = new(["set"]); todo.append((r, list(o)))
        elif t is frozenset:
            r = new(["frozenset"]); todo.append((r, list(o)))
        elif isinstance(o, type) or t is types.FunctionType or t is types.BuiltinFunctionType:
            # save_global: whichmodule() = getattr(obj, "__module__"), then getattr(obj, "__qualname__") — two str objects
            m = getattr(o, "__module__", None)
            q = getattr(o, "__qualname__", None)
            if not isinstance(m, str) or not isinstance(q, str):
                raise Unmodelled("global without module / qualname: %r" % (o,))
            r = new(["global"]); todo.append((r, [m, q]))
        else:
            if t in copyreg.dispatch_table:
                raise Unmodelled("copyreg.dispatch_table entry for %s" % t.__name__)
            rv = o.__reduce_ex__(4)
            keep.append(rv)
            if not isinstance(rv, tuple) or not (2 <= len(rv) <= 6):
                raise Unmodelled("reduce value of %s: %r" % (t.__name__, type(rv)))
            rv = list(rv) + [None] * (6 - len(rv))
            func, args, state, listitems, dictitems, setter = rv
            if setter is not None:
                raise Unmodelled("state_setter")
            cname = "%s.%s" % (t.__module__, t.__qualname__)
            info["classes"][cname] = info["classes"].get(cname, 0) + 1
            if hasattr(t, "__setstate__") and [t.__module__, t.__qualname__] not in info["setstate"]:
                info["setstate"].append([t.__module__, t.__qualname__])
            if getattr(func, "__name__", "") == "__newobj_ex__":
                raise Unmodelled("__newobj_ex__")
            via_new = getattr(func, "__name__", "") == "__newobj__"
            if via_new:
                head = args[0]
                rest = args[1:]
                keep.append(rest)
            else:
                head, rest = func, args
            items = list(listitems) if listitems is not None else []
            flat = []
            if dictitems is not None:
                for k, v in dictitems:
                    flat += [k, v]
            av = attr_view(o)
            if av is not None:
                same = (av[0] == via_new and av[1] is head and len(rest) == 0 and av[3] is state and not items and
                        len(av[5]) == len(flat) and all(x is y for x, y in zip(av[5], flat)))
                if not same:
                    if cname not in info["custom_reduce"]:
                        info["custom_reduce"].append(cname)
                    if view == "attrs":
                        via_new, head, rest, state, items, flat = av
                        keep.append(av)
            keep.append(items); keep.append(flat)
            r = new(["obj", via_new, state is not None, len(items)])
            todo.append((r, [head, rest] + ([state] if state is not None else []) + items + flat))
        ids[id(o)] = r
        return r

    root_ref = ref_of(root)
    while todo:
        r, children = todo.pop()
        heap[r][1] = [ref_of(c) for c in children]
    return heap, root_ref, info


def modulo_short_strings(canon):
    """A canonical form (driver JSON) with every string of at most one character inlined by value, the remaining cells
    renumbered in the same order.  CPython keeps ONE object per 1-character (latin-1) string and for "": the unpickler
    always hands out those singletons, while a live graph may hold other objects with the same text (`"".join(("", "A"))`
    makes one).  Identity of such strings is therefore NOT preserved by a real pickle round trip (and means nothing:
    strings are immutable); graphs are compared modulo it.  Pure projection: equal canonical forms stay equal."""
    if not isinstance(canon, dict):
        return canon
    cells = canon["cells"]
    short = [c[0][0] == "str" and len(c[0][1]) <= 1 for c in cells]
    new_index, n = [], 0
    for sh in short:
        new_index.append(n)
        if not sh:
            n += 1

    def ref(k):
        if isinstance(k, int):
            return ["str", cells[k][0][1]] if short[k] else new_index[k]
        return k
    return {"root": ref(canon["root"]), "cells": [[c[0], [ref(k) for k in c[1]]] for c, sh in zip(cells, short) if not sh]}


def is_atom(cell):
    t = cell[0][0]
    return t in ("none", "bool", "int", "float") or (t == "tuple" and not cell[1])


def stats(heap, root):
    """counts over the part reachable from root (evidence only; no part of any comparison)"""
    seen = set()
    stack = [root]
    indeg = {}
    while stack:
        x = stack.pop()
        if is_atom(heap[x]):
            continue
        indeg[x] = indeg.get(x, 0) + 1
        if x in seen:
            continue
        seen.add(x)
        stack.extend(heap[x][1])
    # strongly connected components (iterative Tarjan) among the reachable non-atomic cells
    index, low, onstack, st, comps = {}, {}, set(), [], []
    counter = [0]
    for s in seen:
        if s in index:
            continue
        work = [(s, iter([k for k in heap[s][1] if k in seen]))]
        index[s] = low[s] = counter[0]; counter[0] += 1; st.append(s); onstack.add(s)
        while work:
            v, it = work[-1]
            adv = False
            for w in it:
                if w not in index:
                    index[w] = low[w] = counter[0]; counter[0] += 1; st.append(w); onstack.add(w)
                    work.append((w, iter([k for k in heap[w][1] if k in seen])))
                    adv = True
                    break
                elif w in onstack:
                    low[v] = min(low[v], index[w])
            if adv:
                continue
            work.pop()
            if work:
                low[work[-1][0]] = min(low[work[-1][0]], low[v])
            if low[v] == index[v]:
                comp = []
                while True:
                    w = st.pop(); onstack.discard(w); comp.append(w)
                    if w == v:
                        break
                comps.append(comp)
    cyc = [c for c in comps if len(c) > 1 or c[0] in heap[c[0]][1]]
    return {"cells": len(seen), "instances": sum(1 for x in seen if heap[x][0][0] == "obj"),
            "strings": sum(1 for x in seen if heap[x][0][0] == "str"),
            "shared": sum(1 for x in seen if indeg[x] > 1), "shared_strings": sum(1 for x in seen if indeg[x] > 1 and heap[x][0][0] == "str"),
            "cyclic_components": len(cyc), "cells_on_cycles": sum(len(c) for c in cyc)}


# ------------------------------------------------------------------------------------------ directed objects

class _P(object):
    """plain instance: copyreg.__newobj__ + __dict__"""


class _L(list):
    """list subclass: reduce value with list items (iterator batching) and state"""


class _D(dict):
    """dict subclass: reduce value with dict items (iterator batching)"""


def directed_objects(big=True):
    """[(name, object, compare_with_reloaded, also_protocol_2)] — see props/c16.py PickleTie.directed"""
    import collections
    out = []

    def add(name, obj, reload_too=True, proto2=False):
        out.append((name, obj, reload_too, proto2))
    for z in (0, 1, -1, 255, 256, 65535, 65536, 2 ** 31 - 1, -2 ** 31, 2 ** 31, 2 ** 64, -2 ** 70, 10 ** 40):
        add("int %d" % z, [z], proto2=True)
    add("atoms", [None, True, False, 1.5, -0.0, float("inf"), float("nan"), 1e-320, 5], proto2=True)
    add("root atom", 7)
    add("root none", None)
    add("root empty tuple", ())
    s = "".join(["sha", "red"])
    s2 = "".join(["sha", "red"])
    assert s is not s2
    add("strings", ["", "a", "\u00e9\u2713", "x" * 300, s, s, s2, [s2, s]], proto2=True)
    b = bytes([1, 2, 3])
    add("bytes", [b"", b, b, bytes(300)])
    t1 = (s,)
    add("tuples", [(), (1,), (1, 2), (1, 2, 3), (1, 2, 3, 4), t1, t1, (t1, t1), ((), ())], proto2=True)
    l = []
    t = (l,)
    l.append(t)
    add("recursive tuple (1)", t, proto2=True)
    l4 = []
    t4 = (1, 2, l4, 3)
    l4.append(t4); l4.append(t4)
    add("recursive tuple (4)", t4, proto2=True)
    add("recursive tuple inside", [l4, t4, l])
    cyc = []
    cyc.append(cyc)
    add("self-containing list", cyc, proto2=True)
    dcyc = {}
    dcyc["self"] = dcyc; dcyc["other"] = cyc
    add("self-containing dict", dcyc, proto2=True)
    sizes = (0, 1, 2, 999, 1000, 1001, 2000, 2001) if big else (0, 1, 2)
    for n in sizes:
        add("list of %d" % n, list(range(n)), proto2=(n in (0, 1, 2, 1001)))
        add("dict of %d" % n, {i: str(i) for i in range(n)}, proto2=(n in (0, 1, 2, 1000)))
        add("set of %d" % n, set(range(n)), reload_too=False)
        add("frozenset of %d" % n, frozenset(range(n)), reload_too=False)
        add("list subclass of %d" % n, _L(range(n)))
        add("dict subclass of %d" % n, _D((i, i) for i in range(n)))
        add("OrderedDict of %d" % n, collections.OrderedDict((str(i), i) for i in range(n)))
    fs = frozenset([s])
    add("shared frozenset / set", [fs, fs, {s}, {1, 2, 3}], reload_too=False)
    a, bb = _P(), _P()
    a.wc, bb.wc = bb, a
    a.name = bb.name = s
    a.const = s2
    add("two-cycle of instances with a shared string", a)
    add("two-cycle reached twice", [a, bb, a.__dict__ is None, (a, bb)])
    e = _P()
    add("instance without attributes", [e, e])
    k = _P(); k.x = 1
    add("instance as dict key", {k: "v", "k": k})
    ll = _L([a, a, e]); ll.tag = s; ll.me = ll
    add("list subclass with state and a cycle through it", ll)
    dd = _D(); dd["a"] = dd; dd[1] = [dd]
    dd.note = None
    add("dict subclass containing itself", dd)
    od = collections.OrderedDict(); od["k"] = od
    add("OrderedDict containing itself", od)
    add("globals as values", [list, dict, _P, len, collections.OrderedDict, _P, list])
    add("dict with int and bool-like keys", {1: "a", 0: "b", "1": "c", None: "d", b"1": "e"})
    return out


if __name__ == "__main__":
    import os
    sys.path.insert(0, os.environ.get("PEPPER_REPO", "/repo"))
    import warnings
    warnings.filterwarnings("ignore")
    from peppercompiler import compiler
    obj = compiler.load(sys.argv[1])
    out = {}
    if "--snapshot" in sys.argv:
        import snapshot
        try:
            out["snapshot"] = snapshot.snap(obj)
        except Exception as e:  # noqa — reported by the caller as "cannot be reloaded"; the graph is still walked
            import traceback
            out["snapshot_error"] = traceback.format_exc()[-500:]
    heap, root, info = walk(obj)
    out.update({"heap": heap, "root": root, "info": info})
    if info["custom_reduce"] or "--attrs" in sys.argv:
        h2, r2, _ = walk(obj, view="attrs")
        out["attrs"] = {"heap": h2, "root": r2}
    print(json.dumps(out))
