"""Writes /verif/MANIFEST.json from the table below (kept in one place so it stays valid)."""
import json, os
VERIF = os.path.dirname(os.path.dirname(os.path.abspath(__file__)))

CHECKS = {
 "C11": dict(
   text="Proof: the nucleotide tables are re-extracted from the working tree on every run (by executing the real Python modules and the real C functions over their finite domain) into Generated/Tables.lean; PepperProps/C11.lean proves by `decide` over those extracted tables that complement denotes the complement set and is an involution, that non-empty intersections are closed and accepted by the readers, and that the three Python copies and the C copy agree; wc(wc s)=s for all strings is proved by induction for every lawful table. The finite quantifier really is the table, so this is the full-strength statement.",
   note="Trusts the translator extract_tables.py (imports the live modules, compiles spuriousSSM.c with main renamed and calls WC/randbasec on all 255 chars; randbasec choice sets are the support of 4096 draws); Lean kernel; axioms propext/Classical.choice/Quot.sound only.",
   technique="Lean 4 theorems (decide over tables regenerated from source + induction), translator tie",
   design="5.11"),
 "C07": dict(
   text="Proof: PepperProps/C07.lean proves, for every finite link graph satisfying the documented precondition (same keys, symmetric, key-closed), that the model of propagate_constraints (same round structure as the Python, fuelled loop with fuel proved sufficient) returns for every item exactly the items at even parity distance as equals and at odd parity distance as complements (propagate_exact), creates no junk entries (propagate_keys), never fires its asserts, and is independent of key and adjacency order (order_independent). The model is tied to design/constraints.py by running both on the same random and exhaustively enumerated small graphs; the failing-input oracle is an independent BFS over (item, parity).",
   note="Model hand-written; correspondence sampled (random graphs up to 400 items, all symmetric graphs on <=3 items in thorough). Python set iteration order is modelled as list order and proved irrelevant. Asymmetric inputs (outside the documented precondition) are not covered.",
   technique="Lean 4 theorem by loop invariant + counting argument; differential correspondence model vs implementation",
   design="5.7"),
 "C08": dict(
   text="Proof: PepperProps/C08.lean proves over the model of the notation converters (tokenizer + recursive-descent parsers mirroring the pyparsing grammars) that the dot-paren parser accepts exactly the balanced strings and inverts flattening, that expanding the HU form computed by dotParen2HU returns the original structure for every balanced multi-strand structure, that HU expansion is always balanced, that plain / run-length / HU token streams of one structure compile to the identical string, that unbalanced descriptions are rejected, and that an accepted domain-level expansion is balanced with one correctly sized segment per strand. Tied to the code by differential runs of parse_structure_statement, HU2dotParen, extended2dotParen, dotParen2HU and Component.add_structure.",
   note="Theorems are at token/AST level (plus tokenizer lemma for canonical spacing); arbitrary spacing, zero counts and U0/H0 spellings are covered by the correspondence and by the oracle on the real code (each spelling of a generated tree must compile to the tree's string; exhaustive strings over .()+ up to length 7/9).",
   technique="Lean 4 theorems (structural induction on structure trees) + differential correspondence",
   design="5.8"),
 "C12": dict(
   text="Proof: PepperProps/C12.lean proves, for every lawful code table and every component state satisfying the executable invariant wfB (names distinct, every item reference resolves to an entry of the recorded length and kind, base_seqs of a composite is the concatenation of its items' views, references point backwards, constraint strings are codes of the recorded length), that the model of fix_seq through sequences, starred views, super-sequences (fix_exact), strands (fix_strand) and structures (fix_struct_exact/_count/_length) is exactly the specification specFix: length check, then one intersection per letter at the position read off base_seqs, complemented for starred orientation; that a successful fix changes only constraint strings and only at the listed positions and keeps the invariant (fix_frame); that the new base set at every nucleotide is the old set intersected with all letters landing on it (fix_narrows, via intersect_ok/complOf_mask); that a wrong length is the error length and an empty intersection the error empty and nothing else is (fix_length_error_iff, fix_empty_error_iff, narrow_fails_iff_disjoint); that fixing x* to s is fixing x to the reverse complement (fix_star_is_reverse_complement); that two fixes commute and any permutation of a list of fixes has the same outcome (fix_order_independent, fix_order_independent_all); that fix_signal fixes every bound port to the string or its reverse complement according to the parity flag and recurses with the (reverse-complemented) string into nested systems, keeping the whole tree well-formed (fix_port, parity_composes, fixSignal_spec); and that names that do not exist leave the state unchanged (unknown_name_comp/_sys, unknown_signal). Tied to the code by compiling generated programs with the real compiler with and without generated --fixed files.",
   note="wfB is not proved to follow from Comp.load; the driver op fix-spec evaluates it on every generated program of every run (a failure is a broken obligation) and also applies the fixed lines through the specification path, compared with code path and real output. Strings are assumed to consist of codes (parse_fixed admits ATCGNS+). Known gap of the existing model Fix.lean/Compile.lean (not exercised): a `+` inside a sequence/strand/structure string raises KeyError in Python, which compiler.py catches as if the name were unknown (warning, possibly after partially fixing a super-sequence); the model reports fix-error. The oracle is an independent Python bookkeeping of nucleotide positions from the source AST (anonymous regions named by walking the unfixed output).",
   technique="Lean 4 theorems (commuting-narrowing algebra over lawful tables, permutation invariance of folds, induction over reference depth with preserved invariant) + differential runs real compiler / model code path / model specification path + independent semantic oracle",
   design="5.12"),
 "C20": dict(
   text="Proof (PARTIAL): PepperProps/C20.lean proves over the model PepperModel/Fs.lean (file-name logic of compiler.main, spurious_design.main/design + find_file, finish.main/finish: defaulting, suffix stripping, scratch names) that two runs whose --output/--save/--seqs/--strands names and temp names are pairwise distinct and which pass a decidable cross-collision check have disjoint write sets and do not read or probe each other's writes (footprints_disjoint; scratch files of different temp names can never coincide, by injectivity of string append), and that in an abstract file system ANY list of N processes (interaction trees: the next operation may depend on everything read so far) that stay inside pairwise independent footprints end, under EVERY complete interleaving, in the same files as when run one after another in any order, each process reading the same values (commute, commute_schedules, sequential_order_irrelevant, noninterference). PARTIAL: that the real processes touch nothing outside the modelled footprint is an OS-level fact, observed rather than proved: every tool variant is run under strace -f (open-for-write/creat/unlink/rename/mkdir/... and stat family) and with directory snapshots, and the written / read / probed paths must equal the model's footprint and the set the property allows; then schedules of 2..8 real concurrent processes released from a post-import barrier with random delays are compared byte for byte (time-stamp line masked) with the same commands run sequentially.",
   note="Design runs use --just-files (NUPACK / spuriousSSM absent); the finish input .mfe is built in-process. Sources read by a compile are an opaque parameter of the model (harness checks they are .sys/.comp/--fixed files only). File contents are opaque. Interference through anything other than the directory (e.g. machine load, environment) is out of scope. 30 / 300 schedules over 3+1 / 6+4 systems.",
   technique="Lean 4 theorems (string-append injectivity; frame lemma + interleaving invariant by induction on the schedule) + strace/snapshot footprint oracle + real concurrent vs sequential differential runs",
   design="5.20"),
 "C19": dict(
   text="Proof (PARTIAL): PepperProps/C19.lean proves over the executable model of spuriousSSM.c's constraint handling and search loop (PepperModel/Ssm.lean: constrain, constrain_single_fast, mutate, test_consistency, freeloc, default bmax, main loop; random draws and the score comparison are inputs) that for every triple satisfying the documented contract (contractB), every admissible start sequence, every stopping option, every stream of legal random choices and every sequence of comparison outcomes the program passes both of its self-checks and prints a sequence of the input length whose blanks are the template's, whose bases lie in the template sets and which obeys every eq and wc entry (constrain_good, mutate_preserves_good = DESIGN appendix C transported to the list model, loop_preserves_good, final_check_passes, program_output_good); that without bmax/imax the loop starts with bmax = bmult*nq+1 >= 1 (default_bmax_pos); that with imax=0, bmax>0 at most bmax*(k+1) iterations run, k the number of strict improvements (iteration_count); and, at full strength, that for ANY score function of the sequence into ANY strictly ordered set the loop exits after at most bmax*5^N iterations whatever random stream is supplied (terminates, loop_exits, terminates_default). PARTIAL because memory safety / undefined behaviour of the C text and the ~600 lines of floating-point scoring code are not statements about the model: they are covered by running the real binary built with -fsanitize=address,undefined (all thorough runs, a third of the quick runs) and by taking the score comparison as an input; tmax (wall clock) is not modelled.",
   note="Tied to the code by the verification trace of the real binary (seeded RNG; per iteration the mutated index, new base, comparison result, sequence and bored): ssm-replay must reproduce the constrained start, every intermediate sequence, bored, the stopping step and the final line; ssm-params must agree on Nfree and bmax; ssm-check must accept every generated triple. Oracle on the real binary: exit 0, no ERROR, no sanitizer report, exactly one Good output line (independent IUPAC tables), exit within a wall-clock cap for runs without imax/tmax (a timeout is a violation C19:no-termination). WC/randbasec/degenerates/Python code sets come from the tables regenerated on every run (decide). Trusts: the hook in spuriousSSM.c prints what the program really did; the loader (load_input_files) is exercised but not modelled here (C05).",
   technique="Lean 4 theorems (loop invariants for constrain and the search loop, case analysis on class / partner class / rest, counting + pigeonhole for termination) + trace-replay correspondence + sanitizer runs of the real binary",
   design="5.19"),
 "C01": dict(
   text="Proof: PepperProps/C01.lean states, for every component AST the model accepts, that loading the emitted PIL statements (Emit.compStmts) as a specification succeeds and denotes (Pil.denote) the design that Denote.denoteComp assigns to the source directly and compositionally (same domains, sequences, strands nucleotide by nucleotide with orientation, structures, optimisation flags), up to a renaming of anonymous domains. The model (Comp.lean: object tables, clean_const, SuperSequence construction with deferred wildcard insertion, emission) is tied to the compiler by compiling generated programs with both and comparing emitted lines, emitted statement lists and the anonymous counter; violations are decided by the denotational oracle canon(denote(impl .pil)) = canon(denote(source)) evaluated by the Lean spec functions on the implementation's output.",
   note="Theorems are about ASTs: the statement-level regexes of component_parser_regex are on the implementation side of the correspondence (programs are rendered from ASTs with free spacing and comments). Quoted regions and structure notations are parsed by the model itself. See PepperProps/C01.lean for which part of the refinement is proved at full strength and which is `_partial`.",
   technique="Lean 4 refinement theorem (elaboration invariant) + differential correspondence + denotational oracle in Lean",
   design="5.1"),
 "C02": dict(
   text="Proof: PepperProps/C02.lean proves over the system model (Sys.lean) that import resolution returns the first directory of dir::includes in which base.sys or base.comp exists (ambiguous / missing stated outright), that signal entries carry parity = (binding star xor declaration star) and are emitted with `*` exactly then, that instance prefixes keep instances disjoint, that arity is checked, and the composition theorem for the denoted design by induction over the instance tree (parametric in the component theorem C01). Tied to the code by compiling generated bundles (sub-directories, include lists, aliases, decoy files, nested systems to depth 3-4) with both; violations decided by canon(denote(impl .pil)) = canon(denoteSys(bundle)).",
   note="AST-level; system_parser_pyparsing is on the implementation side. Template arguments are substituted into the sources by the harness before the model sees them (substitution itself is C13's model).",
   technique="Lean 4 theorems (decision logic stated outright + induction over the instance tree) + differential correspondence + denotational oracle",
   design="5.2"),
 "C09": dict(
   text="Proof: PepperProps/C09.lean proves for EVERY component/system AST (no well-formedness hypothesis) that a successful elaboration emits a well-formed specification (loadable: every reference resolves to a unique earlier definition; structures balanced with one correctly sized segment per strand; lengths consistent). The byte level is explored by token-level mutation of generated and example programs against the real compiler with an independent well-formedness oracle on whatever it writes.",
   note="The map from arbitrary bytes to an AST-or-reject (the regex/pyparsing parsers) is validated by mutation testing, not proved. The compiler does not validate the code alphabet of quoted regions (e.g. \"2U\" is emitted as UU); this is not one of C09's clauses and is recorded as an observation.",
   technique="Lean 4 theorem over all ASTs + mutation testing with a well-formedness oracle",
   design="5.9"),
 "C10": dict(
   text="Proof: PepperProps/C10.lean proves for all part lists and all declared lengths (including 0) that a single wildcard resolves to exactly L - sum(others), that the result equals the explicit spelling, that every other part keeps multiplicity and order, and that the four malformed shapes are rejected (accepts_iff); lifted to super-sequences/strands (deferred insertion at the item's position). Tied to the code by exhaustive small and random large runs of Sequence(...)/parse_constraint against the model, and by compiling wildcard vs explicit statements with the real compiler and comparing denotations.",
   note="Python ints are modelled as Nat with the negative-remainder case made explicit.",
   technique="Lean 4 algebraic laws + differential correspondence",
   design="5.10"),
 "C14": dict(
   text="Proof: PepperProps/C14.lean proves that the denotation of a program is invariant under inserting/deleting zero-length items (concatenation with []), and that emitted specifications contain no zero-length object. The real tool chain is exercised on pairs (program, program with zero-length objects inserted at first/last/middle/starred/quoted/zero-length super-sequence/only-member/inside a domains() target/last definition): both compile, the PIL denotes the same design once the inserted names are removed, the .des is unchanged, constraints -> design -> .mfe -> finish still succeeds.",
   note="Corollary of the C01 refinement; the pipeline part is validated on the real code, not proved.",
   technique="Lean 4 corollary of the refinement theorem + paired differential runs through the real tool chain",
   design="5.14"),
 "C18": dict(
   text="Proof (partial): PepperProps/C18.lean proves that the only process state the model has, the anonymous counter, acts as a consistent renumbering (compile (a+k) = shift k (compile a)), that names within an output are unique per namespace (given user names are not of the reserved form), and that compilation depends on the file system only through the import probes. The runtime part is explored: fresh subprocesses under PYTHONHASHSEED in {0,1,12345,random}, 0-4 earlier compiles in the process, three invocation directories with relative paths, both back-ends; all outputs equal after dropping the timestamp and renaming anonymous domains; the model started from the process's counter reproduces each output.",
   note="PARTIAL: hash seed, pyparsing's import-time global whitespace setting and dict mutation are runtime facts outside the model; covered by the differential runs only.",
   technique="Lean 4 equivariance theorem + differential runs across processes/configurations",
   design="5.18"),
 "C13": dict(
   text="Proof: PepperProps/C13.lean proves, for every evaluator standing for Python's eval/str, every template (any list of lines, last line with or without newline) and every environment, that the model of var_substitute.process_list returns exactly the hand-expanded file handExpand (comments removed, length lines evaluated in order and removed, every <e> replaced, one newline-terminated line per element of the cartesian product of the brace groups, blank results dropped) or fails with the same evaluation error, whenever the substituted lines have flat braces (subst_is_expansion). The core is parsing-free: duplicate(render S) is the concatenated lexicographic product for every well-formed sequence of texts and groups (duplicate_is_product); product_order states 'leftmost group slowest' as a mixed-radix index formula with the count of instances; instances_newline_terminated covers the missing final newline; duplicate_recursion shows the fuelled model satisfies the Python recursion on every line; arity_binding / arity_lookup show the environment is zip(params, args) and a length mismatch is the only rejection. Tied to the code by running process_list and the model on the same generated templates, and load_component / load_system's environment against bindArgs.",
   note="Python's eval/str are parameters of the theorems (any function of environment and text). The driver's concrete evaluator covers the integer fragment (+ - * // % unary, parentheses, blanks; floor semantics), everything else is answered 'unsupported' and not compared. Lines with nested or stray braces are outside the theorem (model still mirrors the recursion; compared by correspondence only). Failing-input oracle: an independent hand expansion in the harness (str.find + itertools.product + eval), and end-to-end .pil equality of parameterised .comp/.sys templates with their hand-expanded parameterless files, wrong arity rejected.",
   technique="Lean 4 theorems (induction over the decomposition into texts and groups, fuel sufficiency) + differential correspondence + end-to-end compile comparison",
   design="5.13"),
}

NOT_YET = {}

def main():
    props = [json.loads(l) for l in open(os.path.join(VERIF, "properties.jsonl"))]
    checks = []
    na = []
    for p in props:
        pid = p["id"]
        if pid in CHECKS and os.path.exists(os.path.join(VERIF, "lean", "PepperProps", pid + ".lean")) \
                and os.path.exists(os.path.join(VERIF, "harness", "props", pid.lower() + ".py")):
            c = CHECKS[pid]
            checks.append({
              "property_id": pid,
              "quick_cmd": "/venv/bin/python harness/check.py %s --tier quick" % pid,
              "thorough_cmd": "/venv/bin/python harness/check.py %s --tier thorough" % pid,
              "evidence_file": "evidence/%s.json" % pid,
              "replay_cmd_template": "/venv/bin/python harness/check.py %s --replay {path}" % pid,
              "engine": "lean+harness",
              "level_claimed": {"category": c.get("category", "proof"), "text": c["text"], "design_ref": "DESIGN.md §" + c["design"]},
              "level_note": c["note"],
              "technique": c["technique"],
            })
        else:
            na.append({"property_id": pid, "reason": NOT_YET.get(pid, "check not built yet in this revision of /verif (work in progress; the property is within reach of the technique, see DESIGN.md §5)")})
    m = {
      "version": 1,
      "setup_cmd": "/venv/bin/python harness/build.py --setup",
      "hooks": {
        "guard": "PEPPERCOMPILER_VERIF",
        "enable": "environment variable PEPPERCOMPILER_VERIF=1 (set by harness/core.py for every check); no build flag",
        "baseline_off_cmd": "cd /repo && env -u PEPPERCOMPILER_VERIF /venv/bin/python -m pytest -ra -q -p no:cacheprovider --timeout=900 --continue-on-collection-errors",
        "source_commits": ["3de3843"],
        "add_only": True,
      },
      "engines": [
        {"name": "lean", "path": "lean/", "serves_properties": sorted(CHECKS), "kind_free_text": "Lean 4.33 library: executable model (PepperModel), lemmas (PepperProofs), property theorems (PepperProps), line-protocol driver exe pepperd"},
        {"name": "harness", "path": "harness/", "serves_properties": sorted(CHECKS), "kind_free_text": "Python: translator for tables, correspondence (implementation vs model), semantic oracles, failing-input search, evidence"},
      ],
      "checks": checks,
      "not_applicable": na,
      "notes": "Exit 0 held / 1 violation / 2 infrastructure failure. VERIF_SEED and VERIF_TIER honoured. See DESIGN.md.",
    }
    with open(os.path.join(VERIF, "MANIFEST.json"), "w") as f:
        json.dump(m, f, indent=1)

if __name__ == "__main__":
    main()
