"""Rewrites the table of seeded changes in DESIGN.md (between the SEEDED-TABLE markers) from seeded/*/meta.json."""
import glob, json, os, re
VERIF = os.path.dirname(os.path.dirname(os.path.abspath(__file__)))
rows = []
for f in sorted(glob.glob(os.path.join(VERIF, "seeded", "*", "meta.json"))):
    m = json.load(open(f))
    sid = os.path.basename(os.path.dirname(f))
    checks = m.get("checks_run", {})
    caught = [c for c, v in checks.items() if v.startswith("VIOLATION") or "VIOLATION failing input" in v]
    missed_first = [c for c, v in checks.items() if v.startswith("missed at first")]
    def clip(s, n):
        s = " ".join(str(s).split()).replace("|", "/")
        return s if len(s) <= n else s[:n - 1] + "…"
    how = "; ".join("%s: %s" % (c, clip(v, 150)) for c, v in checks.items())
    rows.append("| %s | %s | %s | %s | %s |" % (sid, m.get("property"), clip(m.get("summary", ""), 170), clip(m.get("needs", ""), 150), how))
table = ["| seed | property | change | needs | checks run → outcome |", "|---|---|---|---|---|"] + rows
p = os.path.join(VERIF, "DESIGN.md")
s = open(p).read()
a, b = "<!-- SEEDED-TABLE-BEGIN -->", "<!-- SEEDED-TABLE-END -->"
block = a + "\n" + "\n".join(table) + "\n" + b
if a in s:
    s = re.sub(re.escape(a) + r".*?" + re.escape(b), lambda _: block, s, flags=re.S)
else:
    raise SystemExit("markers missing")
open(p, "w").write(s)
print(len(rows), "rows")
