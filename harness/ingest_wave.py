#!/venv/bin/python
"""ingest_wave.py <out-dir> <Cxx> <src-letter> <dst-letter> [extra checks ...]
Copy a sub-agent's deliverable <out-dir>/<Cxx>/<src-letter>/{patch.diff,demo.py,meta.json} to seeded/<cxx>-<dst-letter>/,
evaluate it with seedtest.py (scratch copy of /repo; pinned tests, demo with / without the change, the owning check and
any extra checks) and record the outcome in meta.json (`confirmed`, `checks_run`).  Prints the seedtest report."""
import json
import os
import shutil
import subprocess
import sys

HERE = os.path.dirname(os.path.abspath(__file__))
VERIF = os.path.dirname(HERE)


def main():
    out, pid, src, dst = sys.argv[1:5]
    extra = [c.upper() for c in sys.argv[5:]]
    s = os.path.join(out, pid, src)
    d = os.path.join(VERIF, "seeded", "%s-%s" % (pid.lower(), dst))
    os.makedirs(d, exist_ok=True)
    for f in ("patch.diff", "demo.py", "meta.json"):
        shutil.copy(os.path.join(s, f), os.path.join(d, f))
    meta = json.load(open(os.path.join(d, "meta.json")))
    meta["property"] = pid
    p = subprocess.run(["/venv/bin/python", os.path.join(HERE, "seedtest.py"), d, pid] + extra, capture_output=True, text=True)
    txt = p.stdout
    try:
        rep = json.loads(txt[txt.index("{"):])
    except Exception:
        print("SEEDTEST FAILED", pid, src, txt[-2000:], p.stderr[-2000:])
        return 2
    ok = rep["tests_pass_with_change"] and rep["demo_exit_with_change"] == 1 and rep["demo_exit_without_change"] == 0
    meta["confirmed"] = ("patched copy of /repo: pinned tests pass (33), demo.py exits 1; unpatched: demo.py exits 0 (harness/seedtest.py)"
                         if ok else "NOT CONFIRMED: tests_pass=%s demo_with=%s demo_without=%s" %
                         (rep["tests_pass_with_change"], rep["demo_exit_with_change"], rep["demo_exit_without_change"]))
    runs = meta.setdefault("checks_run", {})
    for c, r in rep["checks"].items():
        if r["exit"] == 1:
            v = [l for l in r["lines"] if l.startswith("VIOLATION")]
            nf = any("no-failing-input-found" in l for l in v)
            runs[c] = ("VIOLATION broken obligation (no-failing-input-found)" if nf
                       else "VIOLATION failing input (%s)" % (r.get("what") or "?"))
        elif r["exit"] == 0:
            runs[c] = "not detected by this check"
        else:
            runs[c] = "infrastructure failure (exit %s)" % r["exit"]
    json.dump(meta, open(os.path.join(d, "meta.json"), "w"), indent=1)
    print(json.dumps({"seed": os.path.basename(d), "confirmed": ok, "checks": runs}, indent=1))
    return 0


if __name__ == "__main__":
    sys.exit(main())
