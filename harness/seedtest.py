#!/venv/bin/python
"""seedtest.py <seed-dir> [Cxx ...]  — evaluate a seeded change (seeded/<id>/patch.diff + demo.py):
 1. on a scratch copy of /repo: apply the patch, run the pinned tests, run the demo (must exit 1),
    reverse the patch, run the demo (must exit 0);
 2. run the named checks (default: the property of meta.json) against the patched copy (PEPPER_REPO) and
    report which ones print a VIOLATION line.
Nothing is ever changed in /repo itself."""
import json
import os
import shutil
import subprocess
import sys
import tempfile

HERE = os.path.dirname(os.path.abspath(__file__))
VERIF = os.path.dirname(HERE)


def sh(cmd, cwd=None, env=None, timeout=3600):
    p = subprocess.run(cmd, cwd=cwd, env=env, capture_output=True, text=True, timeout=timeout)
    return p.returncode, p.stdout + p.stderr


def main():
    seed = os.path.abspath(sys.argv[1])
    meta = json.load(open(os.path.join(seed, "meta.json")))
    checks = [c.upper() for c in sys.argv[2:]] or [meta["property"]]
    tier = os.environ.get("VERIF_TIER", "quick")
    tmp = tempfile.mkdtemp(prefix="seedtest_")
    copy = os.path.join(tmp, "repo")
    try:
        shutil.copytree("/repo", copy, symlinks=True, ignore=shutil.ignore_patterns(".git"))
        subprocess.run(["git", "init", "-q"], cwd=copy)
        rc, out = sh(["git", "apply", "--whitespace=nowarn", os.path.join(seed, "patch.diff")], cwd=copy)
        if rc != 0:
            print("PATCH DOES NOT APPLY:", out); return 2
        env = dict(os.environ, PYTHONPATH=copy, PYTHONDONTWRITEBYTECODE="1")
        rc, out = sh(["/venv/bin/python", "-m", "pytest", "-q", "-p", "no:cacheprovider", "--timeout=900"], cwd=copy, env=env)
        tests_ok = rc == 0
        rc_demo_mut, out_mut = sh(["/venv/bin/python", os.path.join(seed, "demo.py")], cwd=tmp, env=env)
        report = {"seed": os.path.basename(seed), "property": meta["property"], "tests_pass_with_change": tests_ok,
                  "demo_exit_with_change": rc_demo_mut, "checks": {}}
        for c in checks:
            e2 = dict(os.environ, PEPPER_REPO=copy, VERIF_TIER=tier)
            rc, out = sh(["/venv/bin/python", os.path.join(HERE, "check.py"), c, "--tier", tier], cwd=VERIF, env=e2, timeout=7200)
            lines = [l for l in out.split("\n") if l.startswith(("VIOLATION", "OK ", "KNOWN-FINDING", "INFRASTRUCTURE"))]
            replay = None
            for l in lines:
                if l.startswith("VIOLATION") and "replay=" in l:
                    replay = l.split("replay=")[1].split()[0]
            what = None
            if replay and os.path.exists(replay):
                try:
                    what = json.load(open(replay)).get("what") or "broken-obligation"
                except Exception:
                    pass
            report["checks"][c] = {"exit": rc, "lines": lines[:6], "what": what}
        # restore generated tables for the real repo (a table-changing patch rewrites them)
        sh(["/venv/bin/python", os.path.join(HERE, "extract_tables.py")], cwd=VERIF)
        sh(["git", "apply", "-R", "--whitespace=nowarn", os.path.join(seed, "patch.diff")], cwd=copy)
        rc_demo_orig, _ = sh(["/venv/bin/python", os.path.join(seed, "demo.py")], cwd=tmp, env=env)
        report["demo_exit_without_change"] = rc_demo_orig
        print(json.dumps(report, indent=1))
        return 0
    finally:
        shutil.rmtree(tmp, ignore_errors=True)


if __name__ == "__main__":
    sys.exit(main())
