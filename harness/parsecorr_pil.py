"""Correspondence between the Lean model of the designer's PIL *text* reader (`PepperModel/ParsePil.lean`, op `parse-pil`)
and the real one (`peppercompiler.design.PIL_parser.load_spec`).

The real reader is run in-process on a file holding exactly the bytes of the document; `PIL_class.Spec` is replaced, for
the duration of the call, by a recorder whose `add_*` methods note their arguments: the recorded call list IS the
statement list (`kinetic` lines make no call).  Any exception (including the `SystemExit` of `utils.error`) = reject.
A second run with the real `Spec` compares accept/reject with `Pil.load` applied to the model's statements
("ParsePil.document+load").

    check_texts(res, drv, texts, tag)   texts: list of str or (label, str)
    gen_texts(rng, n)                   -> list of (label, text)
"""
import os
import re
import sys

sys.path.insert(0, os.path.dirname(os.path.abspath(__file__)))
import core  # noqa: E402

NAME = "ParsePil.document"


# ------------------------------------------------------------------------------------------------ the real reader

class _Recorder(object):
    def __init__(self):
        self.calls = []

    def add_seq(self, name, template):
        self.calls.append({"k": "seq", "name": name, "tmpl": template})

    def add_sup_seq(self, name, sub_seq_names):
        self.calls.append({"k": "sup", "name": name, "items": list(sub_seq_names)})

    def add_strand(self, name, seq_names, dummy):
        self.calls.append({"k": "strand", "name": name, "dummy": bool(dummy), "items": list(seq_names)})

    def add_struct(self, name, strand_names, struct, params):
        self.calls.append({"k": "struct", "name": name, "params": params, "strands": list(strand_names),
                           "struct": struct})

    def add_equal(self, seq_names):
        self.calls.append({"k": "equal", "items": list(seq_names)})


class _Shim(object):
    Spec = _Recorder


def real_parse(text, fn, with_spec=True):
    """({"ok": [stmt…]} | {"err": "reject", "exc": type}, loads: bool|None) for the real `load_spec` on a file with
    these bytes"""
    from peppercompiler.design import PIL_parser
    with open(fn, "wb") as f:
        f.write(text.encode("ascii"))
    saved = PIL_parser.PIL_class
    PIL_parser.PIL_class = _Shim
    try:
        with core.quiet():
            spec = PIL_parser.load_spec(fn)
        out = {"ok": spec.calls}
    except BaseException as e:  # noqa  (utils.error is sys.exit)
        if isinstance(e, KeyboardInterrupt):
            raise
        out = {"err": "reject", "exc": type(e).__name__}
    finally:
        PIL_parser.PIL_class = saved
    loads = None
    if with_spec and "ok" in out:
        try:
            with core.quiet():
                PIL_parser.load_spec(fn)
            loads = True
        except BaseException as e:  # noqa
            if isinstance(e, KeyboardInterrupt):
                raise
            loads = False
    return out, loads


def _call(drv, reqs):
    if len(reqs) > 400:
        import pilgen
        return pilgen.call_parallel(reqs)
    return drv.call_many(reqs)


def check_texts(res, drv, texts, tag):
    """run model and real reader on every document; disagreements go to res.corr_breaks"""
    items = [(t if isinstance(t, tuple) else ("", t)) for t in texts]
    keep = []
    for label, t in items:
        try:
            t.encode("ascii")
        except UnicodeEncodeError:
            res.count("parse-pil:skipped-non-ascii")
            continue
        keep.append((label, t))
    got = _call(drv, [{"op": "parse-pil", "text": t, "detail": True, "load": True} for _, t in keep])
    breaks = 0
    with core.scratch("pepper_pp_") as d:
        fn = os.path.join(d, "doc.pil")
        for (label, t), m in zip(keep, got):
            r, loads = real_parse(t, fn)
            res.disagreements_checked += 1
            src = label.split("/")[0] if label else tag
            res.count("parse-pil:source:" + src)
            if label.startswith("mutant/"):
                for w in label[7:].split("+"):
                    res.count("parse-pil:mutation:" + w)
            if "ok" in r:
                res.count("parse-pil:impl:accept")
                for s in r["ok"]:
                    res.count("parse-pil:stmt:" + s["k"])
                res.count("parse-pil:impl:" + ("loads" if loads else "spec-rejects"))
            else:
                res.count("parse-pil:impl:reject:" + r["exc"])
            if "err" in m:
                res.count("parse-pil:model:reject:" + m.get("class", "?"))
            mm = {"ok": m["ok"]} if "ok" in m else {"err": "reject"}
            rr = {"ok": r["ok"]} if "ok" in r else {"err": "reject"}
            if mm != rr:
                breaks += 1
                res.corr_breaks.append({"name": NAME, "input": {"text": t, "label": label, "tag": tag},
                                        "model": m, "impl": r})
            elif "ok" in m and loads is not None and bool(m.get("loads")) != loads:
                breaks += 1
                res.corr_breaks.append({"name": NAME + "+load", "input": {"text": t, "label": label, "tag": tag},
                                        "model": {"loads": m.get("loads")}, "impl": {"loads": loads}})
    return breaks


# ------------------------------------------------------------------------------------------------ generators

WS_ASCII = "\t\n\x0b\x0c\r\x1c\x1d\x1e\x1f "
ODD_WS = ["\x0b", "\x0c", "\x1c", "\x1d", "\x1e", "\x1f", "\t", "  ", " \t "]
CHARS = " \t:=+[]#*-_.()NATCGRYnx9a\n\r\x0b\x0c\x1c\x00\x7f!,/'\"{}<>"
TOKENS = [":", "=", "+", "[dummy]", "[1nt]", "[no-opt]", "[1.5nt]", "[0nt]", "[]", "[a-b]", "[dummy", "dummy]", "[ 1nt ]",
          "[1nt][2nt]", "a*", "**", "*", "a:b", "x-y_z*", "-", "_", "9", "9a", "sequence", "strand", "structure", "equal",
          "kinetic", "sup-sequence", "super-sequence", "supsequence", "Sequence", "N", "NNNN", "NNXN", "nnnn", "..", "(+)",
          "(.)", "( + )", ": 3", ":3", " : ", "::", "==", "= =", "#", "# c", "->", "a+b", "a + b", "+ +", ".(x)"]
HAND = [
    "", "\n", "\n\n", "#", "#\n", "# x", " \t \n", "sequence a = NNN", "sequence a = NNN\n", "sequence a = NNN : 3\n",
    "sequence a =  : 0\n", "sequence a = : 0\n", "sequence a =\n", "sequence a = \n", "sequence a =   \n",
    "sequence a = NNN :\n", "sequence a = NNN : \n", "sequence a = NNN :3\n", "sequence a = NNN: 3\n",
    "sequence a = NNN:3\n", "sequence a = NNN : 3 : 4\n", "sequence a = NNN : x y z\n", "sequence a = NNN 3\n",
    "sequence a= NNN\n", "sequence a =NNN\n", "sequence a=NNN\n", "sequence = NNN\n", "sequence  = NNN\n",
    "sequence a* = NNN\n", "sequence a.b = NNN\n", "sequence -_- = N\n", "sequence 9 = N\n", "sequence a = nnn\n",
    "sequence a = NXN\n", "sequence a = N=N\n", "sequence a = N#N\n", "sequence a = N#N", "sequence a = NNN # c",
    "sequence a = NNN : 3 # c", "sequence a = NNN # c\n", "sequence\n", "sequence", "sequencea = N\n",
    "sequence\ta\t=\tNNN\t:\t3\n", "sequence\x0ba\x0c=\x1cNNN\x1d:\x1e3\x1f\n", "\x0bsequence a = N\x0c\n",
    "sup-sequence s = a b\n", "super-sequence s = a b : 5\n", "sup-sequence s =  : 0\n", "sup-sequence s = : 0\n",
    "sup-sequence s =\n", "sup-sequence s = a b: 5\n", "sup-sequence s = a b :5\n", "sup-sequence s = a b:5\n",
    "sup-sequence s = a = b\n", "sup-sequence s = a* b* : 2 : 3\n", "supersequence s = a\n", "sup-sequence s=a\n",
    "super-sequence  s  =  a   b  \n", "sup-sequence s = a\x0bb\x0cc\n",
    "strand s = a b\n", "strand [dummy] s = a b : 4\n", "strand [dummy]s = a\n", "strand [dummy] = a\n",
    "strand [dummy]  s = a\n", "strand  [dummy] s = a\n", "strand [Dummy] s = a\n", "strand [dummy] [dummy] s = a\n",
    "strand s =  : 0\n", "strand s = : 0\n", "strand s = a :\n", "strand\n", "strand s\n", "strand s =\n",
    "structure S = s : ...\n", "structure [1nt] S = s : ...\n", "structure [no-opt] S = s : ...\n",
    "structure [1.5nt] S = s : ...\n", "structure [dummy] S = s : ...\n", "structure [] S = s : ...\n",
    "structure [1nt]S = s : ...\n", "structure[1nt] S = s : ...\n", "structure [1 nt] S = s : ...\n",
    "structure [1e+06nt] S = s : ...\n", "structure [1e-05nt] S = s : ...\n",
    "structure [1nt] [2nt] S = s : ...\n", "structure S = s + t : ..+..\n", "structure S = s+t : ..+..\n",
    "structure S = s +t: ..+..\n", "structure S = s + t :..+..\n", "structure S = s t + u : ..+..\n",
    "structure S = s + : ..+\n", "structure S = + : +\n", "structure S =  : .\n", "structure S = : .\n",
    "structure S = s : . . (\t) +\n", "structure S = s : .\x0b.\n", "structure S = s : .x.\n", "structure S = s :\n",
    "structure S = s : \n", "structure S = s\n", "structure S = s : .. : ..\n", "structure S = s : ..:\n",
    "structure S = s : ((..)) # c\n", "structure S = s : ((..)) # c", "structure S = s # c : ..\n",
    "structure S = s\x0b+\x0ct : ..\n",
    "equal\n", "equal a\n", "equal a b* c \n", "equal a : b = c + d\n", "equals a b\n", "equal\ta\x0bb\n", "Equal a b\n",
    "kinetic\n", "kinetic anything : = [ goes\n", "kinetics x\n", "kinetic# c\n", "kinetic [0.000000 /M/s < k < inf /M/s] A + B -> C\n",
    "foo\n", "sequence a = N\r\nsequence b = N\r\n", "sequence a = N\rsequence b = N\r", "sequence a = N\r\r\nsequence b = N",
    "sequence a = N\x0csequence b = N\n", "sequence a = N # c\rsequence b = N # d", "# c\r# d", "# c\r\n# d\r\n",
    "sequence a = N\n# only comment, unterminated", "sequence a = N\n   ", "sequence a = N\n\t#", "\x00\n",
    "sequence a = N\x00\n", "sequence a\x00 = N\n",
]


def _mut_char(rng, t):
    if not t:
        return t + rng.choice(CHARS), "char-insert"
    i = rng.randrange(len(t))
    r = rng.random()
    if r < 0.34:
        return t[:i] + t[i + 1:], "char-delete"
    if r < 0.67:
        return t[:i] + rng.choice(CHARS) + t[i:], "char-insert"
    return t[:i] + rng.choice(CHARS) + t[i + 1:], "char-substitute"


def _pick_line(rng, t):
    lines = t.split("\n")
    idx = [i for i, l in enumerate(lines) if l.strip()]
    if not idx:
        return lines, None
    return lines, rng.choice(idx)


def _mut_token(rng, t):
    lines, i = _pick_line(rng, t)
    if i is None:
        return t + rng.choice(TOKENS), "token-insert"
    parts = re.split(r"(\s+)", lines[i])
    toks = [k for k in range(0, len(parts), 2) if parts[k] != ""]
    if not toks:
        return t, "noop"
    k = rng.choice(toks)
    r = rng.random()
    if r < 0.3:
        what = "token-delete"
        parts[k] = ""
        if k + 1 < len(parts) and rng.random() < 0.7:
            parts[k + 1] = ""
    elif r < 0.55:
        what = "token-insert"
        parts[k] = rng.choice(TOKENS) + rng.choice([" ", " ", "", "\t"]) + parts[k]
    elif r < 0.8:
        what = "token-substitute"
        parts[k] = rng.choice(TOKENS)
    elif r < 0.9:
        what = "token-duplicate"
        parts[k] = parts[k] + " " + parts[k]
    else:
        what = "token-swap"
        k2 = rng.choice(toks)
        parts[k], parts[k2] = parts[k2], parts[k]
    lines[i] = "".join(parts)
    return "\n".join(lines), what


def _mut_line(rng, t):
    lines, i = _pick_line(rng, t)
    if i is None:
        return t + "\n\n", "blank-lines"
    r = rng.random()
    if r < 0.2:
        lines.insert(i, lines[i]); what = "line-duplicate"
    elif r < 0.3:
        del lines[i]; what = "line-delete"
    elif r < 0.4:
        j = rng.randrange(len(lines)); lines[i], lines[j] = lines[j], lines[i]; what = "line-swap"
    elif r < 0.5:
        if i + 1 < len(lines):
            lines[i] = lines[i] + rng.choice(["", " "]) + lines.pop(i + 1)
        what = "line-join"
    elif r < 0.62:
        lines[i] = re.sub(r"\s*:\s*\d+\s*$", "", lines[i]); what = "drop-length"
    elif r < 0.72:
        k = rng.randrange(len(lines[i]) + 1)
        lines[i] = lines[i][:k] + rng.choice(["#", " # c ", "#c", "\t#:=+"]) + lines[i][k:]; what = "comment-inside"
    elif r < 0.8:
        lines.insert(i, rng.choice(["", " ", "\t", "#", "  # c", "\x0c", "\x1c\x1d"])); what = "blank-or-comment-line"
    elif r < 0.9:
        old = rng.choice([" : ", " = ", " + ", " "])
        new = rng.choice([old.strip(), old.strip() + " ", " " + old.strip(), "  " + old.strip() + "\t", rng.choice(ODD_WS)])
        if old == " ":
            new = rng.choice(ODD_WS)
        n = lines[i].count(old)
        if n:
            k = rng.randrange(n)
            pos = -1
            for _ in range(k + 1):
                pos = lines[i].find(old, pos + 1)
            lines[i] = lines[i][:pos] + new + lines[i][pos + len(old):]
        what = "spacing"
    else:
        m = re.search(r"\[[^\]]*\]", lines[i])
        new = rng.choice(["[1nt]", "[no-opt]", "[1.5nt]", "[dummy]", "[0nt]", "[]", "[1e+06nt]", "[_.9]", "[1-2]", "[1nt] [dummy]"])
        if m:
            lines[i] = lines[i][:m.start()] + new + lines[i][m.end():]
        else:
            w = lines[i].split(None, 1)
            lines[i] = w[0] + " " + new + (" " + w[1] if len(w) > 1 else "")
        what = "bracket-parameter"
    return "\n".join(lines), what


def _mut_names(rng, t):
    """rename one identifier everywhere to one with `-` `_` `*` digits or a character outside the alphabet"""
    names = sorted(set(re.findall(r"[A-Za-z_][\w-]*", t)) - {"sequence", "sup-sequence", "super-sequence", "strand",
                                                              "structure", "equal", "kinetic", "dummy", "nt", "N"})
    if not names:
        return t, "noop"
    old = rng.choice(names)
    new = rng.choice(["a-b", "_", "-", "x_1-2", "9lives", "0", "a*", "a**", "*a", "a.b", "a:b", "a+b", "a b", "a#b", "é".encode("ascii", "ignore").decode() or "e",
                      "-_-", "A-", "__Anon-435", "sequence", "N", "a=b", "[x]"])
    return re.sub(r"(?<![\w-])" + re.escape(old) + r"(?![\w-])", new.replace("\\", "\\\\"), t), "rename:" + (
        "plain" if re.fullmatch(r"[\w-]+", new) else "odd")


def _mut_newlines(rng, t):
    r = rng.random()
    if r < 0.3:
        return t.replace("\n", "\r\n"), "crlf"
    if r < 0.45:
        return t.replace("\n", "\r"), "cr-only"
    if r < 0.6:
        return "".join(rng.choice(["\n", "\r\n", "\r", "\n\n", "\r\r\n"]) if c == "\n" else c for c in t), "mixed-newlines"
    if r < 0.85:
        return t.rstrip("\n"), "no-final-newline"
    return t.rstrip("\n") + rng.choice([" # c", "#", "\t", " \n \t", "\n#"]), "unterminated-tail"


def fuzz_doc(rng):
    """1-3 lines assembled piece by piece around the statement shapes, every piece drawn from near-miss variants"""
    def w(opt=False):
        r = rng.random()
        if opt and r < 0.25:
            return ""
        if r < 0.7:
            return " "
        return rng.choice(ODD_WS + ["  ", "\t"])

    def name():
        return rng.choice(["a", "b", "s", "S1", "x-y", "_", "-", "9", "a*", "a.b", "", "a:b", "[dummy]", "=", "a#"])

    def items():
        return w(True).join(rng.choice(["a", "b*", "c", "a**", "*", "x-y*", ":", "=", "+", "a:b", "#"])
                            for _ in range(rng.choice([0, 1, 1, 2, 3])))

    def tail():
        return rng.choice(["", "", w(True) + ":" + w(True) + rng.choice(["3", "", "x y", ": 4", "3 # c"]),
                           w(True) + ":", ":" + w(True) + "3"])
    lines = []
    for _ in range(rng.choice([1, 1, 2, 3])):
        k = rng.choice(["sequence", "sup-sequence", "super-sequence", "strand", "structure", "equal", "kinetic", "sequence",
                        "structure", "sup-sequence ", "Strand", "structures", ""])
        if k.startswith("seq"):
            l = k + w() + name() + w(True) + "=" + w(True) + rng.choice(["NNN", "", "N", "ACGTRYWSMKBDHVN", "NnN", "N N", "N:N", "U"]) + tail()
        elif k.startswith("su") or k.lower().startswith("strand"):
            br = rng.choice(["", "", "[dummy]" + w(True), "[dummy" + w(), "[1nt]" + w()]) if "trand" in k else ""
            l = k + w() + br + name() + w(True) + "=" + w(True) + items() + tail()
        elif k.startswith("structure"):
            br = rng.choice(["", "", "[1nt]", "[no-opt]", "[1.5nt]", "[dummy]", "[]", "[1nt", "1nt]", "[_.]", "[1nt][2]"])
            br = br + w(True) if br else ""
            nm = rng.choice([" + ", "+", " +", "+ ", w() + "+" + w()]).join(
                rng.choice(["s", "t", "s t", "", "a*", "a:b"]) for _ in range(rng.choice([1, 1, 2, 3])))
            st = rng.choice(["...", "(+)", "( + )", "..\t(( ))", "", ".x.", ".\x0b.", ". : .", "((..))"])
            l = k + w(True) + br + name() + w(True) + "=" + w(True) + nm + rng.choice([w(True) + ":" + w(True), " : ", "", ":"]) + st
        else:
            l = k + w(True) + items()
        if rng.random() < 0.15:
            l += w(True) + rng.choice(["# c", "#", "#:= +"])
        if rng.random() < 0.1:
            l = w() + l
        lines.append(l)
    nl = rng.choice(["\n", "\n", "\n", "\r\n", "\r"])
    return nl.join(lines) + rng.choice([nl, nl, nl, ""])


MUTATORS = [(_mut_char, 5), (_mut_token, 5), (_mut_line, 6), (_mut_names, 2), (_mut_newlines, 2)]


def mutate(rng, t):
    fs = [f for f, w in MUTATORS for _ in range(w)]
    f = rng.choice(fs)
    return f(rng, t)


def compiled_texts(rng, n, res=None):
    """the real compiler's `.pil` for generated components and systems"""
    import impl
    import progen
    out = []
    tries = 0
    while len(out) < n and tries < 4 * n + 20:
        tries += 1
        try:
            if rng.random() < 0.5:
                b = progen.gen_component_bundle(rng, size=rng.choice([3, 5, 8, 12]))
                kind = "component"
            else:
                b = progen.gen_system_bundle(rng, depth=rng.choice([1, 1, 2]), size=rng.choice([3, 5, 7]))
                kind = "system"
        except Exception:
            continue
        r = impl.compile_bundle(b, "pil")
        if r.get("ok"):
            out.append(("compiled/" + kind, r["text"], b, r))
    return out


def example_texts(rng=None, n=10 ** 6):
    """the `.pil` the real compiler writes for the repository's examples (corpus/examples.json)"""
    import random
    import compile_check
    import impl
    out = []
    for tag, b in compile_check.example_bundles(rng or random.Random(0), n):
        r = impl.compile_bundle(b, "pil")
        if r.get("ok"):
            out.append((tag.replace("example:", "example/"), r["text"]))
    return out


def gen_texts(rng, n, compiled_share=0.06):
    """(label, text) documents: generated documents in free and emitted style, compiled output, and mutants of all"""
    import pilgen
    out = [("hand/%d" % i, t) for i, t in enumerate(HAND)]
    base = []
    n_comp = max(2, int(n * compiled_share))
    for label, text, _b, _r in compiled_texts(rng, n_comp):
        base.append(text)
        out.append((label, text))
    n_doc = max(4, int(n * 0.22))
    for i in range(n_doc):
        stmts, _meta = pilgen.gen_doc(rng, pilgen.sizes_for("quick", rng))
        style = "free" if i % 2 == 0 else "emitted"
        t = pilgen.render(stmts, rng, style)
        base.append(t)
        out.append(("gen-" + style, t))
    for _ in range(int(n * 0.2)):
        out.append(("fuzz", fuzz_doc(rng)))
    while len(out) < n:
        t = rng.choice(base) if rng.random() < 0.85 else rng.choice(HAND)
        if len(t) > 1500 and rng.random() < 0.8:    # keep the mutants of big documents local
            lines = t.split("\n")
            k = rng.randrange(len(lines))
            t = "\n".join(lines[max(0, k - 6):k + 6]) + "\n"
        whats = []
        for _ in range(rng.choice([1, 1, 1, 2, 3])):
            t, w = mutate(rng, t)
            whats.append(w)
        out.append(("mutant/" + "+".join(whats), t))
    return out


def roundtrip_model(drv, compiled):
    """empirical form of the round-trip theorem: parsing the MODEL's emitted lines gives the model's `instStmts`
    (and the same for the real text); returns the list of failures"""
    import progen
    bad = []
    reqs = [progen.compile_request(b, "pil", anon=r["anon_before"]) for _, _, b, r in compiled]
    got = _call(drv, reqs)
    reqs2, keep = [], []
    for (label, text, b, r), g in zip(compiled, got):
        if "ok" not in g:
            bad.append({"what": "model rejects", "label": label})
            continue
        reqs2.append({"op": "parse-pil", "text": "\n".join(g["ok"]["lines"])})
        reqs2.append({"op": "parse-pil", "text": text})
        keep.append((label, g))
    got2 = _call(drv, reqs2)
    for k, (label, g) in enumerate(keep):
        for which, m in (("model-lines", got2[2 * k]), ("real-text", got2[2 * k + 1])):
            if m.get("ok") != g["ok"]["stmts"]:
                bad.append({"what": which, "label": label, "parse": m, "stmts": g["ok"]["stmts"]})
    return bad


if __name__ == "__main__":
    import argparse
    import json
    import time
    ap = argparse.ArgumentParser()
    ap.add_argument("-n", type=int, default=2000)
    ap.add_argument("--seed", type=int, default=0)
    ap.add_argument("--examples", action="store_true")
    ap.add_argument("--roundtrip", type=int, default=0)
    ap.add_argument("--show", type=int, default=5)
    a = ap.parse_args()
    rng = core.rng_for(a.seed, "parsecorr_pil")
    res = core.Result("ParsePil")
    drv = core.Driver()
    t0 = time.time()
    texts = gen_texts(rng, a.n)
    print("generated %d documents in %.1fs" % (len(texts), time.time() - t0))
    check_texts(res, drv, texts, "gen")
    if a.examples:
        ex = example_texts()
        print("examples compiled: %d" % len(ex))
        check_texts(res, drv, ex, "example")
    if a.roundtrip:
        comp = compiled_texts(rng, a.roundtrip)
        bad = roundtrip_model(drv, comp)
        print("round trip on %d compiled programs: %d failures" % (len(comp), len(bad)))
        for b in bad[:a.show]:
            print(json.dumps(b)[:1500])
    print("documents checked: %d   disagreements: %d   (%.1fs)" % (res.disagreements_checked, len(res.corr_breaks),
                                                                    time.time() - t0))
    for k in sorted(res.distribution):
        print("  %-50s %d" % (k, res.distribution[k]))
    for b in res.corr_breaks[:a.show]:
        print(json.dumps(b)[:1500])
    sys.exit(1 if res.corr_breaks else 0)
