"""Per-line correspondence between the Lean model of the `.comp` statement parser (`lean/PepperModel/ParseComp.lean`,
driver ops `parse-comp-line`, `parse-comp-declare`, `parse-comp-doc`) and the REAL functions of
`peppercompiler.component_parser_regex` / the real statement loop of `component_parser.load_component`.

    check_lines(res, drv, lines, tag)   every line through the real `parse_*_statement` function selected by the
                                        command word (and through `parse_declare_statement` when it starts with
                                        `declare`) and through the model; disagreements -> res.corr_breaks
    check_docs(res, drv, docs, tag)     (declare line, substituted document) pairs through the real loop of
                                        `load_component` (with a recording `Component`) and through the model
    gen_lines(rng, n)                   valid statements of every kind and option form with free spacing + malformed stream
    example_docs()                      (declare, document) of every .comp file of /repo/examples after substitution

How the real functions are observed without editing /repo: `utils.DEBUG = True` makes `error()` raise; any exception
is a reject.  The real functions return converted values (floats, expanded structures, parsed nucleotide lists) where
the model keeps the source text, so the module globals `float`, `HU2dotParen`, `extended2dotParen` and
`parse_constraint` of `component_parser_regex` are wrapped by recorders that note the text they were called with and
then call the original (a conversion error of the structure text is noted, not raised: the model hands the raw text on
and rejects it one step later in `Comp.addStmt`).  Everything is restored afterwards.

Non-ASCII lines are outside the model: they are counted (`non-ascii-skipped`) and not compared.
"""
import builtins
import contextlib
import io
import json
import os
import re
import sys

HERE = os.path.dirname(os.path.abspath(__file__))
if HERE not in sys.path:
    sys.path.insert(0, HERE)

import core      # noqa: E402
import progen    # noqa: E402


# ------------------------------------------------------------------------------------------ observing the real code

class _Rec:
    def __init__(self):
        self.reset()

    def reset(self):
        self.floats = []     # texts passed to float()
        self.items = []      # canonical items, one per parse_constraint call
        self.struct = None   # (raw text, notation, converted-or-None)
        self.bad_item = False


REC = _Rec()


@contextlib.contextmanager
def instrumented():
    import peppercompiler.utils as utils
    import peppercompiler.component_parser_regex as cpr
    saved = {"DEBUG": utils.DEBUG, "pc": cpr.parse_constraint, "hu": cpr.HU2dotParen, "dp": cpr.extended2dotParen}
    had_float = "float" in cpr.__dict__

    def rec_float(x):
        REC.floats.append(x)
        return builtins.float(x)

    def conv(kind, orig):
        def f(text):
            try:
                with core.quiet():
                    out = orig(text)
            except BaseException as e:  # noqa
                if isinstance(e, KeyboardInterrupt):
                    raise
                out = None
            REC.struct = (text, kind, out)
            return out
        return f

    def rec_constraint(word):
        r = saved["pc"](word)
        if r is None:
            REC.bad_item = True
            REC.items.append(None)
        elif r[0] == cpr.nucleotide_flag:
            REC.items.append({"t": "nuc", "text": word[1:-1], "_nts": r[1]})
        elif r[0] == cpr.sequence_flag:
            REC.items.append({"t": "ref", "name": r[1][0], "star": r[1][1]})
        else:
            REC.items.append({"t": "dom", "name": r[1][0], "star": r[1][1]})
        return r

    utils.DEBUG = True
    cpr.float = rec_float
    cpr.parse_constraint = rec_constraint
    cpr.HU2dotParen = conv("HU", saved["hu"])
    cpr.extended2dotParen = conv("DP", saved["dp"])
    try:
        yield cpr
    finally:
        utils.DEBUG = saved["DEBUG"]
        cpr.parse_constraint = saved["pc"]
        cpr.HU2dotParen = saved["hu"]
        cpr.extended2dotParen = saved["dp"]
        if not had_float:
            del cpr.float


def _items():
    out = []
    for it in REC.items:
        if it is None:
            raise ValueError("parse_constraint returned None")
        out.append({k: v for k, v in it.items() if not k.startswith("_")})
    return out


def canon_seq(name, length):
    return {"k": "seq", "name": name, "items": _items(), "len": length}


def canon_strand(dummy, name, length):
    return {"k": "strand", "dummy": dummy, "name": name, "items": _items(), "len": length}


def canon_struct(opt, name, strands, domain):
    if REC.floats:
        o = REC.floats[0]
    elif opt == 0.0:
        o = "no-opt"
    else:
        o = None
    return {"k": "struct", "opt": o, "name": name, "strands": list(strands), "domain": domain, "text": REC.struct[0]}


def canon_kin(low, high, ins, outs):
    fl = list(REC.floats)
    lo = fl.pop(0) if low is not None else None
    hi = fl.pop(0) if high is not None else None
    return {"k": "kinetic", "low": lo, "high": hi, "ins": list(ins), "outs": list(outs)}


def canon_decl(name, params, inputs, outputs):
    def port(p):
        (seq, rev), st = p
        return {"seq": seq, "star": rev, "struct": st}
    return {"kind": "comp", "name": name, "params": list(params), "inputs": [port(p) for p in inputs], "outputs": [port(p) for p in outputs]}


def real_line(cpr, line):
    """the body of load_component's loop for one (already stripped) line, on the real parse functions"""
    REC.reset()
    try:
        with core.quiet():
            command = line.split()[0]
            if command == "sequence":
                name, const, length = cpr.parse_general_sequence_statement(line)
                return canon_seq(name, length)
            if command == "strand":
                dummy, name, const, length = cpr.parse_strand_statement(line)
                return canon_strand(dummy, name, length)
            if command == "structure":
                opt, name, strands, (domain, struct) = cpr.parse_structure_statement(line)
                return canon_struct(opt, name, strands, domain)
            if command == "kinetic":
                low, high, ins, outs = cpr.parse_kinetic_statement(line)
                return canon_kin(low, high, ins, outs)
            return None
    except BaseException as e:  # noqa
        if isinstance(e, KeyboardInterrupt):
            raise
        return None


def real_declare(cpr, line):
    REC.reset()
    try:
        with core.quiet():
            return canon_decl(*cpr.parse_declare_statement(line))
    except BaseException as e:  # noqa
        if isinstance(e, KeyboardInterrupt):
            raise
        return None


def is_ascii(s):
    return all(ord(c) < 128 for c in s)


def kind_of(line):
    w = line.split()
    if not w:
        return "blank"
    return w[0] if w[0] in ("sequence", "strand", "structure", "kinetic", "declare", "equal", "super-sequence", "sup-sequence") else "other"


def _model_of(resp):
    return resp.get("ok") if isinstance(resp, dict) and "ok" in resp else None


def check_lines(res, drv, lines, tag):
    """compare the real per-line parsers with the model on every line; returns the number of disagreements"""
    lines = list(lines)
    todo = []
    for l in lines:
        if not is_ascii(l):
            res.count("%s:non-ascii-skipped" % tag)
            continue
        todo.append(l)
    reqs, plan = [], []
    for l in todo:
        reqs.append({"op": "parse-comp-line", "line": l}); plan.append(("line", l))
        if l.split()[:1] == ["declare"] or l.lstrip().startswith("declare"):
            reqs.append({"op": "parse-comp-declare", "line": l}); plan.append(("declare", l))
    resps = drv.call_many(reqs)
    bad = 0
    with instrumented() as cpr:
        for (what, l), resp in zip(plan, resps):
            real = real_line(cpr, l) if what == "line" else real_declare(cpr, l)
            model = _model_of(resp)
            res.disagreements_checked += 1
            res.count("%s:%s:%s:%s" % (tag, what, kind_of(l), "accepted" if real is not None else "rejected"))
            if real != model:
                bad += 1
                res.corr_breaks.append({"name": "ParseComp.line" if what == "line" else "ParseComp.declare",
                                        "input": {"line": l, "tag": tag}, "model": model, "impl": real})
    return bad


class _Recorder:
    """stands in for component_class.Component while the real statement loop runs"""
    def __init__(self, name, prefix, param_names):
        self.stmts = []
        self.io = None

    def add_sequence(self, name, const, length):
        self.stmts.append(canon_seq(name, length)); REC.reset()

    def add_super_sequence(self, name, const, length):
        self.stmts.append(canon_seq(name, length)); REC.reset()

    def add_strand(self, dummy, name, const, length):
        self.stmts.append(canon_strand(dummy, name, length)); REC.reset()

    def add_structure(self, opt, name, strands, struct):
        self.stmts.append(canon_struct(opt, name, strands, struct[0])); REC.reset()

    def add_kinetic(self, low, high, inputs, outputs):
        self.stmts.append(canon_kin(low, high, inputs, outputs)); REC.reset()

    def add_IO(self, inputs, outputs):
        self.io = (inputs, outputs)


def real_doc(cpr, declare, text):
    """the real `load_component` on a file whose first statement is `declare` and whose substituted rest is `text`"""
    import peppercompiler.component_parser as cp
    import peppercompiler.component_class as cc
    REC.reset()
    saved = (cp.process_list, cc.Component, cp.__dict__.get("open"),
             cp.parse_general_sequence_statement, cp.parse_strand_statement, cp.parse_structure_statement,
             cp.parse_kinetic_statement, cp.parse_declare_statement)
    decl_seen = []

    def decl(line):
        r = cpr.parse_declare_statement(line)
        decl_seen.append(r)
        return r
    try:
        cp.process_list = lambda f, params: text
        cc.Component = _Recorder
        cp.open = lambda fn, mode="r": io.StringIO(declare + "\n")
        cp.parse_declare_statement = decl
        with core.quiet():
            nparams = len(cpr.parse_declare_statement(declare)[1])
            REC.reset()
            comp = cp.load_component("x.comp", [0] * nparams, "")
        name, params, _, _ = decl_seen[-1]
        out = canon_decl(name, params, comp.io[0], comp.io[1])
        out["stmts"] = comp.stmts
        return out
    except BaseException as e:  # noqa
        if isinstance(e, KeyboardInterrupt):
            raise
        return None
    finally:
        cp.process_list, cc.Component = saved[0], saved[1]
        if saved[2] is None:
            del cp.open
        else:
            cp.open = saved[2]
        cp.parse_declare_statement = saved[7]


def clean_declare(d):
    return "#" not in d and "\n" not in d and d.strip() != "" and d == d.strip()


def check_docs(res, drv, docs, tag):
    """docs: iterable of (declare line, substituted document text)"""
    todo = []
    for d, t in docs:
        if not (is_ascii(d) and is_ascii(t)):
            res.count("%s:doc:non-ascii-skipped" % tag)
        elif not clean_declare(d):
            res.count("%s:doc:unclean-declare-skipped" % tag)
        else:
            todo.append((d, t))
    resps = drv.call_many([{"op": "parse-comp-doc", "text": t, "declare": d} for d, t in todo])
    bad = 0
    with instrumented() as cpr:
        for (d, t), resp in zip(todo, resps):
            real = real_doc(cpr, d, t)
            model = _model_of(resp)
            res.disagreements_checked += 1
            res.programs += 1
            res.count("%s:doc:%s" % (tag, "accepted" if real is not None else "rejected"))
            if real is not None:
                res.count("%s:doc:statements" % tag, len(real["stmts"]))
            if real != model:
                bad += 1
                res.corr_breaks.append({"name": "ParseComp.doc", "input": {"declare": d, "text": t, "tag": tag},
                                        "model": model, "impl": real})
    return bad


# ------------------------------------------------------------------------------------------ generators

NAMES = ["a", "b", "x1", "S-1", "_t", "toe", "domains", "k", "nt", "domain", "sequence", "d", "H", "U3", "5", "-", "_Anon0",
         "Gate_out", "s2-b", "A", "B2", "in", "strand", "dummy", "e", "E1", "no", "M"]
BODIES = ["5N", "N", "?N", "3S 2W", "ACGT", "2N?S", "7", "N N", " 4N ", "0N", "N2", "?", "12N3S", "A_C", "n", "\t3N"]
OPTS = ["1", "1.5", "0", ".5", "5.", "1e3", "inf", "nan", "1_0", "007.50", "2", "10", "0.0", "3.25", "1E2", "Infinity", "1.e1"]
BADNUMS = [".", "1.2.3", "e", "1e", "e5", "..", "1__0", "_1", "1_", "1e1e1", "nt", "d", "1.5n", "infinit", "1._5", "na", "1e+3", "-1", "1 5", ""]
KNUMS = ["100", "1000.5", "0", "25000", "0.25", "1e3", "1E5", ".5", "5.", "1.e2", "0.0", "00"]
STRUCTS = ["U3 H2(U4)", "U6 + U3", "H5(+)", "U2 H3(U4) U1", "..((..))", "3. 2( 4. 2)", "(+)", "((+))..", "5.", "2( 3. + 2) .", "H2(U3",
           "U3 ..", "U0", "H1(+)U2", "....", "( )", "3", "U", "H", "1.5", "((", "U3  H2( U4 )", "H2(H3(U4) + U1)", ".(.)+.."]
SPACES = [" "] * 12 + ["  ", "\t", " \t", "   ", "\t\t"] * 2 + ["\r", "\x0b", "\x0c", "\x1c", "\x1d", "\x1e", "\x1f", " \x1f ", "\n"]
ALPHA = list(" \t:=*\"()[]+->.<,#/_?") + list("0123456789") + list("adeEknstHUNMx") + ["\x1c", "\n", "\r", "domains(", "domain", "[dummy]", "nt", "no-opt", "/M/s"]


def _sp(rng, plain=False):
    return rng.choice(SPACES[:22]) if plain or rng.random() < 0.93 else rng.choice(SPACES)


def gen_item(rng):
    r = rng.random()
    if r < 0.35:
        body = rng.choice(BODIES) if rng.random() < 0.6 else progen.spell_parts(rng, progen.gen_parts(rng, allow_wild=True))
        return {"t": "nuc", "text": body}
    return {"t": "ref" if r < 0.8 else "dom", "name": rng.choice(NAMES), "star": rng.random() < 0.4}


def gen_stmt(rng):
    r = rng.random()
    if r < 0.3:
        return {"k": "seq", "name": rng.choice(NAMES), "items": [gen_item(rng) for _ in range(rng.randint(1, 4))],
                "len": rng.choice([None, None, 0, 5, 12, 100, "007"])}
    if r < 0.55:
        return {"k": "strand", "dummy": rng.random() < 0.3, "name": rng.choice(NAMES), "items": [gen_item(rng) for _ in range(rng.randint(1, 5))],
                "len": rng.choice([None, None, 0, 5, 12, 33])}
    if r < 0.8:
        return {"k": "struct", "opt": rng.choice([None, None, "no-opt", rng.choice(OPTS), rng.choice(OPTS)]), "name": rng.choice(NAMES),
                "strands": [rng.choice(NAMES) for _ in range(rng.randint(1, 3))], "domain": rng.random() < 0.3, "text": rng.choice(STRUCTS)}
    form = rng.choice(["none", "none", "gt", "lt", "both", "empty"])
    return {"k": "kinetic", "form": form, "low": rng.choice(KNUMS), "high": rng.choice(KNUMS),
            "ins": [rng.choice(NAMES) for _ in range(rng.randint(1, 3))], "outs": [rng.choice(NAMES) for _ in range(rng.randint(1, 3))]}


def render_stmt(rng, s):
    """free spacing wherever the regexes have a space; tokens as `progen.render_comp` spells them"""
    sp = lambda: _sp(rng)  # noqa: E731
    k = s["k"]
    if k in ("seq", "strand"):
        head = "sequence" if k == "seq" else "strand" + (sp() + "[dummy]" if s["dummy"] else "")
        line = head + sp() + s["name"] + sp() + "=" + sp()
        for n, i in enumerate(s["items"]):
            line += (sp() if n else "") + progen.render_item(i)
        if s["len"] is not None:
            line += sp() + ":" + sp() + str(s["len"])
        return line
    if k == "struct":
        opt = "" if s["opt"] is None else sp() + ("[no-opt]" if s["opt"] == "no-opt" else "[%snt]" % s["opt"])
        plus = lambda: rng.choice([sp() + "+" + sp(), " + ", "+", " +", "+ "])  # noqa: E731
        line = "structure" + opt + sp() + s["name"] + sp() + "=" + sp()
        for n, x in enumerate(s["strands"]):
            line += (plus() if n else "") + x
        return line + sp() + ":" + (sp() + "domain" if s["domain"] else "") + sp() + s["text"]
    form = s["form"]
    par = {"none": "", "empty": sp() + "[]",
           "gt": sp() + "[k" + sp() + ">" + sp() + s["low"] + sp() + "/M/s]",
           "lt": sp() + "[k" + sp() + "<" + sp() + s["high"] + sp() + "/M/s]",
           "both": sp() + "[" + s["low"] + sp() + "/M/s" + sp() + "<" + sp() + "k" + sp() + "<" + sp() + s["high"] + sp() + "/M/s]"}[form]
    plus = lambda: rng.choice([sp() + "+" + sp(), " + ", "+"])  # noqa: E731
    line = "kinetic" + par + sp()
    for n, x in enumerate(s["ins"]):
        line += (plus() if n else "") + x
    line += sp() + "->" + sp()
    for n, x in enumerate(s["outs"]):
        line += (plus() if n else "") + x
    return line


def gen_declare(rng):
    def port():
        return rng.choice(NAMES) + ("*" if rng.random() < 0.3 else "") + ("(%s)" % rng.choice(NAMES) if rng.random() < 0.3 else "")
    sp = lambda: _sp(rng, plain=rng.random() < 0.97)  # noqa: E731
    ps = [rng.choice(["n", "toe", "len1", "m_2"]) for _ in range(rng.choice([0, 0, 1, 2, 3]))]
    ptxt = "(" + rng.choice([", ", ",", " , "]).join(ps) + ")" if ps or rng.random() < 0.1 else ""
    plus = lambda: rng.choice([" + ", "+", sp() + "+" + sp()])  # noqa: E731
    ins = plus().join(port() for _ in range(rng.choice([0, 1, 1, 2, 3])))
    outs = plus().join(port() for _ in range(rng.choice([0, 1, 1, 2])))
    return "declare" + sp() + "component" + sp() + rng.choice(NAMES) + ptxt + ":" + rng.choice(["", " ", sp()]) + ins + sp() + "->" + rng.choice(["", " ", sp()]) + outs


def mutate(rng, line):
    r = rng.random()
    toks = re.findall(r"\s+|[^\s]+", line)
    if r < 0.22 and line:                                   # deletion
        i = rng.randrange(len(line))
        return line[:i] + line[i + 1:]
    if r < 0.44:                                            # insertion
        i = rng.randrange(len(line) + 1)
        return line[:i] + rng.choice(ALPHA) + line[i:]
    if r < 0.62 and line:                                   # substitution
        i = rng.randrange(len(line))
        return line[:i] + rng.choice(ALPHA) + line[i + 1:]
    if r < 0.70 and toks:                                   # doubled token
        i = rng.randrange(len(toks))
        return "".join(toks[:i + 1] + ([" "] if not toks[i].isspace() and rng.random() < 0.5 else []) + toks[i:])
    if r < 0.78 and toks:                                   # missing field
        i = rng.randrange(len(toks))
        return "".join(toks[:i] + toks[i + 1:])
    if r < 0.84:                                            # leading / trailing junk
        j = rng.choice([" ", "\t", "x", ":", "# c", " : 5", " ->", "]", "\"", " 7", "\x1c", "  "])
        return (j + line) if rng.random() < 0.4 else (line + j)
    if r < 0.89:                                            # quotes
        return line.replace('"' + (re.search(r'"([^"]*)"', line).group(1) if re.search(r'"([^"]*)"', line) else "") + '"',
                            rng.choice(['""', '"', '" "', '"-"', '"5N""3S"', '"5N"x', '"a-b"', '"5N', "'5N'"]), 1)
    if r < 0.94:                                            # domains( variants
        v = rng.choice(["domains(", "domains()", "domains(x", "domains(x)*", "domains(x**)", "domains (x)", "domains(x y)", "domains",
                        "domains(x)y", "xdomains(x)", "domains(x*)", "domains(\"5N\")", "domains(x))", "domain(x)", "domains(-)", "domains(*)"])
        m = re.search(r"=\s+", line)
        if m:
            return line[:m.end()] + v + rng.choice(["", " ", " a", " : 3"]) + (line[m.end():] if rng.random() < 0.5 else "")
        return line + " " + v
    # numbers
    bad = rng.choice(BADNUMS + OPTS)
    m = list(re.finditer(r"\[([\w.]+)nt\]|([\deE.]+)(?=\s+/M/s)|:\s+(\d+)\s*$", line))
    if m:
        mm = rng.choice(m)
        g = 1 if mm.group(1) is not None else 2 if mm.group(2) is not None else 3
        return line[:mm.start(g)] + bad + line[mm.end(g):]
    return line + " : " + bad


OTHER = ["super-sequence x = a b", "sup-sequence x = a b : 5", "equal a b", "foo bar", "sequence", "strand", "structure", "kinetic",
         "declare", "length n = 5", "component x = y: a -> b", "import z", "sequencex = \"5N\"", "structure[1nt] s = a : ..", "kinetic[k > 1 /M/s] A -> B",
         "", " ", "\t", "#", "# comment", "sequence x = \"5N\" # c", "kinetic A -> B # c", "kinetic A -> B -> C", "kinetic -> B", "kinetic  -> B",
         "kinetic A ->", "kinetic A -> ", "kinetic [k > 1 /M/s][x] A -> B", "kinetic [ k > 1 /M/s] A -> B", "kinetic [k > 1 /M/s ] A -> B",
         "structure s = a : domain", "structure s = a : domain domain ..", "structure s = a :  ..", "structure s = a + + b : ..",
         "structure s = : ..", "structure s =   : ..", "structure [nt] s = a : ..", "structure [ntnt] s = a : ..", "structure [dnt] s = a : ..",
         "structure [no-optnt] s = a : ..", "structure [5ntnt] s = a : ..", "structure [5nt]  [5nt] s = a : ..",
         "sequence x =   : 5", "sequence x = a : 5 : 6", "sequence x = a :5", "sequence x = a: 5", "sequence x = a : 5 5", "sequence x = a : ",
         "strand [dummy][dummy] x = a", "strand [dummy]x = a", "strand [dummy] = a", "strand [dummy] [dummy] = a", "strand x = = a",
         "declare component x: a -> b", "declare component x(a): y(s): -> z", "declare component x(a): y(s) -> z(t)", "declare component x(): -> ",
         "declare component x:->", "declare component x: ->", "declare component x : a -> b", "declare component x(a)(b): a -> b",
         "declare component x: a -> b -> c", "declare component x: a + + b -> c", "declare component x: a*(s) + b(s)* -> c",
         "declare  component\tx(n,m,): a* -> c(S-1)  ", "declare system x: a -> b", "declare component x: a\n -> b", "declare component x: a ->\n b"]


def gen_lines(rng, n):
    """mixed valid / malformed lines; the share of each stream is fixed, the content random"""
    out = []
    comps = []
    while len(out) < n:
        r = rng.random()
        if r < 0.30:
            base = render_stmt(rng, gen_stmt(rng))
        elif r < 0.36:
            base = gen_declare(rng)
        elif r < 0.46:
            if not comps:
                # statements of a typed random program, spelled by progen's own renderer
                ast = progen.CompGen(rng, name="G", size=rng.randint(4, 10)).build()
                comps = [re.sub(r"#.*", "", l) for l in progen.render_comp(ast, rng).split("\n")]
                comps = [l for l in comps if l.strip()]
            base = comps.pop()
            if rng.random() < 0.5:
                base = base.strip()
        elif r < 0.50:
            base = rng.choice(OTHER)
        else:
            src = rng.random()
            base = render_stmt(rng, gen_stmt(rng)) if src < 0.8 else gen_declare(rng) if src < 0.95 else rng.choice(OTHER)
            for _ in range(rng.choice([1, 1, 1, 2, 3])):
                base = mutate(rng, base)
        out.append(base)
    return out


def gen_docs(rng, n):
    docs = []
    for _ in range(n):
        k = rng.randint(0, 8)
        lines = gen_lines(rng, k) if rng.random() < 0.3 else [render_stmt(rng, gen_stmt(rng)) for _ in range(k)]
        body = []
        for l in lines:
            if rng.random() < 0.15:
                body.append(rng.choice(["", "  ", "\t", "\x1c"]))
            body.append(rng.choice(["", "", "", " ", "\t"]) + l + rng.choice(["", "", "", " ", "  \t"]))
        text = "\n".join(body) + rng.choice(["\n", "\n", "", "\n\n"])
        d = gen_declare(rng)
        if rng.random() < 0.1:
            d = mutate(rng, d)
        docs.append((d.strip(), text))
    return docs


# ------------------------------------------------------------------------------------------ repository examples

def example_docs():
    """(relative path, args, declare line, substituted document) for every .comp file under /repo/examples, as the real
    `load_component` sees them: captured from `process_list` while the corpus examples are compiled; files the corpus does
    not reach are substituted with 5 for every parameter"""
    import peppercompiler.component_parser as cp
    import peppercompiler.utils as utils
    from peppercompiler import compiler as pc
    exdir = os.path.join(core.REPO, "examples")
    corpus = json.load(open(os.path.join(core.CORPUS, "examples.json")))
    seen = {}
    orig_pl, orig_decl = cp.process_list, cp.parse_declare_statement
    cur = {}

    def decl(line):
        cur["declare"] = line
        return orig_decl(line)

    def pl(f, params):
        doc = orig_pl(f, params)
        key = (os.path.relpath(os.path.abspath(f.name), exdir), tuple(sorted((k, repr(v)) for k, v in params.items() if k != "__builtins__")))
        seen.setdefault(key, (cur.get("declare"), doc))
        return doc
    cwd = os.getcwd()
    failures = []
    utils.DEBUG = False
    try:
        cp.process_list, cp.parse_declare_statement = pl, decl
        for rel, args in corpus:
            d = os.path.join(exdir, os.path.dirname(rel))
            with core.scratch("pepper_pc_") as tmp:
                os.chdir(d)
                try:
                    with core.quiet():
                        pc.compiler(os.path.basename(rel).rsplit(".", 1)[0], list(args), os.path.join(tmp, "o.pil"), os.path.join(tmp, "o.save"), None, True, None)
                except BaseException as e:  # noqa
                    if isinstance(e, KeyboardInterrupt):
                        raise
                    failures.append(rel)
                finally:
                    os.chdir(cwd)
    finally:
        cp.process_list, cp.parse_declare_statement = orig_pl, orig_decl
        os.chdir(cwd)
    out = [(k[0], k[1], v[0], v[1]) for k, v in seen.items()]
    reached = {k[0] for k in seen}
    for root, _, files in os.walk(exdir):
        for fn in sorted(files):
            rel = os.path.relpath(os.path.join(root, fn), exdir)
            if not fn.endswith(".comp") or rel in reached:
                continue
            with open(os.path.join(root, fn)) as f:
                line = ""
                for line in f:
                    line = re.sub(r"#.*\n", "", line).strip()
                    if line:
                        break
                try:
                    with core.quiet():
                        names = orig_decl(line)[1]
                        doc = orig_pl(f, {n: 5 for n in names})
                    out.append((rel, ("unreached",), line, doc))
                except BaseException as e:  # noqa
                    if isinstance(e, KeyboardInterrupt):
                        raise
                    out.append((rel, ("unreadable",), line, None))
    return out, failures


# ------------------------------------------------------------------------------------------ own use

def main(argv):
    n = int(argv[1]) if len(argv) > 1 else 20000
    seed = int(argv[2]) if len(argv) > 2 else 0
    res = core.Result("ParseComp")
    drv = core.Driver()
    rng = core.rng_for(seed, "parsecomp")
    bad = 0
    done = 0
    while done < n:
        m = min(20000, n - done)
        lines = gen_lines(rng, m)
        bad += check_lines(res, drv, lines, "gen")
        # the same lines (those without a newline) as one-line documents and grouped documents, through the real loop
        one = [l for l in lines[:m // 10] if "\n" not in l]
        bad += check_docs(res, drv, [("declare component X: ->", l) for l in one], "one-line")
        bad += check_docs(res, drv, gen_docs(rng, m // 20), "gen-doc")
        done += m
        print("… %d lines, %d disagreements" % (done, bad), flush=True)
    ex, failures = example_docs()
    exl = 0
    for rel, args, d, doc in ex:
        if doc is None:
            res.count("example:unreadable")
            print("example not readable:", rel)
            continue
        bad += check_docs(res, drv, [(d, doc)], "example")
        ls = [re.sub(r"#.*\n", "", l).strip() for l in doc.split("\n")]
        ls = [l for l in ls if l]
        exl += len(ls)
        bad += check_lines(res, drv, ls + [d], "example")
    print("examples: %d component instantiations (%d files), %d lines; corpus entries that failed to compile: %s" % (
        len(ex), len({e[0] for e in ex}), exl, failures))
    for k in sorted(res.distribution):
        print("  %-55s %d" % (k, res.distribution[k]))
    print("compared: %d   disagreements: %d" % (res.disagreements_checked, bad))
    for b in res.corr_breaks[:25]:
        print(json.dumps(b, default=str))
    return 0 if bad == 0 else 1


if __name__ == "__main__":
    sys.exit(main(sys.argv))
