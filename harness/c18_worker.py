"""Subprocess worker for C18: optionally compiles some other programs first (history), then compiles the target
with paths relative to the current directory; prints JSON {ok, text, anon_before}."""
import contextlib, io, json, os, sys, warnings
warnings.filterwarnings("ignore")
sys.path.insert(0, os.environ.get("PEPPER_REPO", "/repo"))
_job0 = json.loads(sys.argv[1])
_home0 = os.getcwd()
if _job0.get("import_from"):
    os.chdir(_job0["import_from"])      # the package is imported while the process is in ANOTHER project's directory (a batch driver)
from peppercompiler import compiler as pc
os.chdir(_home0)
from peppercompiler import DNA_classes

def comp(entry, out, save, synth, includes, fixed=None, args=()):
    so, se = io.StringIO(), io.StringIO()
    try:
        with contextlib.redirect_stdout(so), contextlib.redirect_stderr(se):
            pc.compiler(entry, list(args), out, save, fixed, synth, includes or None)
        return True
    except BaseException as e:
        return False

job = json.loads(sys.argv[1])
home = os.getcwd()
for h in job["history"]:
    if h.get("cwd"):
        os.chdir(h["cwd"])     # an earlier compile of ANOTHER project from its own directory (same relative file names)
    # "share": the caller's script hands ONE include-list object to every compile (its entries follow those of the earlier project)
    comp(h["entry"], h["out"], h["save"], True, job["includes"] if h.get("share") else h["includes"], None, h.get("args", ()))
    os.chdir(home)
before = DNA_classes.AnonymousSequence.num
ok = comp(job["entry"], job["out"], job["save"], job["fmt"] == "pil", job["includes"], job.get("fixed"))
text = open(job["out"]).read() if ok else None
print(json.dumps({"ok": ok, "text": text, "anon_before": before}))
