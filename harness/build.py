#!/venv/bin/python
"""build.py --setup : offline build of everything the checks need (tables, Lean library, driver)."""
import os, subprocess, sys
HERE = os.path.dirname(os.path.abspath(__file__))
sys.path.insert(0, HERE)
import core
from extract_tables import regenerate

def main():
    with core.locked():
        try:
            regenerate()
        except Exception as e:
            print("table extraction failed (reported by the checks):", e)
        # the driver first: a failing proof module must not prevent it from being built
        subprocess.call(["lake", "build", "pepperd"], cwd=core.LEAN)
        props = sorted(f[:-5] for f in os.listdir(os.path.join(core.LEAN, "PepperProps")) if f.endswith(".lean"))
        for pmod in props:
            rc = subprocess.call(["lake", "build", "PepperProps." + pmod], cwd=core.LEAN)
            print("built PepperProps.%s rc=%d" % (pmod, rc), flush=True)
    return 0

if __name__ == "__main__":
    sys.exit(main())
