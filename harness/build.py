#!/venv/bin/python
"""build.py --setup : offline build of everything the checks need (tables, Lean library, driver)."""
import os, subprocess, sys
HERE = os.path.dirname(os.path.abspath(__file__))
sys.path.insert(0, HERE)
import core
from extract_tables import regenerate

def main():
    with core.locked():
        try:
            regenerate()
        except Exception as e:
            print("table extraction failed (reported by the checks):", e)
        rc = subprocess.call(["lake", "build"], cwd=core.LEAN)
        if rc != 0:
            # a failing proof module must not prevent the driver from being built
            subprocess.call(["lake", "build", "pepperd"], cwd=core.LEAN)
    return 0

if __name__ == "__main__":
    sys.exit(main())
