"""C01 — compiled PIL preserves each component's strands, structures and constraints.

Theorems: PepperProps/C01.lean over PepperModel/{Constraint,Comp,Denote,Pil}.lean.
Correspondence: real `compiler(..., synth=True)` vs model op `compile` on generated component programs
(text rendered for the real compiler, AST for the model); compared as token lines + anonymous counter.
Oracle (decides violations): canon(Pil.denote(read_pil(impl's .pil))) == canon(denoteSrc(AST))."""
import re

import core
from core import Result
import progen
import compile_check

LEVEL = "proof"
LEVEL_NOTE = ("theorems about the AST-level model; the statement-level regex parser of .comp text is on the implementation side of the "
              "correspondence (programs are rendered from ASTs)")
replay = compile_check.replay


def domain_shift_bundle(rng):
    """a domain-level structure over a strand with a zero-length item BEFORE a paired domain, with lengths chosen so that the
    symbols shifted by one item would still balance (|l| == |w|): `strand s = clamp x y l y* w`, `domain ..(.).`"""
    import srcparse
    ll = rng.randint(2, 5)
    lx, ly = rng.randint(1, 4), rng.randint(2, 6)
    zero = rng.choice(['sequence clamp = "0S"', 'sequence clamp = "0N"', 'sequence clamp = "?N" : 0'])
    pos = rng.choice([0, 1, 2])
    items = ["x", "y", "l", "y*", "w"]
    syms = [".", "(", ".", ")", "."]
    items.insert(pos, "clamp" + rng.choice(["", "*"])); syms.insert(pos, ".")
    text = ('declare component hp: -> \n%s\nsequence x = "%dN"\nsequence y = "%dN"\nsequence l = "%dN"\nsequence w = "%dN"\n'
            'strand s = %s\nstructure [%s] Hp = s : domain %s\n' % (zero, lx, ly, ll, ll, " ".join(items), rng.choice(["1nt", "no-opt", "2.5nt"]), "".join(syms)))
    with core.scratch("pepper_c01d_") as d:
        with open(d + "/top.comp", "w") as f:
            f.write(text)
        return srcparse.bundle_from_dir(d, "top", [])


def run(st, tier, seed):
    res = Result("C01")
    res.rule = ("typed generator of component programs: domains with lengths 0..10 over all 15 codes, multipliers, one wildcard, "
                "declared lengths, nested super-sequences, stars, domains(), quoted anonymous regions, dummy strands, structures in "
                "HU / run-length / plain / domain-level notation with satisfiable pairings, [no-opt]/[k nt], kinetics, comments, free "
                "spacing, late definitions; non-trivial = at least 3 statements; distinct by source text")
    rng = core.rng_for(seed, "c01")
    n = 300 if tier == "quick" else 6000
    bundles = []
    for i in range(n):
        size = rng.choice([2, 4, 6, 8, 10, 12]) if tier == "quick" else rng.choice([2, 4, 8, 12, 20, 40, 60])
        bundles.append(("c%d" % i, progen.gen_component_bundle(rng, size=size, satisfiable=rng.random() < 0.7)))
    for k in range(12 if tier == "quick" else 300):
        bundles.append(("dshift%d" % k, domain_shift_bundle(rng)))
    res.count("directed:zero-length-item-before-paired-domain-under-domain-structure", 12 if tier == "quick" else 300)
    exb = compile_check.example_bundles(rng, 15 if tier == "quick" else 200, "comp")
    res.count("repository-examples", len(exb))
    bundles += exb
    compile_check.run_bundles(st, res, bundles, "C01", "component")
    res.programs = len(bundles)
    # text level: the model of the .comp statement parsers (PepperModel/ParseComp.lean, theorems PepperProps/ParseComp.lean)
    # against the real regex parsers and the real load_component loop
    if st.driver_ok:
        import parsecorr_comp
        drv = core.Driver()
        quick = tier == "quick"
        parsecorr_comp.check_lines(res, drv, parsecorr_comp.gen_lines(rng, 2500 if quick else 80000), "text")
        parsecorr_comp.check_docs(res, drv, parsecorr_comp.gen_docs(rng, 150 if quick else 5000), "text-doc")
        # the generated programs themselves, as text (no template parameters: the file is its own substituted document)
        docs = []
        for _, b in bundles[:80 if quick else 3000]:
            if b is None or getattr(b, "args", None):
                continue
            for k, t in sorted(b.texts.items()):
                if k.endswith(".comp"):
                    lines_ = [l for l in t.split("\n") if l.split("#")[0].strip()]
                    if lines_:
                        docs.append((lines_[0].split("#")[0].strip(), "".join(re.sub(r"#.*", "", l) + "\n" for l in t.split("\n")[t.split("\n").index(lines_[0]) + 1:])))
        parsecorr_comp.check_docs(res, drv, docs[:120 if quick else 4000], "text-bundle")
        if not quick:
            parsecorr_comp.check_docs(res, drv, [(d, t) for _, _, d, t in parsecorr_comp.example_docs()[0] if t is not None], "text-examples")
    return res
