"""C15 — over-constrained specifications are reported, not passed on.

Theorems: PepperProps/C15.lean (error_iff_unsat core over the closure the model computes; satisfiability of the denoted
design).  Correspondence: exception class of the real Convert(...).get_constraints() vs error class of the model op
`pil-constraints`; the specification-side decision procedure `satisfiable` vs the independent Python oracle.
Oracle on the real code: pilgen.oracle decides satisfiability from the semantic definitions (union-find with parity +
template intersection per class); unsatisfiable => the real call must raise, satisfiable => it must not raise
ValueError (from propagate_templates) / KeyError."""
import json
import os

import core
import pilgen
from core import Result

LEVEL = "proof"
LEVEL_NOTE = ("error <-> unsatisfiable is a theorem for both layouts (struct: every non-empty strand placed), incl. totality "
              "of the seeding; the model<->code tie is validated by correspondence")


def check_doc(res, d, stmts, text, meta, reqs, expect):
    fn = os.path.join(d, "doc.pil")
    with open(fn, "w") as f:
        f.write(text)
    try:
        pilgen.denote(stmts)
    except pilgen.IllFormed:
        return
    sat = None
    for layout in ("strand", "struct"):
        res.evaluations += 1
        o = pilgen.oracle(stmts, layout)
        r = pilgen.impl_constraints(fn, layout)
        sat = o[0] != "unsat"
        cmd = "peppercompiler.design.constraint_load.Convert(file, %r).get_constraints()" % (layout == "struct")
        inp = {"text": text, "layout": layout, "tricks": meta.get("tricks"), "path": meta.get("path")}
        res.count("%s:%s" % (layout, o[0] if o[0] != "unsat" else "unsat:" + o[1]))
        res.count("impl:" + ("ok" if "ok" in r else r["err"]))
        if o[0] == "unsat":
            res.nontriv([text, layout])
            if "ok" in r:
                res.violations.append({"what": "unsatisfiable specification (%s) was passed on as constraint arrays" % o[1],
                                       "input": inp, "observed": r["ok"], "expected": "an error",
                                       "sig": "C15:passed-on", "cmd": cmd})
        else:
            if meta.get("tricks"):
                res.nontriv([text, layout])
            # ("load": the document is well formed by construction, so a refusal while it is being read is a refusal of a satisfiable
            #  specification too - e.g. an `equal x x*` over an even-length region is a palindromic site, not an over-constraint)
            if "err" in r and r["err"] in ("overconstrained", "keyError", "valueError", "load"):
                res.violations.append({"what": "satisfiable specification rejected (%s)" % r["err"], "input": inp,
                                       "observed": r, "expected": "constraint arrays", "sig": "C15:false-error", "cmd": cmd})
        reqs.append({"op": "pil-constraints", "stmts": stmts, "layout": layout})
        expect.append(("Convert.get_constraints/" + layout, r))
        if len(res.samples) < 4 and o[0] == "unsat" and len(text) < 700:
            res.sample({"text": text, "layout": layout, "oracle": list(o), "impl": r})
    if len(text) < 2500:
        reqs.append({"op": "satisfiable", "stmts": stmts})
        expect.append(("LinkSpec.satisfiableB", {"ok": bool(sat)}))


DIRECTED = [
    # F8: a position forced complementary to itself (hairpin pairing a domain of odd length with itself)
    ("sequence a = NNNNN : 5\nstrand A = a a : 10\nstructure [1nt] H = A : ((((()))))\n", "selfpair-odd"),
    # even length: satisfiable
    ("sequence a = NNNN : 4\nstrand A = a a : 8\nstructure [1nt] H = A : (((())))\n", "selfpair-even"),
    # a strand paired with its own copy (homodimer): odd length pairs the middle position with itself
    ("sequence a = NNNNN : 5\nstrand A = a : 5\nstructure D = A + A : (((((+)))))\n", "homodimer-odd"),
    ("sequence a = NNNN : 4\nstrand A = a : 4\nstructure D = A + A : ((((+))))\n", "homodimer-even"),
    ("sequence a = NNN : 3\nsequence b = NN : 2\nstrand A = a b : 5\nstructure D = A + A : ..(..+..)..\n", "homodimer-middle-only"),
    ("sequence p = NNN : 3\nstrand P = p : 3\nstructure P1 = P : ...\nequal p p*\n", "palindrome-odd"),
    # F5: D meets V -> R, B meets H -> Y (satisfiable)
    ("sequence a = DDD : 3\nsequence b = VVV : 3\nstrand A = a b : 6\nstructure S = A : ......\nequal a b\n", "D-V"),
    ("sequence a = BBB : 3\nsequence b = HHH : 3\nstrand A = a b : 6\nstructure S = A : ......\nequal a b\n", "B-H"),
    # direct template conflict over one equal link, and over a base pair
    ("sequence a = AAA : 3\nsequence b = CCC : 3\nstrand A = a b : 6\nstructure S = A : ......\nequal a b\n", "conflict-equal"),
    ("sequence a = A : 1\nsequence b = G : 1\nstrand A = a b : 2\nstructure S = A : ()\n", "conflict-pair"),
    ("sequence a = A : 1\nsequence b = T : 1\nstrand A = a b : 2\nstructure S = A : ()\n", "pair-ok"),
    # conflict on a sequence that is in no strand at all
    ("sequence a = A : 1\nsequence b = C : 1\nsequence c = N : 1\nstrand A = c : 1\nstructure S = A : .\nequal a b\n", "conflict-unused"),
]


def run(st, tier, seed):
    res = Result("C15")
    res.rule = ("PIL documents from pilgen.gen_doc biased to the boundary: template conflicts across equal/complementary paths of "
                "length 1-6 (random documents and dedicated chains of 1..6 hops), odd cycles (hairpin pairing a domain with itself, odd palindromes, forced odd links), near-conflicts "
                "that stay satisfiable, D/V and B/H meetings; plus directed cases; both layouts. non-trivial = unsatisfiable "
                "document, or satisfiable document carrying a boundary trick; distinct by (text, layout)")
    rng = core.rng_for(seed, "c15")
    n_docs = 300 if tier == "quick" else 10000
    reqs, expect = [], []
    with core.scratch("pepper_c15_") as d:
        for text, tag in DIRECTED:
            stmts = pilgen.read_pil(text)
            res.count("directed:" + tag)
            check_doc(res, d, stmts, text, {"tricks": [tag]}, reqs, expect)
        for hops in range(1, 7):
            for kind in ("conflict", "near", "free"):
                for _ in range(3 if tier == "quick" else 40):
                    stmts, meta = pilgen.gen_chain(rng, hops, kind)
                    text = pilgen.render(stmts, rng, "free")
                    res.count("chain:%s:path-length-%d" % (kind, hops))
                    check_doc(res, d, stmts, text, meta, reqs, expect)
        for i in range(n_docs):
            size = pilgen.sizes_for(tier, rng)
            bias = rng.choice(["unsat", "unsat", "boundary", "boundary", "sat", "mixed"])
            stmts, meta = pilgen.gen_doc(rng, size, bias)
            text = pilgen.render(stmts, rng, "free" if rng.random() < 0.7 else "emitted")
            if pilgen.canon_stmts(pilgen.read_pil(text)) != pilgen.canon_stmts(stmts):
                raise RuntimeError("harness: read_pil(render(stmts)) != stmts\n" + text)
            res.count("bias:" + meta["bias"])
            for t in meta["tricks"]:
                res.count("trick:" + t)
            if meta.get("path"):
                res.count("conflict-path-length:%d" % min(meta["path"], 7))
            check_doc(res, d, stmts, text, meta, reqs, expect)
    res.programs = len(reqs)
    if st.driver_ok:
        got = pilgen.call_parallel(reqs)
        for rq, (name, im), g in zip(reqs, expect, got):
            res.disagreements_checked += 1
            if pilgen.model_norm(g) != im:
                res.corr_breaks.append({"name": name, "input": rq, "model": g, "impl": im})
                if len(res.corr_breaks) > 5:
                    break
    return res


def replay(path):
    with open(path) as f:
        body = json.load(f)
    print(json.dumps(body, indent=1)[:6000])
    inp = body.get("input") or {}
    if "text" not in inp:
        return 0
    stmts = pilgen.read_pil(inp["text"])
    res = Result("C15")
    with core.scratch("pepper_c15_") as d:
        check_doc(res, d, stmts, inp["text"], {}, [], [])
    for v in res.violations:
        print("STILL FAILING:", v["sig"], v["what"])
    return 1 if res.violations else 0
