"""C19 — bundled spuriousSSM returns a sequence obeying its constraints, safely, and stops by itself.

Theorems: PepperProps/C19.lean over PepperModel/Ssm.lean (constrain_good, mutate_preserves_good,
loop_preserves_good, final_check_passes, program_output_good, iteration_count, default_bmax_pos,
terminates, loop_exits, terminates_default).

Oracle (decides violations, applied to the REAL binary built from the working tree): exit code 0, no
"ERROR" on stderr, no sanitizer report, exactly one output line of the input length whose blanks are the
template's, whose bases lie in the template's sets and which obeys every eq and wc entry (checked with
the small independent tables below), and — for runs without imax/tmax — exit within a wall-clock cap.

Correspondence: the binary's verification trace (mutated index, new base, score comparison, sequence and
`bored` after every iteration) is replayed by the model (`ssm-replay`); the model must reproduce the
constrained start, every intermediate sequence, `bored`, the step at which the loop stops and the final
sequence; `ssm-params` must give the same Nfree and bmax; `ssm-check` must accept every generated triple.
Section [checked model]: the same traces go through the bounds-checked twin (`ssm-replay-checked`, PepperProps/C19Safe.lean),
which must stay in range and agree with the total model; a small out-of-contract stream compares the twin's `oob` with the
sanitizer build (evidence counts only)."""
import json
import os
import sys
import time
from concurrent.futures import ThreadPoolExecutor

import core
import ssm
from core import Result

LEVEL = "proof"
LEVEL_NOTE = ("PARTIAL: theorems cover the constraint/search-loop model for every consistent triple, every stream of random "
              "choices and every score function. Memory safety of the MODELLED part of the C text (constrain, "
              "constrain_single_fast, mutate incl. the freeloc[k] lookup, test_consistency incl. its message reads, the nq/nbp "
              "loops, the freeloc table, the oldS save/restore loops, main) is a theorem about the bounds-checked twin "
              "PepperModel/SsmChecked.lean: C19Safe.no_oob_under_contract (no out-of-range access for any consistent triple, "
              "start of length N, drawn indices k < Nfree, any comparison outcomes), C19Safe.checked_refines_total (an ok "
              "result is the total model's), with array extents taken as the logical N cells and int overflow ignored; the "
              "twin is replayed on every trace of the real binary. NOT a statement about any model: the loader, the "
              "floating-point scoring code (about 600 lines), randbasec's table read, output — covered by sanitizer runs of "
              "the real binary and by taking the score comparison as an input; tmax (wall clock) is not modelled")

# independent statement of the code sets (IUPAC), not taken from the implementation
SETS = {"A": "A", "C": "C", "G": "G", "T": "T", "R": "AG", "Y": "CT", "W": "AT", "S": "CG", "M": "AC", "K": "GT",
        "B": "CGT", "D": "AGT", "H": "ACT", "V": "ACG", "N": "ACGT"}
BCOMP = {"A": "T", "T": "A", "C": "G", "G": "C"}
CODES = sorted(SETS)


def code_compl(c):
    want = "".join(sorted(BCOMP[b] for b in SETS[c]))
    for k, v in SETS.items():
        if v == want:
            return k
    raise KeyError(c)


OPTION_SETS = [
    ("automatic", ["score=automatic"]),
    ("default", []),
    ("bonds-bmax20", ["score=bonds", "bmax=20"]),
    ("verboten-imax50", ["score=verboten", "imax=50"]),
    ("bmax5", ["bmax=5"]),
    ("bmult1-automatic", ["bmult=1", "score=automatic"]),
    ("spurious", ["score=spurious"]),
    # `bmult=0` with no other limit: the documented default rule gives bmax = 0 * classes + 1 = 1, the search stops at the first
    # unproductive step (seed c19-x dropped the `+ 1`: bmax = 0 means "no limit" and the search never ends)
    ("bmult0", ["bmult=0"]),
    # the number of match lengths the spurious score looks at (documented option; its tables are sized by it)
    ("range10-automatic-imax8", ["score=automatic", "spurious_range=10", "imax=8"]),
    ("range9-spurious-imax8", ["score=spurious", "spurious_range=9", "imax=8"]),
    ("range1-imax30", ["spurious_range=1", "imax=30"]),
]


def model_opts(opts):
    o = {"automatic": False, "imax": 0}
    for a in opts:
        if a == "score=automatic":
            o["automatic"] = True
        elif a.startswith("bmax="):
            o["bmax"] = int(a[5:])
        elif a.startswith("imax="):
            o["imax"] = int(a[5:])
        elif a.startswith("bmult="):
            o["bmult"] = int(a[6:])
    return o


# ---------------------------------------------------------------------------------------------
# generator of consistent triples
# ---------------------------------------------------------------------------------------------

class UF:
    """union-find with parity: parity 1 = complementary"""
    def __init__(self, items):
        self.p = {i: i for i in items}
        self.par = {i: 0 for i in items}

    def find(self, x):
        if self.p[x] == x:
            return x, 0
        r, q = self.find(self.p[x])
        self.p[x] = r
        self.par[x] ^= q
        return r, self.par[x]

    def union(self, a, b, parity):
        ra, pa = self.find(a)
        rb, pb = self.find(b)
        if ra == rb:
            return (pa ^ pb) == parity   # False: would make a class its own complement / contradict
        self.p[ra] = rb
        self.par[ra] = pa ^ pb ^ parity
        return True


def arrays_from(layout, uf, rng, freedom):
    """layout: list of chars, ' ' at blanks and anything else elsewhere -> (st, eq, wc)"""
    n = len(layout)
    pos = [i for i in range(n) if layout[i] != " "]
    comps = {}
    for i in pos:
        r, q = uf.find(i)
        comps.setdefault(r, ([], []))[q].append(i)
    eq = [0] * n
    wc = [-1] * n
    st = [" "] * n
    for r, sides in comps.items():
        # template code of side 0; side 1 carries the complementary code
        x = rng.random()
        if freedom == "fixed":
            c0 = rng.choice("ACGT")
        elif freedom == "free":
            c0 = "N"
        elif freedom == "codes":
            c0 = rng.choice(CODES)
        else:  # mixed: a per-triple probability of fixed / N / any code
            c0 = rng.choice("ACGT") if x < freedom[0] else ("N" if x < freedom[0] + freedom[1] else rng.choice(CODES))
        for q in (0, 1):
            if not sides[q]:
                continue
            rep = min(sides[q])
            other = min(sides[1 - q]) if sides[1 - q] else None
            code = c0 if q == 0 else code_compl(c0)
            for i in sides[q]:
                eq[i] = rep + 1
                wc[i] = -1 if other is None else other + 1
                st[i] = code
    return "".join(st), eq, wc


def gen_layout(rng, max_complexes, max_strands, max_len):
    strands = []   # (start, length)
    layout = [" "] * rng.choice([0, 0, 0, 0, 0, 1, 2])     # a layout may open with separators
    for c in range(rng.randint(1, max_complexes)):
        if c:
            layout += [" ", " "] + [" "] * rng.choice([0, 0, 0, 1])
        for s in range(rng.randint(1, max_strands)):
            if s:
                layout += [" "]
            elif c == 0 and layout:
                pass
            ln = rng.randint(1, max_len)
            strands.append((len(layout), ln))
            layout += ["x"] * ln
    return layout, strands


def gen_triple(rng, size):
    """random strands/complexes, helices (reverse-complementary segments), repeated segments, single links"""
    max_len = {"s": 6, "m": 14, "l": 30}[size]
    layout, strands = gen_layout(rng, {"s": 2, "m": 3, "l": 4}[size], {"s": 2, "m": 3, "l": 4}[size], max_len)
    n = len(layout)
    pos = [i for i in range(n) if layout[i] != " "]
    uf = UF(pos)
    style = rng.random()
    nseg = 0 if style < 0.1 else rng.randint(1, 2 + len(strands))
    for _ in range(nseg):
        (a0, al), (b0, bl) = rng.choice(strands), rng.choice(strands)
        k = rng.randint(1, min(al, bl))
        a = a0 + rng.randint(0, al - k)
        b = b0 + rng.randint(0, bl - k)
        comp = rng.random() < 0.6
        for d in range(k):
            i, j = a + d, (b + k - 1 - d if comp else b + d)
            uf.union(i, j, 1 if comp else 0)   # a contradictory link is simply skipped
    for _ in range(rng.choice([0, 0, 1, 3]) if pos else 0):
        uf.union(rng.choice(pos), rng.choice(pos), rng.randint(0, 1))
    fr = rng.random()
    if fr < 0.12:
        freedom = "fixed"
    elif fr < 0.3:
        freedom = "free"
    elif fr < 0.5:
        freedom = "codes"
    else:
        a = rng.random() * 0.6
        freedom = (a, rng.random() * (1 - a))
    return arrays_from(layout, uf, rng, freedom)


def gen_tiny(rng):
    """directed tiny triples: N = 1..12, arbitrary blank layout (last position non-blank), arbitrary links,
    all 15 codes"""
    n = rng.randint(1, 12)
    layout = ["x" if rng.random() < 0.75 else " " for _ in range(n)]
    layout[-1] = "x"
    pos = [i for i in range(n) if layout[i] != " "]
    uf = UF(pos)
    for _ in range(rng.randint(0, n)):
        uf.union(rng.choice(pos), rng.choice(pos), rng.randint(0, 1))
    return arrays_from(layout, uf, rng, rng.choice(["fixed", "free", "codes", "codes", (0.3, 0.3)]))


def class_reps(st, eq, wc):
    return [i for i in range(len(st)) if eq[i] == i + 1 and (wc[i] > i + 1 or wc[i] == -1)]


def gen_start(rng, st, eq, wc):
    """an admissible `sequence=` file: blank at blanks, an allowed base at every position constrain copies
    from, anything elsewhere"""
    reps = set(class_reps(st, eq, wc))
    out = []
    for i, c in enumerate(st):
        if c == " ":
            out.append(" ")
        elif i in reps:
            out.append(rng.choice(SETS[c]))
        else:
            out.append(rng.choice("ACGT"))
    return "".join(out)


def consistent(st, eq, wc):
    """the documented contract, stated independently (used to validate the generator itself)"""
    n = len(st)
    if n == 0 or len(eq) != n or len(wc) != n or st[-1] == " ":
        return False
    for i in range(n):
        if (st[i] == " ") != (eq[i] == 0):
            return False
        if st[i] == " ":
            if wc[i] != -1:
                return False
            continue
        if st[i] not in SETS:
            return False
        r = eq[i] - 1
        if not (0 <= r <= i) or eq[r] != eq[i] or st[r] != st[i] or wc[r] != wc[i]:
            return False
        if wc[i] != -1:
            w = wc[i] - 1
            if not (0 <= w < n) or eq[w] != w + 1 or wc[w] != eq[i] or wc[i] == eq[i] or st[i] != code_compl(st[w]):
                return False
    return True


# ---------------------------------------------------------------------------------------------
# oracle
# ---------------------------------------------------------------------------------------------

def check_output(st, eq, wc, stdout):
    """-> (sig, what) of the first violated clause or None"""
    lines = stdout.split("\n")
    if lines and lines[-1] == "":
        lines.pop()
    n = len(st)
    if len(lines) != 1:
        return "C19:output-shape", "expected exactly one output line, got %d" % len(lines)
    s = lines[0]
    if len(s) != n:
        return "C19:output-shape", "output has length %d, input length is %d" % (len(s), n)
    for i in range(n):
        if (s[i] == " ") != (st[i] == " "):
            return "C19:output-blanks", "position %d: blank in output/template only" % (i + 1)
    for i in range(n):
        if st[i] != " " and s[i] not in SETS[st[i]]:
            return "C19:output-template", "position %d: base %s not in the set of template code %s" % (i + 1, s[i], st[i])
    for i in range(n):
        if eq[i] != 0 and s[i] != s[eq[i] - 1]:
            return "C19:output-eq", "position %d (%s) differs from eq position %d (%s)" % (i + 1, s[i], eq[i], s[eq[i] - 1])
        if wc[i] != -1 and s[i] != BCOMP.get(s[wc[i] - 1]):
            return "C19:output-wc", "position %d (%s) is not complementary to wc position %d (%s)" % (i + 1, s[i], wc[i], s[wc[i] - 1])
    return None


HASH_MOD = (1 << 61) - 1


def digest(states):
    h = 0
    for (_, _, bored, S) in states:
        hs = int.from_bytes(S.encode("latin1"), "big") % HASH_MOD
        h = (h * 1000003 + hs * 131 + 7 + bored) % HASH_MOD
    return h


def repro_cmd(case):
    return ("/venv/bin/python harness/check.py C19 --replay <this file>   # rebuilds the binary from $PEPPER_REPO, "
            "writes x.st/x.eq/x.wc and runs: spuriousSSM template=x.st wc=x.wc eq=x.eq %s%s with "
            "PEPPERCOMPILER_VERIF=1 PEPPERCOMPILER_VERIF_SEED=%d%s" % (
                "sequence=x.seq " if case.get("start") else "", " ".join(case["opts"]), case["seed"],
                " (sanitizer build)" if case["sanitize"] else ""))


def run_case(case, cap):
    t0 = time.time()
    r = ssm.run_ssm(case["st"], case["eq"], case["wc"], case["opts"], case["seed"], case["sanitize"],
                    start=case.get("start"), timeout=cap, spelling=case.get("spelling", "int"), trail=case.get("trail", 0), no_template=case.get("no_template", False))
    return r, time.time() - t0


def judge(case, r, res, confirm_cap):
    """apply the oracle to one run; returns the parsed trace (or None when the run is unusable for replay)"""
    rc, out, err, lines, timed_out = r
    inp = {k: case[k] for k in ("st", "eq", "wc", "opts", "seed", "sanitize", "start", "kind") if k in case}
    has_limit = any(a.startswith("imax=") or a.startswith("tmax=") for a in case["opts"])
    tr = ssm.parse_trace(lines)

    def viol(sig, what, observed=None, expected=None):
        res.violations.append({"what": what, "input": inp, "observed": observed, "expected": expected, "sig": sig,
                               "cmd": repro_cmd(case)})

    if timed_out:
        n = len(tr["states"])
        k = sum(1 for e in tr["events"] if e[2] < 0)
        bmax = tr["params"][2] if tr["params"] else None
        certain = bmax is not None and bmax > 0 and n > bmax * (k + 1)
        if not certain and confirm_cap:
            # fewer iterations than the stopping rule allows were seen: maybe just slow -> one longer run
            r2, _ = run_case(case, confirm_cap)
            if not r2[4]:
                res.count("slow-run-finished-on-retry")
                return judge(case, r2, res, 0)
            tr = ssm.parse_trace(r2[3])
            n = len(tr["states"]); k = sum(1 for e in tr["events"] if e[2] < 0)
        viol("C19:no-termination" if not has_limit else "C19:no-termination-imax",
             "spuriousSSM did not exit within the wall-clock cap" + ("" if not has_limit else " although imax was given"),
             observed={"iterations_seen": n, "strict_improvements_seen": k, "bmax": bmax,
                       "last_bored": tr["states"][-1][2] if tr["states"] else None,
                       "more_iterations_than_bmax*(k+1)": certain},
             expected="exit by the program's own stopping rule (at most bmax*(improvements+1) iterations)")
        return None
    if ssm.sanitizer_report(err):
        viol("C19:sanitizer", "sanitizer report (memory error / undefined behaviour)", observed=err[-1500:])
        return None
    if rc != 0:
        viol("C19:exit-code", "spuriousSSM exited with code %r on a consistent triple" % rc, observed=err[-800:], expected="exit code 0")
        return None
    if "ERROR" in err:
        viol("C19:stderr-error", "spuriousSSM printed ERROR on a consistent triple", observed=err[-800:])
        return None
    bad = check_output(case["st"], case["eq"], case["wc"], out)
    if bad:
        viol(bad[0], "output violates the constraints: " + bad[1], observed=out[-400:],
             expected="one line of length %d obeying template/eq/wc" % len(case["st"]))
    return tr


def replay_request(case, tr, compact=True):
    raw = bool(case.get("start"))
    return {"op": "ssm-replay", "st": case["st"], "eq": case["eq"], "wc": case["wc"],
            "start": case["start"] if raw else (tr["start"] or ""), "raw": raw,
            "events": [[i, b, c] for (i, b, c) in tr["events"]],
            "bmax": tr["params"][2], "imax": tr["params"][3], "compact": compact}


# ---------------------------------------------------------------------------------------------
# [checked model] — the bounds-checked twin (PepperModel/SsmChecked.lean, theorems PepperProps/C19Safe.lean)
# ---------------------------------------------------------------------------------------------
# (i)  every replayed trace of the real binary is also run through the checked model (`ssm-replay-checked`: constrainC,
#      testConsistencyC, freelocC, stepC/runC with the freeloc[k] lookup and the oldS copy loops): it must not report an
#      out-of-range access and must give the result of the total model — a difference is a correspondence break.
# (ii) a small stream of OUT-OF-CONTRACT triples which the C loader accepts syntactically is given to the sanitizer build and
#      to `ssm-program-checked`; "checked model says oob" against "sanitizer reports" is recorded as evidence counts only
#      (the real arrays are allocated 100+ cells longer than N, so the sanitizer cannot see an access into that padding;
#      a disagreement is neither a violation nor a correspondence break).

CHECKED_KEYS = ("constrained", "stopped_at", "stopped", "final", "consistent", "digest")


def checked_request(case, tr):
    r = replay_request(case, tr)
    r["op"] = "ssm-replay-checked"
    return r


def checked_compare(res, small, g_total, g_checked, nfree):
    """g_total: answer of ssm-replay, g_checked: answer of ssm-replay-checked on the same request"""
    res.disagreements_checked += 1
    res.count("checked-replay")
    okc = g_checked.get("ok") if isinstance(g_checked, dict) else None
    okt = g_total.get("ok") if isinstance(g_total, dict) else None
    if isinstance(okc, dict) and okc.get("oob") is not None:
        res.count("checked-replay:oob")
        res.corr_breaks.append({"name": "SsmChecked.replay:oob-on-consistent-triple", "input": small, "model": okc["oob"],
                                "impl": "real run finished without a sanitizer report"})
        return
    if isinstance(okc, dict) and isinstance(okt, dict):
        diff = {k: [okt.get(k), okc.get(k)] for k in CHECKED_KEYS if okt.get(k) != okc.get(k)}
        if okc.get("nfree") != nfree:
            diff["nfree"] = [nfree, okc.get("nfree")]
        if okc.get("runC_agrees") is not True:
            diff["runC_agrees"] = [True, okc.get("runC_agrees")]
        if diff:
            res.corr_breaks.append({"name": "SsmChecked.replay:differs-from-total-model", "input": small,
                                    "model": diff, "impl": "[total model, checked model]"})
    elif g_checked != g_total:      # both must reject the same way ({"err": …})
        res.corr_breaks.append({"name": "SsmChecked.replay:differs-from-total-model", "input": small,
                                "model": g_checked, "impl": g_total})


def gen_malformed(rng):
    """a consistent tiny triple, broken in one place; -> (kind, st, eq, wc, start)"""
    while True:
        st, eq, wc = gen_tiny(rng)
        pos = [i for i in range(len(st)) if st[i] != " "]
        if len(pos) >= 2:
            break
    n = len(st)
    eq, wc = list(eq), list(wc)
    kind = rng.choice(["control", "wc=N+1", "wc-huge", "eq=N+1", "eq-huge", "wc-in-range-wrong", "eq-in-range-wrong"])
    i = rng.choice(pos)
    if kind == "wc=N+1":
        wc[i] = n + 1
    elif kind == "wc-huge":
        wc[i] = rng.choice([5000, 100000, 3000000])
    elif kind == "eq=N+1":
        eq[i] = n + 1
    elif kind == "eq-huge":
        eq[i] = rng.choice([5000, 100000, 3000000])
    elif kind == "wc-in-range-wrong":
        wc[i] = rng.choice([p for p in pos]) + 1
    elif kind == "eq-in-range-wrong":
        eq[i] = rng.choice([p for p in pos]) + 1
    start = "".join(" " if c == " " else rng.choice("ACGT") for c in st)
    return kind, st, eq, wc, start


def malformed_section(res, drv, rng, n_cases):
    t0 = time.time()
    table = {}
    reqs, metas = [], []
    for _ in range(n_cases):
        kind, st, eq, wc, start = gen_malformed(rng)
        seed = rng.randrange(1, 1 << 40)
        rc, out, err, lines, timed_out = ssm.run_ssm(st, eq, wc, ["imax=3", "quiet=TRUE"], seed, True, start=start, timeout=10.0)
        san = ssm.sanitizer_report(err)
        tr = ssm.parse_trace(lines)
        reqs.append({"op": "ssm-program-checked", "st": st, "eq": eq, "wc": wc, "start": start, "imax": 3,
                     "automatic": False, "events": [[i, b, c] for (i, b, c) in tr["events"]]})
        metas.append((kind, san, rc, timed_out, out))
    got = drv.call_many(reqs) if reqs else []
    for (kind, san, rc, timed_out, out), rq, g in zip(metas, reqs, got):
        okc = g.get("ok") if isinstance(g, dict) else None
        if not isinstance(okc, dict):
            res.count("malformed:model-error")
            continue
        oob = okc.get("oob") is not None
        key = "malformed:%s:model-%s,sanitizer-%s" % (kind, "oob" if oob else "in-range", "report" if san else "silent")
        res.count(key)
        agree = "agree" if oob == san else ("model-oob-only" if oob else "sanitizer-only")
        res.count("malformed-agreement:" + agree)
        table[agree] = table.get(agree, 0) + 1
        if kind == "control":
            # the unbroken triple is inside the contract: T2 says the checked model cannot report oob, and the output of
            # the real run must be the checked model's
            res.disagreements_checked += 1
            line = out.split("\n")[0] if out else None
            if oob or san or okc.get("out") != line or okc.get("total") != line:
                res.corr_breaks.append({"name": "SsmChecked.program:control", "input": {k: rq[k] for k in ("st", "eq", "wc", "start", "events")},
                                        "model": okc, "impl": {"stdout": line, "sanitizer": san, "rc": rc}})
    res.extra["malformed_stream"] = {"cases": n_cases, "agreement": table, "wall_s": round(time.time() - t0, 1),
                                     "note": "evidence only: the sanitizer cannot see accesses into the 100+ cells of allocated padding"}
# ---------------------------------------------------------------------------------------------
# end of [checked model]
# ---------------------------------------------------------------------------------------------


def correspond(res, drv, batch):
    """batch: list of (case, trace, stdout)"""
    reqs = []
    for case, tr, out in batch:
        t = {"st": case["st"], "eq": case["eq"], "wc": case["wc"]}
        reqs.append(dict(op="ssm-check", **t))
        reqs.append(dict(op="ssm-params", **t, **model_opts(case["opts"])))
        if tr and tr["complete"] and tr["params"]:
            reqs.append(replay_request(case, tr))
            reqs.append(checked_request(case, tr))          # [checked model] (i)
    got = drv.call_many(reqs)
    gi = iter(got)
    for case, tr, out in batch:
        small = {k: case[k] for k in ("st", "eq", "wc", "opts", "seed", "start") if k in case}
        g = next(gi)
        res.disagreements_checked += 1
        if g != {"ok": True}:
            res.corr_breaks.append({"name": "Ssm.contractB", "input": small, "model": g, "impl": "generator: consistent triple"})
        g = next(gi)
        if tr and tr["params"]:
            res.disagreements_checked += 1
            n, nfree, bmax, imax, tmax = tr["params"]
            want = {"bmax": bmax, "nfree": nfree}
            have = {k: g.get("ok", {}).get(k) for k in want} if isinstance(g.get("ok"), dict) else g
            if have != want or n != len(case["st"]):
                res.corr_breaks.append({"name": "Ssm.effectiveBmax/freeLocs", "input": small, "model": g,
                                        "impl": {"N": n, "nfree": nfree, "bmax": bmax}})
        if tr and tr["complete"] and tr["params"]:
            g = next(gi)
            res.disagreements_checked += 1
            res.programs += 1
            final_line = out.split("\n")[0] if out else None
            want = {"constrained": tr["start"], "stopped_at": len(tr["events"]), "stopped": True, "final": tr["final"],
                    "consistent": True, "good": True, "digest": digest(tr["states"])}
            ok = isinstance(g.get("ok"), dict) and all(g["ok"].get(k) == v for k, v in want.items()) \
                and (final_line is None or g["ok"].get("final") == final_line)
            if not ok:
                detail = {"model": g, "impl": {k: want[k] for k in want if k != "digest"}}
                # locate the first differing iteration
                full = drv.call(replay_request(case, tr, compact=False))
                if isinstance(full.get("ok"), dict):
                    ms, mb = full["ok"].get("states", []), full["ok"].get("bored", [])
                    for idx, (step, c, bored, S) in enumerate(tr["states"]):
                        if idx >= len(ms) or ms[idx] != S or mb[idx] != bored:
                            detail["first_difference"] = {"iteration": idx + 1, "event": tr["events"][idx],
                                                          "impl": [S, bored],
                                                          "model": [ms[idx], mb[idx]] if idx < len(ms) else "model stopped"}
                            break
                res.corr_breaks.append(dict({"name": "Ssm.replay", "input": small}, **detail))
            checked_compare(res, small, g, next(gi), tr["params"][1])      # [checked model] (i)


def run(st, tier, seed):
    res = Result("C19")
    quick = tier == "quick"
    res.rule = ("consistent triples: random strand/complex layouts (1 blank between strands, 2 between complexes), classes "
                "from union-find with parity over helices (reverse-complementary segments), repeated segments and single "
                "links, templates from all 15 codes propagated over classes (complement on partner classes), fully fixed to "
                "fully free; directed tiny triples N=1..12 with arbitrary blank layouts; x 7 option sets (always quiet=TRUE); "
                "a quarter of the runs start from an explicit sequence= file; non-trivial = at least one free location and "
                "one eq class of >=2 positions or one wc pair; distinct by JSON of triple+options")
    rng = core.rng_for(seed, "c19")
    n_runs = 200 if quick else 2000
    n_tiny = 60 if quick else 500
    cap = 10.0 if quick else 60.0
    cases = []
    for i in range(n_runs):
        if i < n_tiny:
            t = gen_tiny(rng); kind = "tiny"
        else:
            size = rng.choice("ssmmml") if not quick else rng.choice("ssmmm")
            t = gen_triple(rng, size); kind = "layout-" + size
        name, opts = OPTION_SETS[i % len(OPTION_SETS)] if i < 2 * len(OPTION_SETS) else rng.choice(OPTION_SETS)
        case = {"st": t[0], "eq": t[1], "wc": t[2], "opts": list(opts) + ["quiet=TRUE"], "optname": name, "kind": kind,
                "seed": rng.randrange(1, 1 << 40),
                "sanitize": (not quick) or (i % 3 == 0)}
        if rng.random() < 0.25:
            case["start"] = gen_start(rng, *t)
        if rng.random() < 0.15:
            # the same triple with its numbers spelled as other tools write them (`17.0`, `1.7000000e+01`, padded): the loader reads
            # them with %lf, so these are the same consistent triple
            case["spelling"] = rng.choice(["point", "exp", "wide"])
            res.count("number-spelling:" + case["spelling"])
        if rng.random() < 0.1 and "start" not in case:
            case["trail"] = rng.randint(1, 3)       # the files also carry entries for 1-3 trailing blanks
            res.count("trailing-blank-entries")
        if "spurious_range" in " ".join(opts) and int(" ".join(opts).split("spurious_range=")[1].split()[0]) >= 9:
            case["sanitize"] = True
        if t[0][0] == " " or "   " in t[0] or len(t[0]) <= 2:
            case["sanitize"] = True        # edge layouts (opening separator, triple separator, N <= 2) always run under the sanitizers
            res.count("edge-layout")
        cases.append(case)
    # the generator itself must only emit consistent triples (independent statement of the contract)
    for c in cases:
        if not consistent(c["st"], c["eq"], c["wc"]):
            raise RuntimeError("generator produced an inconsistent triple: %r" % (c,))
    try:
        ssm.build(False); ssm.build(True)
    except ssm.BuildError as e:
        res.violations.append({"what": "spuriousSSM.c does not compile", "input": {"source": ssm.source_path()},
                               "observed": str(e)[-1500:], "sig": "C19:build", "cmd": "gcc -O2 spuriousSSM.c -lm"})
        return res
    res.extra["binary_source"] = ssm.source_path()
    res.extra["wall_clock_cap_s"] = cap
    drv = core.Driver() if st.driver_ok else None
    workers = 4 if quick else 8
    stop_sigs = {}
    t_runs = time.time()
    pending = []

    def flush():
        if drv and pending:
            correspond(res, drv, pending)
        del pending[:]

    with ThreadPoolExecutor(max_workers=workers) as pool:
        chunk = 2 * workers
        for lo in range(0, len(cases), chunk):
            part = cases[lo:lo + chunk]
            if any(v >= 3 for v in stop_sigs.values()):
                res.notes.append("stopped after %d of %d runs: three violations of one kind already recorded" % (lo, len(cases)))
                break
            results = list(pool.map(lambda c: run_case(c, cap), part))
            for case, (r, dt) in zip(part, results):
                res.evaluations += 1
                nv = len(res.violations)
                tr = judge(case, r, res, confirm_cap=cap * 3)
                for v in res.violations[nv:]:
                    stop_sigs[v["sig"]] = stop_sigs.get(v["sig"], 0) + 1
                key = {"st": case["st"], "eq": case["eq"], "wc": case["wc"], "opts": case["opts"]}
                nfree = len([i for i in class_reps(case["st"], case["eq"], case["wc"]) if case["st"][i] not in "ACGT"])
                linked = any(w != -1 for w in case["wc"]) or len(set(e for e in case["eq"] if e)) < sum(1 for e in case["eq"] if e)
                if nfree and linked:
                    res.nontriv(key)
                res.count("opts:" + case["optname"])
                res.count("kind:" + case["kind"])
                res.count("sanitized" if case["sanitize"] else "plain")
                res.count("N<=12" if len(case["st"]) <= 12 else "N<=40" if len(case["st"]) <= 40 else "N>40")
                res.count("nfree=0" if nfree == 0 else "nfree>0")
                if case.get("start"):
                    res.count("explicit-start-sequence")
                if tr:
                    it = len(tr["events"])
                    res.count("iterations:0" if it == 0 else "iterations:1-99" if it < 100 else
                              "iterations:100-999" if it < 1000 else "iterations:>=1000")
                    res.extra["max_iterations_seen"] = max(res.extra.get("max_iterations_seen", 0), it)
                res.extra["max_run_s"] = round(max(res.extra.get("max_run_s", 0), dt), 2)
                if nfree and linked and len(res.samples) < 4:
                    res.sample({k: case[k] for k in ("st", "eq", "wc", "opts", "seed")})
                pending.append((case, tr, r[1]))
            flush()
            if len(res.corr_breaks) > 5:
                break
    # one LARGE design (more than 4096 positions - several buffers of the program are sized in chunks), oracle only: its trace is not
    # replayed through the model (the list model is quadratic in the length)
    for _ in range(1 if quick else 4):
        L1, L2, h = rng.randint(2100, 2600), rng.randint(2100, 2600), rng.randint(8, 40)
        n_ = L1 + 1 + L2
        st_ = ["N"] * L1 + [" "] + ["N"] * L2
        eq_ = [i + 1 for i in range(L1)] + [0] + [L1 + 2 + i for i in range(L2)]
        wc_ = [-1] * n_
        for d_ in range(h):                      # a helix between the start of strand 1 and the end of strand 2
            i_, j_ = d_, n_ - 1 - d_
            wc_[i_], wc_[j_] = j_ + 1, i_ + 1
        big = {"st": "".join(st_), "eq": eq_, "wc": wc_, "opts": ["imax=3", "quiet=TRUE"], "optname": "large-imax3", "kind": "large",
               "seed": rng.randrange(1, 1 << 40), "sanitize": True}
        if not consistent(big["st"], big["eq"], big["wc"]):
            raise RuntimeError("generator produced an inconsistent large triple")
        r_, dt_ = run_case(big, max(cap, 60.0))
        res.evaluations += 1
        res.count("kind:large(>4096 positions)")
        nv_ = len(res.violations)
        judge(big, r_, res, 0)
        for v_ in res.violations[nv_:]:          # keep the replay file small
            if isinstance(v_.get("input"), dict) and "st" in v_["input"]:
                v_["input"] = dict(v_["input"], note="two strands of %d and %d N, helix of %d pairs between the start of the first and the end of the second" % (L1, L2, h))
    # the documented default template: started WITHOUT template= (and without sequence=) the program takes an all-N template of the
    # length of the wc/eq files; a single strand (no separators) of 120-400 positions with a hairpin, oracle only
    for _ in range(2 if quick else 10):
        n_, h = rng.randint(120, 400), rng.randint(4, 30)
        wc_ = [-1] * n_
        for d_ in range(h):
            wc_[d_], wc_[n_ - 1 - d_] = n_ - d_, d_ + 1
        nt = {"st": "N" * n_, "eq": [i + 1 for i in range(n_)], "wc": wc_, "opts": ["imax=5", "quiet=TRUE"], "optname": "no-template-imax5",
              "kind": "no-template", "seed": rng.randrange(1, 1 << 40), "sanitize": True, "no_template": True}
        if not consistent(nt["st"], nt["eq"], nt["wc"]):
            raise RuntimeError("generator produced an inconsistent template-less triple")
        r_, dt_ = run_case(nt, max(cap, 30.0))
        res.evaluations += 1
        res.count("kind:started-without-template=")
        judge(nt, r_, res, 0)
    res.extra["binary_runs_wall_s"] = round(time.time() - t_runs, 1)
    if drv:
        malformed_section(res, drv, rng, 14 if quick else 120)      # [checked model] (ii)
    return res


def replay(path):
    with open(path) as f:
        body = json.load(f)
    print(json.dumps({k: body[k] for k in body if k != "input"}, indent=1)[:3000])
    case = body.get("input")
    if not isinstance(case, dict) or "st" not in case:
        return 0
    case.setdefault("sanitize", False)
    r, dt = run_case(case, 60.0)
    rc, out, err, lines, timed_out = r
    print("rerun: rc=%r timed_out=%r wall=%.1fs\nstdout: %r\nstderr: %s" % (rc, timed_out, dt, out[-300:], err[-1500:]))
    res = Result("C19")
    judge(case, r, res, 0)
    for v in res.violations:
        print("STILL VIOLATED: %s — %s" % (v["sig"], v["what"]))
    return 1 if res.violations else 0
