"""C02 — system composition wires signals with the right orientation at any depth.

Oracle: canon(Pil.denote(impl's .pil)) == canon(denoteSys(bundle)) — instance prefixes, per-signal `equal`
members with reverse complement exactly when the stars on binding and declaration differ, nested systems;
import resolution: first matching file in the importing file's directory, then the include list in order."""
import os
import re

import core
from core import Result
import progen
import impl
import compile_check

LEVEL = "proof"
LEVEL_NOTE = "theorems about the AST-level model; system/component text parsers are on the implementation side of the correspondence"
replay = compile_check.replay


def shadowed(rng, b):
    """directed: put a decoy with the same base name as an imported template into another directory of the search
    path (later in the list), and one ambiguous / missing variant"""
    import copy
    b2 = copy.copy(b)
    b2.texts = dict(b.texts); b2.files = dict(b.files); b2.includes = list(b.includes)
    comps = [p for p in b.texts if p.endswith(".comp")]
    if not comps:
        return None
    p = rng.choice(comps)
    base = os.path.basename(p)
    decoy_dir = "zz_decoy"
    kind = rng.choice(["same", "other", "both"])
    # a decoy that would change the output if it were picked: an empty-ish component with other ports
    if kind in ("same", "both"):
        b2.texts[os.path.join(decoy_dir, base)] = "declare component Decoy: ->\nsequence q = \"3N\"\nstrand Q = q\n"
    # a decoy of the OTHER kind (X.sys for an imported X.comp, and for one imported .sys an X.comp) in the later directory: the
    # first directory that has X.sys or X.comp decides, so a nearer file of either kind wins over it
    if kind in ("other", "both"):
        b2.texts[os.path.join(decoy_dir, base[:-5] + ".sys")] = "declare system Decoy: ->\n"
        syss = [q for q in b.texts if q.endswith(".sys") and q != b.entry and os.path.basename(q) != os.path.basename(b.entry)]
        if syss:
            q = rng.choice(syss)
            b2.texts[os.path.join(decoy_dir, os.path.basename(q)[:-4] + ".comp")] = \
                "declare component Decoy3: ->\nsequence q = \"4W\"\nstrand Q = q\n"
    b2.includes = b2.includes + [decoy_dir]
    # a decoy beside the TOP importer for a template that a library system imports from its own directory by bare
    # name: the importing file's directory comes first, so the decoy must be ignored
    if os.path.dirname(p) and not os.path.exists(base) and base not in b2.texts:
        b2.texts[base] = "declare component Decoy2: ->\nsequence q = \"2S\"\nstrand Q = q\n"
    return b2


def check_nested_search_path(res, rng, n):
    """directed: a sub-system that lives in ANOTHER directory than its user imports a template by bare name that is missing from its own
    directory but exists (with other content) beside an ENCLOSING system and in an include directory.  The search path of an import is
    the importing file's directory, then the include directories in order - the directories of enclosing systems are not on it."""
    import impl
    for k in range(n):
        la, lb, lc = rng.sample([3, 4, 5, 6, 7, 8, 9], 3)
        leaf = lambda L: 'declare component Leaf: a -> b\nsequence a = "%dN"\nsequence b = "%dN"\nsequence m = "%dN"\nstrand S = a m b\nstructure T = S : %d.\n' % (4, 4, L, L + 8)
        b = progen.Bundle()
        sub = rng.choice(["sub", "parts/mid", "x"])
        b.texts["Leaf.comp"] = leaf(la)                      # beside the top system: must NOT be found by the sub-system
        b.texts["lib/Leaf.comp"] = leaf(lb)                  # on the include path: the one the sub-system must get
        b.texts["lib2/Leaf.comp"] = leaf(lc)                 # later on the include path
        b.texts[sub + "/Mid.sys"] = "declare system Mid: p -> q\nimport Leaf\ncomponent l = Leaf: p -> q\n"
        b.texts["Top.sys"] = "declare system Top: ->\nimport %s/Mid, Leaf\ncomponent m = Mid: s -> t\ncomponent own = Leaf: t -> u\n" % sub
        b.entry = "Top"; b.includes = ["lib", "lib2"]; b.directed = True
        r = impl.compile_bundle(b, "pil")
        res.evaluations += 1
        res.count("directed:sub-system-in-another-directory")
        inp = {"files": b.texts, "entry": "Top", "includes": b.includes}
        cmd = "pepper-compiler Top -I lib -I lib2"
        if not r["ok"]:
            res.violations.append({"what": "a well-formed nested system is rejected: %s" % r.get("exc"), "input": inp, "sig": "C02:rejects-valid", "cmd": cmd})
            continue
        got = {}
        for line in r["text"].split("\n"):
            mm = re.match(r"^sequence (\S+)-m = (N+)", line)
            if mm:
                got[mm.group(1)] = len(mm.group(2))
        want = {"m-l": lb, "own": la}
        if got != want:
            res.violations.append({"what": "an import resolves to another file than the first match in the importing file's directory and then the include directories: "
                                           "instance -> length of its marker sequence %r, expected %r (Leaf beside Top: %d, lib/Leaf: %d, lib2/Leaf: %d)" % (got, want, la, lb, lc),
                                   "input": inp, "observed": got, "expected": want, "sig": "C02:import-resolution", "cmd": cmd})


def dotdot_case(rng):
    """imports that climb out of the importing file's directory (`../lib/Gate`, `../../lib/Gate as G`), with decoy templates of
    the same name where a path stripped of its `../` would land.  Returns (bundle with the climbing spelling, bundle with the
    same files minus decoys where every import is a bare name found through one include directory)."""
    gate = progen.CompGen(rng, name="Gate", size=4, nports=(1, 1), port_lens=(5,)).build()
    decoy = progen.CompGen(rng, name="Gate", size=4, nports=(1, 1), port_lens=(7,)).build()
    gtxt, dtxt = progen.render_comp(gate, rng), progen.render_comp(decoy, rng)
    lib, proj, sub = rng.choice(["lib", "parts", "common"]), rng.choice(["proj", "design"]), rng.choice(["sub", "stage"])
    st1, st2 = rng.choice(["", "*"]), rng.choice(["", "*"])
    stage = "declare system Stage: p%s -> q\nimport %s as G\ncomponent u = G: p -> m%s\ncomponent v = G: m -> q\n"
    top = "declare system Top:  -> \nimport %s, %s\ncomponent g = Gate: x%s -> y\ncomponent st = Stage: y -> z%s\n"
    a = progen.Bundle()
    a.texts["%s/Gate.comp" % lib] = gtxt
    for where in ("%s/%s/Gate.comp" % (proj, lib), "%s/%s/%s/Gate.comp" % (proj, sub, lib), "inc/%s/Gate.comp" % lib, "inc/Gate.comp"):
        if rng.random() < 0.75:
            a.texts[where] = dtxt
    a.texts["%s/%s/Stage.sys" % (proj, sub)] = stage % (st1, "../../%s/Gate" % lib, st2)
    a.texts["%s/Top.sys" % proj] = top % ("../%s/Gate" % lib, "%s/Stage" % sub, st1, st2)
    a.entry = "%s/Top" % proj
    a.includes = ["inc"] if rng.random() < 0.6 else []
    a.directed = True
    b = progen.Bundle()
    b.texts["%s/Gate.comp" % lib] = gtxt
    b.texts["%s/%s/Stage.sys" % (proj, sub)] = stage % (st1, "Gate", st2)
    b.texts["%s/Top.sys" % proj] = top % ("Gate", "%s/Stage" % sub, st1, st2)
    b.entry = "%s/Top" % proj
    b.includes = [lib]
    b.directed = True
    return a, b


def run(st, tier, seed):
    res = Result("C02")
    res.rule = ("system generator: 1-4 instances per system over 2-3 generated component templates, signals bound to several ports by "
                "length class, stars on either side with probability 0.4, ports atomic / super-sequence / starred, systems used as "
                "components up to depth 3 (quick) / 4 (thorough), import aliases, sub-directories, shuffled include lists, decoy files "
                "later in the search path; non-trivial = at least 3 statements overall; distinct by source texts")
    rng = core.rng_for(seed, "c02")
    n = 120 if tier == "quick" else 3000
    bundles = []
    for i in range(n):
        b = progen.gen_system_bundle(rng, depth=rng.choice([1, 2, 2, 3, 3] if tier == "quick" else [1, 2, 3, 3, 4]), size=rng.choice([3, 5, 8]),
                                     n_templates=rng.randint(1, 3))
        if b is None:
            continue
        bundles.append(("s%d" % i, b))
        if rng.random() < 0.35:
            b2 = shadowed(rng, b)
            if b2 is not None:
                res.count("decoy-later-in-search-path")
                bundles.append(("s%d-decoy" % i, b2))
    exb = compile_check.example_bundles(rng, 15 if tier == "quick" else 200, "sys")
    res.count("repository-examples", len(exb))
    bundles += exb
    compile_check.run_bundles(st, res, bundles, "C02", "system", must_accept=True)
    check_nested_search_path(res, rng, 4 if tier == "quick" else 60)
    res.programs = len(bundles)
    # the same wiring in the other emitted specification (.des back-end): ports tied to their signals with the right orientation
    if st.driver_ok:
        from props import c03
        vs, ndes = c03.des_wiring_violations(core.Driver(), bundles, "C02", limit=60 if tier == "quick" else 1200)
        res.count("des-back-end", ndes)
        res.evaluations += ndes
        res.violations += vs
    # directed: `../` imports (outside the model, whose paths have no `..`): judged by a second spelling of the same program
    import impl
    for k in range(6 if tier == "quick" else 150):
        a, b2 = dotdot_case(rng)
        ra, rb = impl.compile_bundle(a, "pil"), impl.compile_bundle(b2, "pil")
        res.evaluations += 1
        res.count("directed:dotdot-imports")
        import re as _re
        body = lambda r_: [[_re.sub(r"_Anon(\d+)", lambda m: "_Anon^%d" % (int(m.group(1)) - r_["anon_before"]), t) for t in l] for l in r_["lines"]] if r_["ok"] else None
        if not rb["ok"]:
            continue
        if not ra["ok"] or body(ra) != body(rb):
            res.violations.append({"what": "an import that climbs out of the importing file's directory (../…) does not resolve relative to that directory: "
                                           + ("the program is rejected (%s)" % ra.get("stderr", "")[-160:] if not ra["ok"] else
                                              "the specification differs from the one compiled with the same template found by name through an include directory"),
                                   "input": {"files": a.texts, "entry": a.entry, "includes": a.includes}, "sig": "C02:dotdot-import",
                                   "cmd": "pepper-compiler %s %s" % (a.entry, " ".join("-I " + i for i in a.includes))})
    # text level: the model of the .sys statement parsers (PepperModel/ParseSys.lean, theorems PepperProps/ParseSys.lean) against
    # the real pyparsing grammars and the real load_system loop, on generated lines (valid + malformed), on the .sys files of
    # the generated bundles and of the repository examples
    if st.driver_ok:
        import parsecorr_sys
        drv = core.Driver()
        quick = tier == "quick"
        parsecorr_sys.check_lines(res, drv, parsecorr_sys.gen_lines(rng, 1200 if quick else 40000, res), "text")
        docs = [(t, None) for _, b in bundles[:60 if quick else 1500] if not getattr(b, "args", None)
                for k, t in sorted(b.texts.items()) if k.endswith(".sys")]
        parsecorr_sys.check_docs(res, drv, docs[:150 if quick else 4000], "text-bundle")
        parsecorr_sys.check_docs(res, drv, parsecorr_sys.gen_docs(rng, 100 if quick else 3000), "text-gen")
        parsecorr_sys.check_render(res, drv, parsecorr_sys.gen_asts(rng, 100 if quick else 2000), "text-render")
        if not quick:
            parsecorr_sys.check_docs(res, drv, [(t, a) for _, t, a in parsecorr_sys.example_docs()], "text-examples")
    return res
