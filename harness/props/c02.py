"""C02 — system composition wires signals with the right orientation at any depth.

Oracle: canon(Pil.denote(impl's .pil)) == canon(denoteSys(bundle)) — instance prefixes, per-signal `equal`
members with reverse complement exactly when the stars on binding and declaration differ, nested systems;
import resolution: first matching file in the importing file's directory, then the include list in order."""
import os

import core
from core import Result
import progen
import impl
import compile_check

LEVEL = "proof"
LEVEL_NOTE = "theorems about the AST-level model; system/component text parsers are on the implementation side of the correspondence"
replay = compile_check.replay


def shadowed(rng, b):
    """directed: put a decoy with the same base name as an imported template into another directory of the search
    path (later in the list), and one ambiguous / missing variant"""
    import copy
    b2 = copy.copy(b)
    b2.texts = dict(b.texts); b2.files = dict(b.files); b2.includes = list(b.includes)
    comps = [p for p in b.texts if p.endswith(".comp")]
    if not comps:
        return None
    p = rng.choice(comps)
    base = os.path.basename(p)
    decoy_dir = "zz_decoy"
    # a decoy that would change the output if it were picked: an empty-ish component with other ports
    b2.texts[os.path.join(decoy_dir, base)] = "declare component Decoy: ->\nsequence q = \"3N\"\nstrand Q = q\n"
    b2.includes = b2.includes + [decoy_dir]
    # a decoy beside the TOP importer for a template that a library system imports from its own directory by bare
    # name: the importing file's directory comes first, so the decoy must be ignored
    if os.path.dirname(p) and not os.path.exists(base) and base not in b2.texts:
        b2.texts[base] = "declare component Decoy2: ->\nsequence q = \"2S\"\nstrand Q = q\n"
    return b2


def run(st, tier, seed):
    res = Result("C02")
    res.rule = ("system generator: 1-4 instances per system over 2-3 generated component templates, signals bound to several ports by "
                "length class, stars on either side with probability 0.4, ports atomic / super-sequence / starred, systems used as "
                "components up to depth 3 (quick) / 4 (thorough), import aliases, sub-directories, shuffled include lists, decoy files "
                "later in the search path; non-trivial = at least 3 statements overall; distinct by source texts")
    rng = core.rng_for(seed, "c02")
    n = 120 if tier == "quick" else 3000
    bundles = []
    for i in range(n):
        b = progen.gen_system_bundle(rng, depth=rng.choice([1, 2, 2, 3, 3] if tier == "quick" else [1, 2, 3, 3, 4]), size=rng.choice([3, 5, 8]),
                                     n_templates=rng.randint(1, 3))
        if b is None:
            continue
        bundles.append(("s%d" % i, b))
        if rng.random() < 0.25:
            b2 = shadowed(rng, b)
            if b2 is not None:
                res.count("decoy-later-in-search-path")
                bundles.append(("s%d-decoy" % i, b2))
    exb = compile_check.example_bundles(rng, 15 if tier == "quick" else 200, "sys")
    res.count("repository-examples", len(exb))
    bundles += exb
    compile_check.run_bundles(st, res, bundles, "C02", "system", must_accept=True)
    res.programs = len(bundles)
    # text level: the model of the .sys statement parsers (PepperModel/ParseSys.lean, theorems PepperProps/ParseSys.lean) against
    # the real pyparsing grammars and the real load_system loop, on generated lines (valid + malformed), on the .sys files of
    # the generated bundles and of the repository examples
    if st.driver_ok:
        import parsecorr_sys
        drv = core.Driver()
        quick = tier == "quick"
        parsecorr_sys.check_lines(res, drv, parsecorr_sys.gen_lines(rng, 1200 if quick else 40000, res), "text")
        docs = [(t, None) for _, b in bundles[:60 if quick else 1500] if not getattr(b, "args", None)
                for k, t in sorted(b.texts.items()) if k.endswith(".sys")]
        parsecorr_sys.check_docs(res, drv, docs[:150 if quick else 4000], "text-bundle")
        parsecorr_sys.check_docs(res, drv, parsecorr_sys.gen_docs(rng, 100 if quick else 3000), "text-gen")
        parsecorr_sys.check_render(res, drv, parsecorr_sys.gen_asts(rng, 100 if quick else 2000), "text-render")
        if not quick:
            parsecorr_sys.check_docs(res, drv, [(t, a) for _, t, a in parsecorr_sys.example_docs()], "text-examples")
    return res
