"""C12 — fixing sequences only ever narrows constraints, at the right positions.

Theorems: PepperProps/C12.lean (code path `Fix.fixItem/fixStrand/fixStruct/fixSignal` = specification `FixSpec.specFix`
over the positions read off `base_seqs`; frame; narrowing; order independence; unknown names).

Oracle on the real code (decides violations): every generated program is compiled twice with the real compiler,
without and with a generated `--fixed` file.  Independently of compiler and model, this file computes from the
*source AST* which nucleotide of which domain sits at every position of every sequence, strand, structure and signal
(`Book`: lists of (domain, index, complemented?), the same bookkeeping a reader would do by hand: a name is its
nucleotides, `x*` is the reversed list with flipped flags, composites concatenate, a signal is the list of regions bound
to it with the orientation given by the stars on binding and declaration, through nested systems).  The expected output
is the unfixed output with every `sequence` template letter replaced by the code of
    old set  ∩  all fixed letters that land on that nucleotide (complemented where it is read as complement),
everything else byte-for-byte equal; a wrong length, a wrong number of `+` parts or an empty intersection anywhere means
the real compile must fail; a name that does not exist (or exists only as another kind) changes nothing.

Correspondence: the same request goes to the model twice — op `compile` (code path) and op `fix-spec` (specification
path + the invariant `wfB` the theorems assume) — and both are compared with the real output / failure."""
import json
import os
import re

import core
from core import Result
import impl
import pilio
import progen

LEVEL = "proof"
LEVEL_NOTE = ("theorems over the AST-level model for every lawful code table and every component satisfying the executable invariant wfB; "
              "wfB / wfInst are established by Comp.load / Sys.loadFile by theorem (wf_of_load, wfInst_of_loadFile, the *_of_load theorems) for sources "
              "satisfying StmtNamesOk and CodesOk, and still evaluated by the driver on every generated program of the run as a cross-check; the regex of "
              "parse_fixed and the .comp/.sys text parsers are on the implementation side of the correspondence")

IUPAC = {"A": "A", "C": "C", "G": "G", "T": "T", "R": "AG", "Y": "CT", "W": "AT", "S": "CG", "M": "AC", "K": "GT",
         "B": "CGT", "D": "AGT", "H": "ACT", "V": "ACG", "N": "ACGT"}
BIT = {"A": 1, "C": 2, "G": 4, "T": 8}
WCB = {"A": "T", "T": "A", "C": "G", "G": "C"}
MASK = {c: sum(BIT[b] for b in g) for c, g in IUPAC.items()}
CODE = {m: c for c, m in MASK.items()}
FIXED_ALPHABET = "ACGTNS"


def cmask(m):
    """complement of a base set"""
    return sum(BIT[WCB[b]] for b in "ACGT" if m & BIT[b])


def letter_mask(c, comp):
    return cmask(MASK[c]) if comp else MASK[c]


def rc(nucs):
    return [(d, i, not c) for d, i, c in reversed(nucs)]


# ------------------------------------------------------------------ independent bookkeeping from the source AST

class Anon:
    """an anonymous quoted region, identified by where it is written"""
    __slots__ = ("key",)

    def __init__(self, key):
        self.key = key

    def __repr__(self):
        return "Anon%r" % (self.key,)


class BookError(Exception):
    pass


class Book:
    """what every fixable object of a compilation unit *is*, as lists of (domain, index, complemented?)"""

    def __init__(self, bundle):
        self.b = bundle
        self.by_inst = {k.split("@", 1)[1]: ast for k, ast in bundle.files.items()}
        self.seqs = {}       # full name -> nucs
        self.strands = {}
        self.structs = {}    # full name -> list of full strand names
        self.signals = {}    # top-level signal -> list of regions
        self.lengths = {}
        self.comp_defs = []  # (prefix, kind, name, nucs) for anonymous-name unification
        top = self.by_inst[""]
        kind, ports = self.inst("")
        if kind == "sys":
            self.signals = self.top_signals

    def comp(self, ast, pfx):
        seqs, strands = {}, {}
        for si, st in enumerate(ast["stmts"]):
            k = st["k"]
            if k in ("seq", "strand"):
                items = st["items"]
                if k == "seq" and len(items) == 1 and items[0]["t"] == "nuc":
                    L = self.quoted_len(items[0]["text"], st["len"], 0)
                    nucs = [(pfx + st["name"], i, False) for i in range(L)]
                    seqs[st["name"]] = nucs
                    self.seqs[pfx + st["name"]] = nucs
                    continue
                segs, wild = [], None
                for ii, it in enumerate(items):
                    if it["t"] == "nuc":
                        if "?" in it["text"]:
                            wild = len(segs)
                            segs.append(None)
                        else:
                            L = self.quoted_len(it["text"], None, 0)
                            a = Anon((pfx, si, ii))
                            segs.append([(a, i, False) for i in range(L)])
                    else:
                        if it["name"] not in seqs:
                            raise BookError("undefined " + it["name"])
                        v = seqs[it["name"]]
                        segs.append(rc(v) if it["star"] else list(v))
                if wild is not None:
                    other = sum(len(s) for s in segs if s is not None)
                    L = self.quoted_len(items[wild]["text"], st["len"], other)
                    a = Anon((pfx, si, wild))
                    segs[wild] = [(a, i, False) for i in range(L)]
                nucs = [n for s in segs for n in s]
                if st["len"] is not None and st["len"] != len(nucs):
                    raise BookError("length")
                if k == "seq":
                    seqs[st["name"]] = nucs
                    self.seqs[pfx + st["name"]] = nucs
                    self.comp_defs.append((pfx, "sup", st["name"], nucs))
                else:
                    strands[st["name"]] = nucs
                    self.strands[pfx + st["name"]] = nucs
                    self.comp_defs.append((pfx, "strand", st["name"], nucs))
            elif k == "struct":
                self.structs[pfx + st["name"]] = [pfx + s for s in st["strands"]]
        ports = []
        for p in ast["inputs"] + ast["outputs"]:
            ports.append(([list(seqs[p["seq"]])], p["star"]))   # a port is one region: the *unstarred* sequence
        return ports

    @staticmethod
    def quoted_len(text, declared, other):
        parts = progen.parse_spelled(text)
        fixed = sum(m for m, _ in parts if m != "?")
        if any(m == "?" for m, _ in parts):
            if declared is None:
                raise BookError("wildcard without length")
            if declared - other < fixed:
                raise BookError("wildcard too short")
            return declared - other      # the wildcard absorbs what is left of the declared length
        return fixed

    def inst(self, pfx):
        ast = self.by_inst[pfx[:-1]]
        if ast["kind"] == "comp":
            return "comp", self.comp(ast, pfx)
        signals = {}
        for st in ast["stmts"]:
            if st["k"] != "component":
                continue
            _, ports = self.inst(pfx + st["name"] + "-")
            for g, (regions, pstar) in zip(st["ins"] + st["outs"], ports):
                flip = g["star"] != pstar     # reverse complement exactly when the stars differ
                signals.setdefault(g["name"], [])
                signals[g["name"]] += [rc(r) if flip else list(r) for r in regions]
        if pfx == "":
            self.top_signals = signals
        return "sys", [(signals[r["name"]], r["star"]) for r in ast["inputs"] + ast["outputs"]]

    # -- anonymous regions get their emitted names by walking the unfixed output next to the book
    def unify(self, stmts):
        base, sup = {}, {}
        for s in stmts:
            if s["k"] == "seq":
                base[s["name"]] = len(s["tmpl"])
            elif s["k"] in ("sup", "strand"):
                sup[(s["k"], s["name"])] = s["items"]

        def nucs_of(raw, depth=0):
            star = raw.endswith("*")
            nm = raw[:-1] if star else raw
            if nm in base:
                v = [(nm, i, False) for i in range(base[nm])]
            elif ("sup", nm) in sup and depth < 50:
                v = [n for it in sup[("sup", nm)] for n in nucs_of(it, depth + 1)]
            else:
                raise BookError("unresolved " + raw)
            return rc(v) if star else v

        ren = {}
        for pfx, kind, name, nucs in self.comp_defs:
            if not nucs:
                continue
            key = (kind, pfx + name)
            if key not in sup:
                raise BookError("missing %s %s" % key)
            have = [n for it in sup[key] for n in nucs_of(it)]
            if len(have) != len(nucs):
                raise BookError("length of " + pfx + name)
            for (d, i, c), (pd, pi, pc) in zip(nucs, have):
                if isinstance(d, Anon):
                    if ren.setdefault(d.key, pd) != pd or i != pi or c != pc or "_Anon" not in pd:
                        raise BookError("anonymous mismatch in " + pfx + name)
                elif (d, i, c) != (pd, pi, pc):
                    raise BookError("mismatch in " + pfx + name)
        if len(set(ren.values())) != len(ren):
            raise BookError("anonymous names not injective")

        def rn(nucs):
            out = []
            for d, i, c in nucs:
                if isinstance(d, Anon):
                    if d.key not in ren:
                        raise BookError("unbound anonymous region")
                    d = ren[d.key]
                out.append((d, i, c))
            return out
        self.seqs = {k: rn(v) for k, v in self.seqs.items()}
        self.strands = {k: rn(v) for k, v in self.strands.items()}
        self.signals = {k: [rn(r) for r in v] for k, v in self.signals.items()}
        # anonymous sequences are objects too (`system.seqs` lists them under their generated names)
        for nm, L in base.items():
            if "_Anon" in nm and nm not in self.seqs:
                self.seqs[nm] = [(nm, i, False) for i in range(L)]
        self.domains = dict(base)


# ------------------------------------------------------------------ the property, as a computation

class Expect:
    """sequential meaning of a list of fixed lines over base-set masks"""

    def __init__(self, book, templates):
        self.book = book
        self.mask = {(d, i): MASK[c] for d, t in templates.items() for i, c in enumerate(t)}
        self.fail = None
        self.effective = 0

    def land(self, positions, s):
        if len(positions) != len(s):
            self.fail = self.fail or "length"
            return
        for (d, i, comp), c in zip(positions, s):
            if c not in MASK:
                self.fail = self.fail or "letter"
                return
            m = self.mask[(d, i)] & letter_mask(c, comp)
            if m == 0:
                self.fail = self.fail or "empty"
                return
            self.mask[(d, i)] = m
        self.effective += 1

    def line(self, kind, name, s):
        bk = self.book
        if kind == "sequence":
            if name in bk.seqs:
                self.land(bk.seqs[name], s)
        elif kind == "strand":
            if name in bk.strands:
                self.land(bk.strands[name], s)
        elif kind == "structure":
            if name in bk.structs:
                parts = s.split("+")
                names = bk.structs[name]
                if len(parts) != len(names):
                    self.fail = self.fail or "count"
                    return
                for n, p in zip(names, parts):
                    if self.fail:
                        return
                    self.land(bk.strands[n], p)
        elif kind == "signal":
            if name in bk.signals:
                for region in bk.signals[name]:
                    if self.fail:
                        return
                    self.land(region, s)
        # any other kind: not a fix

    def templates(self, domains):
        return {d: "".join(CODE[self.mask[(d, i)]] for i in range(L)) for d, L in domains.items()}


# ------------------------------------------------------------------ generator of fixed files

def gen_string(rng, ex, positions, mode):
    """a string for these positions given the current masks: consistent / conflict / wrong length"""
    tmp = {}
    out = []
    for d, i, comp in positions:
        m = tmp.get((d, i), ex.mask.get((d, i), 15))
        ok = [c for c in FIXED_ALPHABET if letter_mask(c, comp) & m]
        r = rng.random()
        if "N" in ok and r < 0.35:
            c = "N"
        elif "S" in ok and r < 0.5:
            c = "S"
        else:
            singles = [c for c in ok if c in "ACGT"] or ok
            c = rng.choice(singles)
        tmp[(d, i)] = m & letter_mask(c, comp)
        out.append(c)
    if mode == "conflict" and out:
        idx = list(range(len(out)))
        rng.shuffle(idx)
        for k in idx:
            d, i, comp = positions[k]
            bad = [c for c in "ACGTS" if letter_mask(c, comp) & ex.mask.get((d, i), 15) == 0]
            if bad:
                out[k] = rng.choice(bad)
                break
        else:
            # no single position can conflict with the current state: make two occurrences of one nucleotide disagree
            seen = {}
            for k, (d, i, comp) in enumerate(positions):
                if (d, i) in seen:
                    k0 = seen[(d, i)]
                    out[k0] = "A" if not positions[k0][2] else "T"
                    out[k] = "C" if not comp else "G"
                    break
                seen[(d, i)] = k
    if mode == "length":
        delta = rng.choice([-3, -2, -1, 1, 2, 3])
        n = max(1, len(out) + delta)
        if n == len(out):
            n += 1
        out = (out + [rng.choice(FIXED_ALPHABET) for _ in range(n)])[:n]
    return "".join(out) or rng.choice(FIXED_ALPHABET)


def gen_fixed(rng, book, templates, res):
    """list of (kind_as_written, name, seq) + flag whether the oracle judges the file"""
    ex = Expect(book, templates)
    lines = []
    judged = True
    kinds = ["sequence"] * 8 + ["strand"] * 4 + ["structure"] * 3 + (["signal"] * 4 if book.signals else ["signal"])
    for _ in range(rng.randint(1, 6)):
        kind = rng.choice(kinds)
        table = {"sequence": book.seqs, "strand": book.strands, "structure": book.structs, "signal": book.signals}[kind]
        r = rng.random()
        written = kind
        if r < 0.04:
            written = rng.choice(["domain", "foo", "sequences", "Strand"])       # not a kind: the line is not a fix
            res.count("line:unknown-kind")
        elif r < 0.07:
            written = {"sequence": "seq", "signal": "sig", "strand": "strand", "structure": "structure"}[kind]
            if written != kind:
                judged = False          # abbreviations are an accident of `type_ in "sequence"`; correspondence only
                res.count("line:abbreviated-kind")
        names = sorted(table)
        unknown = rng.random() < 0.12 or not names
        if unknown:
            others = sorted(set(book.seqs) | set(book.strands) | set(book.structs) | set(book.signals) - set(table))
            others = [n for n in others if n not in table]
            name = rng.choice(others) if others and rng.random() < 0.6 else rng.choice(["nosuch", "g9-x", "zz-" + (names[0] if names else "q"), "x_1"])
            if name in table:
                unknown = False
        if unknown:
            s = "".join(rng.choice(FIXED_ALPHABET) for _ in range(rng.randint(1, 8)))
            if kind == "structure" and rng.random() < 0.5:
                s += "+" + rng.choice(FIXED_ALPHABET)
            res.count("line:unknown-name")
        else:
            name = rng.choice(names)
            # prefer objects with at least one nucleotide
            for _try in range(4):
                if kind == "structure" or (kind == "signal") or len(table[name]) > 0:
                    break
                name = rng.choice(names)
            m = rng.random()
            mode = "conflict" if m < 0.08 else "length" if m < 0.15 else "ok"
            if kind == "structure":
                snames = book.structs[name]
                if mode == "length" and rng.random() < 0.5:
                    parts = [gen_string(rng, ex, book.strands[n], "ok") for n in snames]
                    if rng.random() < 0.5 or len(parts) == 1:
                        parts.append(rng.choice(FIXED_ALPHABET))
                    else:
                        parts.pop()
                    res.count("line:structure-wrong-part-count")
                else:
                    parts = []
                    shadow = Expect(book, {})
                    shadow.mask = dict(ex.mask)
                    bad_at = rng.randrange(len(snames)) if mode != "ok" else -1
                    for k, n in enumerate(snames):
                        p = gen_string(rng, shadow, book.strands[n], mode if k == bad_at else "ok")
                        shadow.land(book.strands[n], p)
                        parts.append(p)
                s = "+".join(parts)
                if len(snames) > 1:
                    res.count("line:multi-strand-structure")
                    if mode == "ok" and rng.random() < 0.12 and all(len(p_) >= 1 for p_ in parts):
                        # right number of parts, right total number of letters, one `+` moved by a letter or two: every part has
                        # the wrong length for its strand (the oracle replays the string part by part and expects a length error)
                        k = rng.randrange(len(parts) - 1)
                        whole = parts[k] + parts[k + 1]
                        cut = len(parts[k]) + rng.choice([-2, -1, 1, 2])
                        if 0 <= cut <= len(whole) and cut != len(parts[k]):
                            parts2 = parts[:k] + [whole[:cut], whole[cut:]] + parts[k + 2:]
                            s = "+".join(parts2)
                            res.count("line:structure-misplaced-plus")
            elif kind == "signal":
                regions = book.signals[name]
                shadow = Expect(book, {})
                shadow.mask = dict(ex.mask)
                # a string that suits every bound region: choose letter by letter over all regions at once
                L = len(regions[0])
                out = []
                for k in range(L):
                    ok = [c for c in FIXED_ALPHABET
                          if all(letter_mask(c, reg[k][2]) & shadow.mask.get((reg[k][0], reg[k][1]), 15) for reg in regions)]
                    # (two regions may share a nucleotide: re-check sequentially below)
                    c = rng.choice(ok) if ok else rng.choice("ACGT")
                    if "N" in ok and rng.random() < 0.3:
                        c = "N"
                    for reg in regions:
                        d, i, comp = reg[k]
                        shadow.mask[(d, i)] = shadow.mask.get((d, i), 15) & letter_mask(c, comp) or shadow.mask.get((d, i), 15)
                    out.append(c)
                s = "".join(out)
                if mode == "conflict":
                    s = gen_string(rng, ex, regions[rng.randrange(len(regions))], "conflict")
                elif mode == "length":
                    s = gen_string(rng, ex, regions[0], "length")
                res.count("line:signal-regions=%s" % (len(regions) if len(regions) < 4 else "4+"))
            else:
                s = gen_string(rng, ex, table[name], mode)
            # NOTE: no `+` is ever put inside a sequence / strand / signal string.  On the pinned tree a `+` there raises
            # KeyError inside fix_seq, which compiler.py's `except KeyError` reports as "name not found" after the items
            # before the `+` have already been fixed (e.g. `sequence x = ACGTA+` on x = a b fixes a and warns); the
            # model (Fix.lean / Driver.Ops.Compile) answers fix-error.  Outside the property's quantifier (strings of
            # codes); reported as a finding, not generated.
            res.count("line:%s:%s" % (kind, mode))
        if written == kind or written in ("seq", "sig"):
            ex.line(kind if written in ("seq", "sig") else written, name, s)
        lines.append((written, name, s))
    return lines, judged


def render_fixed(rng, lines):
    out = []
    if rng.random() < 0.3:
        out.append("# fixed sequences")
    for kind, name, s in lines:
        if rng.random() < 0.15:
            out.append(rng.choice(["", "   ", "# " + name, "\t# c"]))
        sp1 = rng.choice([" ", " ", "  ", "\t"])
        eq = rng.choice([" = ", "=", " =", "= ", "\t=\t"])
        tail = rng.choice(["", "", "", " # note", "  "])
        out.append(kind + sp1 + name + eq + s + tail)
    return "\n".join(out) + "\n"


# ------------------------------------------------------------------ anonymous numbering

ANON = re.compile(r"_Anon(\d+)")


def canon_anon(text, before):
    return ANON.sub(lambda m: "_Anon^%d" % (int(m.group(1)) - before), text)


def actual_anon(name, before):
    return re.sub(r"_Anon\^(\d+)", lambda m: "_Anon%d" % (int(m.group(1)) + before), name)


def body(text):
    """the output without the time-stamp line"""
    return "\n".join(l for l in text.split("\n") if not l.startswith("## Specification for "))


# ------------------------------------------------------------------ the check

def wildcard_after_super(rng):
    import srcparse
    la, lb, lc, lw = rng.randint(1, 4), rng.randint(1, 4), rng.randint(1, 4), rng.randint(0, 4)
    code = lambda: rng.choice(["N", "N", "S", "W", "R", "Y"])
    inner = rng.choice(["a b", "a* b", "b a*", "a b a"])
    n_inner = sum({"a": la, "b": lb}[x.rstrip("*")] for x in inner.split())
    nest = rng.random() < 0.4
    first = ("abab" if nest else "ab") + ("*" if rng.random() < 0.3 else "")
    n_first = 2 * n_inner if nest else n_inner
    tail = rng.choice(["c", "c*", "c a", "b* c"])
    n_tail = sum({"a": la, "b": lb, "c": lc}[x.rstrip("*")] for x in tail.split())
    L = n_first + lw + n_tail
    text = ('declare component W: ->\nsequence a = "%d%s"\nsequence b = "%d%s"\nsequence c = "%d%s"\nsequence ab = %s\n' %
            (la, code(), lb, code(), lc, code(), inner))
    if nest:
        text += "sequence abab = ab ab*\n" if rng.random() < 0.5 else "sequence abab = ab ab\n"
    text += 'sequence Wd = %s "?%s" %s : %d\n' % (first, code(), tail, L)
    text += 'strand S = %s "?%s" %s : %d\nstrand T = Wd*\nstructure M = S + T : %d. + %d.\n' % (first, code(), tail, L, L, L)
    with core.scratch("pepper_c12w_") as d:
        with open(os.path.join(d, "top.comp"), "w") as f:
            f.write(text)
        return srcparse.bundle_from_dir(d, "top", [])


def run(st, tier, seed):
    res = Result("C12")
    res.rule = ("programs from the typed generator (components of size 2-12; systems of 1-4 instances over 1-3 templates, nesting depth "
                "1-3, stars on bindings and port declarations); per program 3 fixed files of 1-6 lines: kinds sequence / strand / structure / "
                "signal (plus unknown kinds and abbreviated kinds), targets among all objects incl. super-sequences, starred items, anonymous "
                "regions, multi-strand structures, signals bound to several ports directly and through nested systems; strings over ACGTNS "
                "chosen against the current masks (consistent), ~8% conflicting, ~7% wrong length / wrong number of `+` parts, ~12% names "
                "that do not exist or exist as another kind; overlapping fixes arise from shared domains; non-trivial = at least one line "
                "that lands on nucleotides; distinct by (sources, fixed text)")
    rng = core.rng_for(seed, "c12")
    n_bundles = 210 if tier == "quick" else 6000
    per = 3
    cases = []      # (bundle, book, base, lines, judged, fixed_text(canonical names), tag)
    for i in range(n_bundles):
        if i % 12 == 5:
            # directed shape: a wildcard region that is NOT the last item and comes after a (nested, possibly starred) super-sequence,
            # in a strand and in a super-sequence: the region's place in the item list and in the flattened list differ
            b = wildcard_after_super(rng)
            what = "component"
            res.count("directed:wildcard-after-super-sequence")
        elif rng.random() < 0.55:
            size = rng.choice([2, 4, 6, 8, 10, 12]) if tier == "quick" else rng.choice([2, 4, 8, 12, 20, 30])
            b = progen.gen_component_bundle(rng, size=size, satisfiable=rng.random() < 0.7)
            what = "component"
        else:
            b = progen.gen_system_bundle(rng, depth=rng.randint(1, 3), size=rng.choice([3, 5, 8]), n_templates=rng.randint(1, 3))
            what = "system"
            if b is None:
                continue
        base = impl.compile_bundle(b, "pil")
        if not base["ok"]:
            res.count("program:rejected")
            continue
        res.programs += 1
        res.count("program:" + what)
        base_text = canon_anon(body(base["text"]), base["anon_before"])
        try:
            stmts = pilio.read_pil(base_text)
            book = Book(b)
            book.unify(stmts)
        except (BookError, pilio.PilSyntax, KeyError) as e:
            # the unfixed output does not match the source's bookkeeping: that is C01/C02's business, not C12's
            res.count("skipped:bookkeeping(%s)" % type(e).__name__)
            res.notes.append("bookkeeping mismatch on %s: %s" % (b.entry, e))
            continue
        if what == "system":
            depth = max(k.count("-") for k in book.by_inst) + 1
            res.count("system-depth:%d" % depth)
        templates = {s["name"]: s["tmpl"] for s in stmts if s["k"] == "seq"}
        for j in range(per):
            lines, judged = gen_fixed(rng, book, templates, res)
            cases.append((b, book, base_text, templates, lines, judged, render_fixed(rng, lines), "p%d.%d" % (i, j)))

    drv = core.Driver() if st.driver_ok else None
    reqs, meta = [], []
    for b, book, base_text, templates, lines, judged, ftext_canon, tag in cases:
        res.evaluations += 1
        before = impl.anon_counter()
        ftext = actual_anon(ftext_canon, before)
        r = impl.compile_bundle(b, "pil", fixed_text=ftext)
        assert r["anon_before"] == before
        inp = {"files": b.texts, "entry": b.entry, "includes": b.includes, "fixed": ftext_canon, "tag": tag,
               "note": "`_Anon^k` stands for the k-th anonymous sequence of the compile"}
        cmd = "cd <dir with these files>; pepper-compiler --fixed fixed.fix %s %s" % (b.entry, " ".join("-I " + i for i in b.includes))
        # ---- the property
        ex = Expect(book, templates)
        for kind, name, s in lines:
            ex.line(kind, name, s)
        if ex.effective:
            res.nontriv([b.texts, ftext_canon])
        res.count("expected:" + (ex.fail or ("narrowed" if ex.effective else "unchanged")))
        if len(res.samples) < 3 and ex.effective >= 2 and not ex.fail:
            res.sample({"fixed": ftext_canon, "source": b.texts, "output": r.get("text")})
        if judged:
            if ex.fail and r["ok"]:
                res.violations.append({"what": "a fixed file with a %s was accepted" % {"length": "string of the wrong length", "count": "wrong number of + separated parts",
                                       "empty": "letter outside the allowed bases of its position (empty intersection)"}[ex.fail],
                                       "input": inp, "observed": canon_anon(body(r["text"]), before), "expected": "compile fails",
                                       "sig": "C12:accepts-bad-fix:" + ex.fail, "cmd": cmd})
            elif not ex.fail and not r["ok"]:
                res.violations.append({"what": "a consistent fixed file of the right lengths made the compile fail (%s)" % r.get("exc"),
                                       "input": inp, "observed": r.get("exc"), "expected": "compile succeeds", "sig": "C12:rejects-good-fix", "cmd": cmd})
            elif r["ok"]:
                got_text = canon_anon(body(r["text"]), before)
                want_t = ex.templates(book.domains)
                v = compare_outputs(base_text, got_text, want_t)
                if v is not None:
                    v.update({"input": inp, "cmd": cmd})
                    res.violations.append(v)
        else:
            res.count("not-judged(correspondence only)")
        # ---- the model
        if drv is not None:
            fixed = [{"kind": k, "name": actual_anon(n, before), "seq": s} for k, n, s in lines]
            rq = progen.compile_request(b, "pil", anon=before, fixed=fixed)
            reqs.append(rq)
            meta.append(("compile", r, inp))
            rq2 = dict(rq); rq2["op"] = "fix-spec"
            reqs.append(rq2)
            meta.append(("spec", r, inp))
    # directed: a strand separator inside the string of a sequence / strand is not a base: the compile must fail
    # (formerly swallowed as "name not found" after a half-applied fix, defect F15)
    seen_prog = set()
    for b, book, base_text, templates, lines, judged, ftext_canon, tag in cases:
        if id(b) in seen_prog or len(seen_prog) >= (25 if tier == "quick" else 300):
            continue
        seen_prog.add(id(b))
        stmts_ = [x for x in pilio.read_pil(base_text) if x["k"] in ("strand", "sup") and "_Anon" not in " ".join(x["items"])]
        if not stmts_:
            continue
        tgt = rng.choice(stmts_)
        L = sum(len(templates.get(i.rstrip("*"), "")) for i in tgt["items"])
        if L < 2 or any(i.rstrip("*") not in templates for i in tgt["items"]):
            continue
        k = rng.randint(1, L - 1)
        bad = "N" * k + "+" + "N" * (L - k - 1)
        ftext = "%s %s = %s\n" % ("strand" if tgt["k"] == "strand" else "sequence", tgt["name"], bad)
        r = impl.compile_bundle(b, "pil", fixed_text=ftext)
        res.evaluations += 1
        res.count("directed:plus-inside-nonstructure")
        if r["ok"]:
            res.violations.append({"what": "a fixed string containing a strand separator was accepted for a %s (half-applied fix reported as a missing name)" % tgt["k"],
                                   "input": {"files": b.texts, "entry": b.entry, "includes": b.includes, "fixed": ftext}, "observed": "compile succeeded",
                                   "expected": "compile fails", "sig": "C12:accepts-bad-fix:separator", "cmd": "pepper-compiler --fixed fixed.fix " + b.entry})
    if drv is not None:
        got = []
        for k in range(0, len(reqs), 1500):
            got += drv.call_many(reqs[k:k + 1500])
        for (kind, r, inp), g in zip(meta, got):
            res.disagreements_checked += 1
            name = "Fix.compile(code path)" if kind == "compile" else "FixSpec.specFix(specification path)"
            if kind == "spec" and (g.get("ok", g).get("wf") is False):
                res.corr_breaks.append({"name": "FixSpec.wfB does not hold of a loaded program (hypothesis of the C12 theorems)", "input": inp,
                                        "model": g if "err" in g else "wf=false", "impl": "-"})
            if r["ok"]:
                if "ok" not in g:
                    res.corr_breaks.append({"name": name, "input": inp, "model": g, "impl": "accepted"})
                elif [l.split() for l in g["ok"]["lines"]] != r["lines"]:
                    res.corr_breaks.append({"name": name, "input": inp, "model": g["ok"]["lines"], "impl": r["text"]})
            else:
                if g.get("err") != "fix-error":
                    res.corr_breaks.append({"name": name + " (error class)", "input": inp, "model": g if "err" in g else "accepts", "impl": r.get("exc")})
    # directed, judged on the OTHER back-end (.des, whose layout comes from base_seqs, not from the item lists the .pil prints):
    # a strand with a wildcard region after a super-sequence is fixed to one concrete, link-consistent string; afterwards every
    # position of the strand must allow exactly its letter, and no other position of the complex may have gained bases
    import semantics
    for k in range(8 if tier == "quick" else 200):
        b = wildcard_after_super(rng)
        r0 = impl.compile_bundle(b, "des")
        if not r0["ok"]:
            continue
        try:
            S0, structs0, _ = semantics.system_of_des(r0["text"])
        except (ValueError, KeyError):
            continue
        plist = S0.structs["M"]
        L = len(structs0["M"].split("+")[0])
        ra = {}
        for v, t in S0.templates.items():
            r_, p_ = S0.uf.find(v)
            ra[r_] = ra.get(r_, frozenset("ACGT")) & (semantics.compl_set(t) if p_ else t)
        if any(not a for a in ra.values()) or S0.conflict:
            continue
        chosen, letters = {}, []
        for (v, c) in plist[:L]:
            r_, p_ = S0.uf.find(v)
            if r_ not in chosen:
                chosen[r_] = rng.choice(sorted(ra[r_]))
            base = chosen[r_]
            letters.append({"A": "T", "T": "A", "C": "G", "G": "C"}[base] if (p_ ^ (1 if c else 0)) else base)
        ftext = "strand S = %s\n" % "".join(letters)
        r1 = impl.compile_bundle(b, "des", fixed_text=ftext)
        res.evaluations += 1
        res.count("directed:des-judged-strand-fix")
        inp = {"files": b.texts, "entry": b.entry, "includes": [], "fixed": ftext}
        cmd = "pepper-compiler --des --fixed fixed.fix top"
        if not r1["ok"]:
            res.violations.append({"what": "a link-consistent fixed string for strand S was rejected (%s)" % r1.get("exc"), "input": inp,
                                   "sig": "C12:des:consistent-fix-rejected", "cmd": cmd})
            continue
        S1, _, _ = semantics.system_of_des(r1["text"])
        f0, f1 = S0.forced(["M"])["allowed"], S1.forced(["M"])["allowed"]
        bad = [kk for kk in range(L) if f1.get(("M", kk)) != letters[kk]]
        grew = [kk for kk in range(len(plist)) if not set(f1.get(("M", kk), "")) <= set(f0.get(("M", kk), ""))]
        if bad or grew:
            kk = (bad or grew)[0]
            res.violations.append({"what": "after fixing strand S to %s position %d of the complex allows %r (before: %r, letter fixed onto it: %s)" % (
                                       "".join(letters), kk, f1.get(("M", kk)), f0.get(("M", kk)), letters[kk] if kk < L else "-"),
                                   "input": inp, "observed": {"positions_wrong": bad[:10], "positions_grown": grew[:10]},
                                   "sig": "C12:des:wrong-positions", "cmd": cmd})
    # text level: the model of the --fixed file parser and of the substring dispatch of compiler() (PepperModel/ParseFixed.lean,
    # theorems PepperProps/ParseFixed.lean) against the real parse_fixed / load_fixed / compiler()
    if st.driver_ok:
        import parsecorr_fixed
        rt = core.rng_for(seed, "c12-text")
        drvt = core.Driver()
        parsecorr_fixed.check_lines(res, drvt, parsecorr_fixed.gen_lines(rt, 2000 if tier == "quick" else 60000), "text")
        parsecorr_fixed.check_files(res, drvt, parsecorr_fixed.gen_files(rt, 60 if tier == "quick" else 2500), "text-file")
        words = parsecorr_fixed.kind_words()
        parsecorr_fixed.check_kinds(res, drvt, words if tier != "quick" else rt.sample(words, min(len(words), 300)), "text-kind")
    return res


def compare_outputs(base_text, got_text, want_templates):
    """None if `got` is `base` with exactly the expected templates"""
    bl = [l for l in base_text.split("\n")]
    gl = [l for l in got_text.split("\n")]
    if len(bl) != len(gl):
        return {"what": "the fixed compile wrote a different number of lines than the unfixed compile", "observed": got_text, "expected": base_text,
                "sig": "C12:changed-elsewhere"}
    for x, y in zip(bl, gl):
        mx = re.match(r"sequence (\S+) = (\S*) : (\d+)\s*\Z", x)
        if mx:
            name = mx.group(1)
            want = "sequence %s = %s : %s" % (name, want_templates[name], mx.group(3))
            if y.rstrip() != want:
                my = re.match(r"sequence (\S+) = (\S*) : (\d+)\s*\Z", y)
                if my and my.group(1) == name and my.group(3) == mx.group(3) and len(my.group(2)) == len(mx.group(2)):
                    k = next(i for i, (a, c) in enumerate(zip(my.group(2), want_templates[name])) if a != c)
                    return {"what": "nucleotide %d of %s is constrained to %s after fixing; the intersection of its previous set %s with the letters fixed onto it is %s"
                                    % (k, name, my.group(2)[k], mx.group(2)[k], want_templates[name][k]),
                            "observed": y, "expected": want, "sig": "C12:wrong-template"}
                return {"what": "a sequence line changed shape under fixing", "observed": y, "expected": want, "sig": "C12:changed-elsewhere"}
        elif x != y:
            return {"what": "fixing changed a line that is not a sequence template", "observed": y, "expected": x, "sig": "C12:changed-elsewhere"}
    return None


def replay(path):
    with open(path) as f:
        print(json.dumps(json.load(f), indent=1))
    return 0
