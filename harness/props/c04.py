"""C04 — designer constraint arrays are the exact closure of the specification.

Theorems: PepperProps/C04.lean over PepperModel/ConstraintGen.lean (model of Convert.get_constraints) and the
specification layer LinkSpec (semantic link graph of Pil.denote, ParityReach).  Correspondence: the real
Convert(file, mode).get_constraints() vs the model op `pil-constraints` on the same statements, both layouts.
Oracle (failing-input search): pilgen.oracle — an independent union-find with parity over (domain, index)
variables plus the documented layout — applied to the real code's arrays; the real reader's statements are also
compared with the generated ones."""
import json
import os

import core
import pilgen
from core import Result

LEVEL = "proof"
LEVEL_NOTE = ("exactness of the arrays w.r.t. the semantic link closure is a theorem for both layouts (struct: every strand placed); "
              "equality with the executable naive spec procedure and the model<->code tie are validated by correspondence")

# examples under /repo/examples that compile without NUPACK, with the arguments used
EXAMPLES = [
    ("Hairpin.comp", []), ("system_helices/Helices.comp", []), ("system_tiles1/DAOtileR.comp", []),
    ("system_tiles1/AB_DAO.sys", []), ("system1/And22.comp", []), ("system1/HalfAdder.sys", []),
    ("system2/HalfAdder.sys", []), ("PSwitch/PSwitch.comp", []), ("PSwitch/DSwitch.comp", []),
    ("PSwitch/SplitPSwitch.comp", []), ("PSwitch/PSwitchTest.sys", []), ("PSwitch/UPG2Bit.comp", []),
    ("Rickettsia/Rickettsia.comp", []), ("Zhang_etal_Science_2007/CatalystA.comp", []),
    ("Zhang_etal_Science_2007/CatalystInverted.comp", []), ("Zhang_etal_Science_2007/Original.sys", []),
    ("Zhang_etal_Science_2007/OverhangA.sys", []), ("Zhang_etal_Science_2007/Inverted53.sys", []),
    ("Zhang_etal_Science_2007/Catalyst.comp", ["5", "6", "7", "8", "9", "10"]),
    ("Zhang_etal_Science_2007/Reporter.comp", ["5", "6", "7"]),
    ("David_CRN/rxn1_0.comp", ["5", "6"]), ("David_CRN/rxn2_2.comp", ["5", "6"]),
    ("David_CRN/OscillatorBasic.sys", ["5", "6"]), ("Jongmin/signalA.comp", ["5", "6"]),
    ("Jongmin/switchA2I.comp", ["5", "6", "7", "8"]), ("Jongmin/two_node_osc.sys", []),
    ("Elisa/activate_trans.comp", ["5", "6", "7", "8"]), ("Barish/DAOEtile3up.comp", []),
    ("Constantine/DAOEtile5up_hp.comp", []), ("Lulu/And.sys", ["5", "6"]),
    ("Lulu/clamps/Splitter12.sys", ["5", "6", "7"]),
]
EXAMPLES_THOROUGH = [
    ("PSwitch/UPG2BitSmart.sys", []), ("PSwitch/UPG2BitTest.sys", []), ("Jongmin/three_node_osc.sys", []),
    ("Jongmin/two_node_SA_osc.sys", []), ("David_CRN/Oscillator.sys", ["15", "15", "15"]),
    ("David_CRN/Roessler.sys", ["5", "6"]), ("Barish/Copy.sys", []), ("Barish/BinaryCounter.sys", []),
    ("Lulu/clamps/And21.sys", ["15", "15", "15", "15"]), ("Lulu/clamps/Or22.sys", ["15", "15", "15", "15"]),
    ("Georg_System/Circuit.sys", []), ("Elisa/self_activator.sys", []),
]


def compile_example(rel, args, d):
    """PIL text the real compiler emits for an example, or None when it does not compile here"""
    from peppercompiler.compiler import compiler
    src = os.path.join(core.REPO, "examples", rel)
    base = os.path.basename(src).rsplit(".", 1)[0]
    out = os.path.join(d, "emitted.pil")
    cwd = os.getcwd()
    try:
        os.chdir(os.path.dirname(src))
        with core.quiet():
            compiler(base, list(args), out, os.path.join(d, "emitted.save"), None, True, [os.path.dirname(src)])
        with open(out) as f:
            return f.read()
    except BaseException as e:
        if isinstance(e, KeyboardInterrupt):
            raise
        return None
    finally:
        os.chdir(cwd)


def positions(o):
    return len(o[1]) if o[0] == "ok" else 0


def check_doc(res, d, stmts, text, origin, reqs, expect, spec_side=True):
    """oracles on the real code for one document; queues the correspondence requests"""
    fn = os.path.join(d, "doc.pil")
    with open(fn, "w") as f:
        f.write(text)
    inp = {"text": text, "origin": origin}
    nontrivial = (sum(1 for s in stmts if s["k"] == "strand") >= 2 or any(s["k"] in ("sup", "struct") for s in stmts))
    # the reader: the real Spec must hold the statements that were written
    try:
        got = pilgen.impl_statements(fn)
        want = pilgen.expected_statements(stmts)
        if got != want:
            diff = [k for k in want if got.get(k) != want[k]]
            res.violations.append({"what": "PIL reader produced different statements (%s)" % ",".join(diff), "input": inp,
                                   "observed": {k: got[k] for k in diff}, "expected": {k: want[k] for k in diff},
                                   "sig": "C04:reader", "cmd": "peppercompiler.design.PIL_parser.load_spec(file)"})
    except BaseException as e:
        if isinstance(e, KeyboardInterrupt):
            raise
        ok_doc = True
        try:
            pilgen.denote(stmts)
        except pilgen.IllFormed:
            ok_doc = False
        if ok_doc:
            res.violations.append({"what": "PIL reader rejects a document of the supported subset: %s" % type(e).__name__,
                                   "input": inp, "sig": "C04:reader-rejects", "cmd": "load_spec(file)"})
    for layout in ("strand", "struct"):
        res.evaluations += 1
        o = pilgen.oracle(stmts, layout)
        r = pilgen.impl_constraints(fn, layout)
        res.count("%s:%s" % (layout, o[0]))
        cmd = "peppercompiler.design.constraint_load.Convert(file, %r).get_constraints()" % (layout == "struct")
        if o[0] == "ok":
            if nontrivial:
                res.nontriv([text, layout])
            want = {"eq": o[1], "wc": o[2], "st": o[3]}
            if "ok" not in r:
                res.violations.append({"what": "satisfiable document: get_constraints raised (%s)" % r["err"],
                                       "input": dict(inp, layout=layout), "expected": want, "observed": r,
                                       "sig": "C04:raises:" + r["err"], "cmd": cmd})
            elif r["ok"] != want:
                which = [k for k in ("eq", "wc", "st") if r["ok"][k] != want[k]]
                layout_bad = [i for i in range(max(len(want["st"]), len(r["ok"]["st"])))
                              if (i < len(want["st"]) and want["st"][i] is None) != (i < len(r["ok"]["st"]) and r["ok"]["st"][i] is None)]
                sig = "C04:layout" if (layout_bad or len(want["st"]) != len(r["ok"]["st"])) else "C04:" + "+".join(which)
                res.violations.append({"what": "constraint arrays differ from the closure of the specification (%s, %s layout)"
                                               % (",".join(which), layout),
                                       "input": dict(inp, layout=layout), "expected": want, "observed": r["ok"],
                                       "sig": sig, "cmd": cmd})
            if len(res.samples) < 3 and nontrivial and len(text) < 900:
                res.sample({"text": text, "layout": layout, "eq": o[1], "wc": o[2], "st": "".join(x or " " for x in o[3])})
        reqs.append({"op": "pil-constraints", "stmts": stmts, "layout": layout})
        expect.append(("Convert.get_constraints/" + layout, r))
        nvars = sum(len(x["tmpl"]) for x in stmts if x["k"] == "seq")
        if spec_side and o[0] in ("ok", "unsat") and positions(o) <= 45 and len(stmts) <= 24 and nvars <= 60:
            reqs.append({"op": "pil-spec-arrays", "stmts": stmts, "layout": layout})
            expect.append(("LinkSpec.specArrays", {"ok": {"eq": o[1], "wc": o[2], "st": o[3]}} if o[0] == "ok" else {"ok": "unsat"}))
    try:
        dj = pilgen.design_json(stmts)
        if len(text) < 3000:
            reqs.append({"op": "pil-denote", "stmts": stmts})
            expect.append(("Pil.denote", {"ok": dj}))
    except pilgen.IllFormed:
        pass


def run(st, tier, seed):
    res = Result("C04")
    res.rule = ("hand-written-style PIL documents from pilgen.gen_doc (15 codes, nested starred sup-sequences, strands reused / "
                "twice in one structure, structures with and without [..], equal, kinetic, comments, free spacing), the same "
                "documents in the compiler's spelling, and PIL emitted by the real compiler for examples; both layouts; "
                "non-trivial = satisfiable document with >= 2 strands or a sup-sequence or a structure; distinct by (text, layout)")
    rng = core.rng_for(seed, "c04")
    n_docs = 300 if tier == "quick" else 10000
    reqs, expect = [], []
    with core.scratch("pepper_c04_") as d:
        for i in range(n_docs):
            size = pilgen.sizes_for(tier, rng)
            bias = rng.choice(["sat", "sat", "sat", "sat", "boundary", "mixed"])
            stmts, meta = pilgen.gen_doc(rng, size, bias)
            style = "free" if rng.random() < 0.85 else "emitted"
            text = pilgen.render(stmts, rng, style)
            back = pilgen.read_pil(text)
            if pilgen.canon_stmts(back) != pilgen.canon_stmts(stmts):
                raise RuntimeError("harness: read_pil(render(stmts)) != stmts\n" + text)
            res.count("style:" + style)
            res.count("bias:" + meta["bias"])
            for t in meta["tricks"]:
                res.count("trick:" + t)
            res.count("strands<=4" if meta["strands"] <= 4 else "strands<=12" if meta["strands"] <= 12 else "strands>12")
            check_doc(res, d, stmts, text, "generated:%d" % i, reqs, expect, spec_side=(tier == "quick" or i % 4 == 0))
        # compiler-emitted PIL
        compiled = 0
        for rel, args in EXAMPLES + (EXAMPLES_THOROUGH if tier == "thorough" else []):
            text = compile_example(rel, args, d)
            if text is None:
                res.count("example:does-not-compile")
                continue
            compiled += 1
            try:
                stmts = pilgen.read_pil(text)
            except pilgen.IllFormed as e:
                raise RuntimeError("harness: read_pil cannot read compiler output of %s: %s" % (rel, e))
            res.count("origin:compiler-emitted")
            check_doc(res, d, stmts, text, "example:%s %s" % (rel, " ".join(args)), reqs, expect)
        res.extra["examples_compiled"] = compiled
        # boundary stated in DESIGN 5.4: a document without strands (dump has nothing to number) -- one directed case
        stmts = [{"k": "seq", "name": "a", "tmpl": "NNN"}]
        text = pilgen.render(stmts, rng, "emitted")
        fn = os.path.join(d, "nostrand.pil")
        with open(fn, "w") as f:
            f.write(text)
        for layout in ("strand", "struct"):
            reqs.append({"op": "pil-constraints", "stmts": stmts, "layout": layout})
            expect.append(("Convert.get_constraints/no-strands", pilgen.impl_constraints(fn, layout)))
        res.count("directed:no-strands", 2)
    res.programs = len(reqs)
    if st.driver_ok:
        got = pilgen.call_parallel(reqs)
        for rq, (name, im), g in zip(reqs, expect, got):
            res.disagreements_checked += 1
            if pilgen.model_norm(g) != im:
                res.corr_breaks.append({"name": name, "input": rq, "model": g, "impl": im})
                if len(res.corr_breaks) > 5:
                    break
    # text level: the model of the PIL reader (PepperModel/ParsePil.lean, theorems PepperProps/ParsePil.lean) against the real
    # PIL_parser.load_spec on generated, compiled and malformed documents
    if st.driver_ok:
        import parsecorr_pil
        parsecorr_pil.check_texts(res, core.Driver(), parsecorr_pil.gen_texts(core.rng_for(seed, "c04-text"), 400 if tier == "quick" else 20000), "text")
    return res


def replay(path):
    with open(path) as f:
        body = json.load(f)
    print(json.dumps(body, indent=1)[:6000])
    inp = body.get("input") or {}
    if "text" not in inp:
        return 0
    stmts = pilgen.read_pil(inp["text"])
    res = Result("C04")
    with core.scratch("pepper_c04_") as d:
        check_doc(res, d, stmts, inp["text"], "replay", [], [])
    for v in res.violations:
        print("STILL FAILING:", v["sig"], v["what"])
    return 1 if res.violations else 0
