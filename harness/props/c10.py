"""C10 — wildcards and declared lengths resolve exactly.

Theorems: PepperProps/C10.lean over PepperModel/Constraint.lean (+ Comp.buildSuper).
Correspondence: real parse_constraint / Sequence(...) vs model ops `parse-constraint` / `resolve`; whole
statements through the compile correspondence of C01.
Oracle on the real code: (i) Sequence(parts, L) has length L, the wildcard part has exactly L - sum(others)
letters and every other part keeps its multiplicity and order; (ii) a component written with a wildcard and
the same component with the number written out compile to PIL that denotes the same design (anonymous
domains renamed consistently); (iii) the four malformed shapes are rejected."""
import itertools
import json

import core
from core import Result, quiet
import impl
import pilio
import progen

LEVEL = "proof"
LEVEL_NOTE = "theorems for all part lists and all declared lengths (including 0); statement-level lifting validated by correspondence + oracle"
CODES = progen.CODES


def real_sequence(parts, L):
    from peppercompiler import DNA_classes
    try:
        with quiet():
            s = DNA_classes.Sequence("x", "", [list(p) for p in parts], L)
        return {"ok": [s.length, s.const]}
    except DNA_classes.WildError:
        return {"err": "wild"}
    except AssertionError:
        return {"err": "reject"}


def spec_sequence(parts, L):
    """the property, directly"""
    wild = [i for i, (m, _) in enumerate(parts) if m == "?"]
    fixed = sum(m for m, _ in parts if m != "?")
    if len(wild) > 1:
        return {"err": "reject"}
    if not wild:
        if L is not None and L != fixed:
            return {"err": "reject"}
        return {"ok": [fixed, "".join(c * m for m, c in parts)]}
    if L is None:
        return {"err": "wild"}
    if L < fixed:
        return {"err": "reject"}
    w = L - fixed
    return {"ok": [L, "".join(c * (w if m == "?" else m) for m, c in parts)]}


def comp_text(body):
    return ("declare component T: a -> a\nsequence a = \"4N\"\nsequence b = \"3S\"\nsequence c = \"0N\"\n"
            "sequence X = a b*\nsequence Y = b X* c\n" + body + "strand A = a\n")


NAMED = {"a": 4, "a*": 4, "b": 3, "b*": 3, "c": 0, "X": 7, "X*": 7, "Y": 10, "Y*": 10, "domains(X)": 7, "domains(Y*)": 10}


def compile_text(text, fmt="pil"):
    b = progen.Bundle()
    b.texts["top.comp"] = text
    b.entry = "top"
    return impl.compile_bundle(b, fmt)


def denote_text(drv, r):
    stmts = [s for s in pilio.read_pil(r["text"]) if s["k"] != "kinetic"]
    g = drv.call({"op": "pil-design", "stmts": stmts})
    return pilio.canon_design(g["ok"]) if "ok" in g else None


def run(st, tier, seed):
    from peppercompiler.component_parser_regex import parse_constraint
    res = Result("C10")
    res.rule = ("constraint lists of 0-8 parts, multipliers 0-30, wildcard anywhere (0, 1 or 2 of them), declared length in "
                "{none, 0, sum-1, sum, sum+k}; exhaustive for <=3 parts x multipliers <=3 x L<=8; statement level: base sequences, "
                "super-sequences and strands with a wildcard inside a quoted item vs the explicit spelling; non-trivial = a "
                "wildcard with a declared length; distinct by (parts, L)")
    rng = core.rng_for(seed, "c10")
    reqs, impls = [], []

    def one(parts, L):
        res.evaluations += 1
        r = real_sequence(parts, L)
        want = spec_sequence(parts, L)
        if any(m == "?" for m, _ in parts) and L is not None:
            res.nontriv((parts, L))
        res.count("wild=%d,len=%s" % (sum(1 for m, _ in parts if m == "?"), "none" if L is None else "given"))
        if r != want:
            res.violations.append({"what": "Sequence(parts, length) does not resolve as the property demands", "input": {"parts": parts, "length": L},
                                   "expected": want, "observed": r, "sig": "C10:resolve", "cmd": "peppercompiler.DNA_classes.Sequence('x','',parts,length)"})
        reqs.append({"op": "resolve", "parts": [[m, c] for m, c in parts], "len": L}); impls.append(r)

    # exhaustive small
    mults = [0, 1, 2, 3, "?"]
    for n in range(0, 4):
        for ms in itertools.product(mults, repeat=n):
            parts = [[m, "NSW"[i]] for i, m in enumerate(ms)]
            for L in [None] + list(range(0, 9 if tier == "thorough" else 6)):
                one(parts, L)
    res.extra["exhaustive_small_space"] = "parts<=3, multipliers in {0,1,2,3,?}, L in none,0..%d" % (8 if tier == "thorough" else 5)
    # random larger
    for _ in range(400 if tier == "quick" else 20000):
        n = rng.randint(0, 8)
        parts = [[rng.choice(["?"] if rng.random() < 0.15 else [rng.randint(0, 30)]), rng.choice(CODES)] for _ in range(n)]
        fixed = sum(m for m, _ in parts if m != "?")
        L = rng.choice([None, 0, max(0, fixed - 1), fixed, fixed + rng.randint(1, 9)])
        one(parts, L)
    # parse_constraint correspondence + oracle (the text spells the parts)
    for _ in range(300 if tier == "quick" else 10000):
        parts = progen.gen_parts(rng, allow_wild=True)
        text = progen.spell_parts(rng, parts)
        res.evaluations += 1
        try:
            got = parse_constraint('"%s"' % text)[1]
        except Exception as e:  # noqa
            got = "error %r" % e
        want = progen.parse_spelled(text)
        if got != want:
            res.violations.append({"what": "parse_constraint does not read the multipliers as written", "input": {"text": text},
                                   "expected": want, "observed": got, "sig": "C10:parse", "cmd": "parse_constraint"})
        reqs.append({"op": "parse-constraint", "s": text})
        impls.append({"ok": [[m, c] for m, c in got]} if isinstance(got, list) else {"err": "reject"})
    # statement level: wildcard vs explicit, on the real compiler
    drv = core.Driver() if st.driver_ok else None
    for i in range(60 if tier == "quick" else 1500):
        kind = rng.choice(["base", "super", "strand"])
        pre = [[rng.randint(0, 4), rng.choice(CODES)] for _ in range(rng.randint(0, 2))]
        post = [[rng.randint(0, 4), rng.choice(CODES)] for _ in range(rng.randint(0, 2))]
        w = rng.randint(0, 5)
        if i % 6 == 5:
            # long regions: declared lengths beyond the small numbers (250 … 1200 nt, both sides of 256)
            w = rng.choice([250, 251, 252, 253, 254, 255, 256, 257, 300, 1000, rng.randint(250, 1200)])
            res.count("statement:long-region")
        wc = rng.choice(CODES)
        fixed = sum(m for m, _ in pre + post)
        # other items of the statement: named sequences, nested and starred super-sequences, domains(), plain quoted regions
        before = [] if kind == "base" else [rng.choice(list(NAMED) + ['"2N"']) for _ in range(rng.randint(0, 3))]
        after = [] if kind == "base" else [rng.choice(list(NAMED) + ['"1K"']) for _ in range(rng.randint(0, 3))]
        if kind != "base" and not before and not after:
            before = ["X"]
        others = sum(NAMED.get(x, 2 if x == '"2N"' else 1) for x in before + after)
        extra_items_len = others
        L = fixed + w + extra_items_len
        def body(wtext):
            q = " ".join(["%d%s" % (m, c) for m, c in pre] + [wtext + wc] + ["%d%s" % (m, c) for m, c in post])
            items = " ".join(before + ['"%s"' % q] + after)
            # the resolved object is also used complemented, through domains(), and next to another strand's own wildcard
            uses = ('strand X1 = x a\nstructure T1 = X1 : %d.\nstrand X2 = a x*\nstructure T2 = X2 : %d.\n'
                    'strand X3 = "?Y" x* a : %d\nstructure T3 = X3 : %d.\n' % (L + 4, L + 4, L + 6, L + 6))
            if kind == "base":
                return 'sequence x = "%s" : %d\n%s' % (q, L, uses)
            if kind == "super":
                return 'sequence x = %s : %d\n%sstrand X4 = a domains(x*)\nstructure T4 = X4 : %d.\n' % (items, L, uses, L + 4)
            return 'strand X1 = %s : %d\nstructure T1 = X1 : %d.\n' % (items, max(L, 0), max(L, 0))
        if kind == "strand" and L == 0:
            continue
        t1 = comp_text(body("?")); t2 = comp_text(body(str(w)))
        r1, r2 = compile_text(t1), compile_text(t2)
        res.evaluations += 1
        res.nontriv(t1)
        res.count("statement:" + kind)
        if not (r1["ok"] and r2["ok"]):
            res.violations.append({"what": "wildcard form and explicit form are not both accepted", "input": {"wildcard": t1, "explicit": t2},
                                   "observed": [r1.get("exc"), r2.get("exc")], "sig": "C10:stmt-accept", "cmd": "pepper-compiler"})
            continue
        if drv is not None:
            d1, d2 = denote_text(drv, r1), denote_text(drv, r2)
            if d1 is None or d1 != d2:
                res.violations.append({"what": "wildcard form and explicit form compile to different designs", "input": {"wildcard": t1, "explicit": t2},
                                       "observed": pilio.design_diff(d1 or {}, d2 or {}), "sig": "C10:stmt-differs", "cmd": "pepper-compiler"})
        from props.c18 import canon_text
        q1, q2 = compile_text(t1, "des"), compile_text(t2, "des")
        if not (q1["ok"] and q2["ok"]) or canon_text(q1["text"]) != canon_text(q2["text"]):
            res.violations.append({"what": "wildcard form and explicit form compile to different .des specifications", "input": {"wildcard": t1, "explicit": t2},
                                   "observed": [q1.get("text", q1.get("exc")), q2.get("text", q2.get("exc"))], "sig": "C10:stmt-differs-des", "cmd": "pepper-compiler --des"})
        if i == 0:
            res.sample({"wildcard": t1, "explicit": t2})
        # malformed neighbours must be rejected
        for bad, why in ((t1.replace("?" + wc, "?" + wc + " ?N", 1), "two wildcards"),
                         (t1.replace(" : %d" % L, "", 1), "wildcard without length"),
                         (t1.replace(" : %d" % L, " : %d" % max(0, L - w - 1), 1) if fixed + extra_items_len > 0 else None, "negative remainder"),
                         (t2.replace(" : %d" % L, " : %d" % (L + 1), 1), "declared length disagrees"),
                         (t1.replace(" : %d" % L, " : %d.5" % L, 1), "declared length that is not a whole number")):
            if bad is None or bad in (t1, t2):
                continue
            # without the structure lines: their sizes were written for the well-formed statement and would refuse the malformed
            # neighbour for a reason of their own, hiding whether the STATEMENT is refused
            bad = "".join(l_ for l_ in bad.splitlines(True) if not l_.lstrip().startswith("structure"))
            rb = compile_text(bad)
            res.evaluations += 1
            res.count("malformed:" + why)
            if rb["ok"]:
                res.violations.append({"what": "%s accepted" % why, "input": {"source": bad}, "observed": rb["text"],
                                       "sig": "C10:accepts:" + why, "cmd": "pepper-compiler"})
        # two wildcard REGIONS among the items of one strand / super-sequence (the extra one first, last, or right next to the
        # other): ambiguous, must be rejected wherever the regions stand
        if kind in ("super", "strand"):
            head_ = "sequence x = " if kind == "super" else "strand X1 = "
            for where, bad in (("first", t1.replace(head_, head_ + '"?S" ', 1)),
                               ("last", t1.replace(" : %d" % max(L, 0), ' "?S" : %d' % max(L, 0), 1)),
                               ("first-and-last", t1.replace(head_, head_ + '"?S" ', 1).replace(" : %d" % max(L, 0), ' "?W" : %d' % max(L, 0), 1))):
                if bad == t1:
                    continue
                bad = "".join(l_ for l_ in bad.splitlines(True) if not l_.lstrip().startswith("structure"))
                rb = compile_text(bad)
                res.evaluations += 1
                res.count("malformed:two-wildcard-regions:" + where)
                if rb["ok"]:
                    res.violations.append({"what": "two wildcard regions in one %s (the extra one %s) accepted" % ("super-sequence" if kind == "super" else "strand", where),
                                           "input": {"source": bad}, "observed": rb["text"], "sig": "C10:accepts:two-wildcard-regions", "cmd": "pepper-compiler"})
    res.programs = len(reqs)
    if drv is not None:
        got = drv.call_many(reqs)
        for rq, im, g in zip(reqs, impls, got):
            res.disagreements_checked += 1
            if g != im:
                res.corr_breaks.append({"name": "Constraint." + rq["op"], "input": rq, "model": g, "impl": im})
                if len(res.corr_breaks) > 5:
                    break
    return res


def replay(path):
    with open(path) as f:
        print(json.dumps(json.load(f), indent=1))
    return 0
