"""C09 — accepted programs are well formed; malformed ones never compile silently.

Token-level mutation (delete / duplicate / swap / perturb a number, a name, a star, a bracket or a notation
keyword) of generated and example .comp/.sys programs.  Oracle (decides violations): whenever the real compiler
produces output, the emitted specification (.pil, and the .des of the same accepted program) must be well formed (harness/wellformed.py: every structure balanced
with one correctly sized segment per strand, every strand / super-sequence length = sum of its domains = its
declared length, every name a unique earlier definition, members of an `equal` line of one length).
On the well-formed stream the model must agree with the compiler (C01/C02 correspondence); on mutants the
model cannot be asked (it consumes ASTs, the parser is on the implementation side), see LEVEL_NOTE."""
import json
import os
import re
import shutil

import core
from core import Result, quiet
import progen
import impl
import wellformed
import compile_check

LEVEL = "proof"
LEVEL_NOTE = ("the theorem (`output_wellformed`: every successful elaboration emits a well-formed specification, for EVERY AST) covers all "
              "programs the statement parsers can produce; that the parsers map arbitrary bytes to an AST or reject is validated by mutation "
              "testing of the real compiler with the well-formedness oracle, not proved")
replay = compile_check.replay

TOKEN = re.compile(r"\d+|[A-Za-z_][\w-]*|\*|\(|\)|\[|\]|\+|->|:|=|\"|\?|,|\S")


def mutate(text, rng):
    toks = [(m.start(), m.end(), m.group(0)) for m in TOKEN.finditer(text)]
    if not toks:
        return text, "none"
    i = rng.randrange(len(toks))
    a, b, t = toks[i]
    kind = rng.choice(["delete", "duplicate", "swap", "perturb", "redefine"])
    if kind == "redefine":
        # give one definition the name of another one (earlier or later, same or different kind of object)
        defs = [k for k in range(1, len(toks)) if toks[k - 1][2] in ("sequence", "strand", "structure") or
                (k >= 2 and toks[k - 1][2] == "]" and re.match(r"[A-Za-z_]", toks[k][2]))]
        defs = [k for k in defs if re.match(r"[A-Za-z_]", toks[k][2])]
        if len(defs) >= 2:
            k1, k2 = rng.sample(defs, 2)
            a, b, t = toks[k1]
            return text[:a] + toks[k2][2] + text[b:], "redefine %s->%s" % (t, toks[k2][2])
        kind = "perturb"
    if kind == "delete":
        return text[:a] + text[b:], "delete " + t
    if kind == "duplicate":
        return text[:b] + " " + t + text[b:], "duplicate " + t
    if kind == "swap" and i + 1 < len(toks):
        if rng.random() < 0.5:
            # exchange with another token of the same class on the same line (two numbers, two names, two brackets / dots)
            cls = (lambda x: "num" if x.isdigit() else "name" if re.match(r"[A-Za-z_]", x) else "sym" if x in "().+" else None)
            lo, hi = text.rfind("\n", 0, a) + 1, (text.find("\n", b) if text.find("\n", b) >= 0 else len(text))
            same = [k for k in range(len(toks)) if k != i and lo <= toks[k][0] < hi and cls(toks[k][2]) == cls(t) and cls(t) and toks[k][2] != t]
            if same:
                k = rng.choice(same)
                (a1, b1, t1), (a2, b2, t2) = sorted([toks[i], toks[k]])
                return text[:a1] + t2 + text[b1:a2] + t1 + text[b2:], "swap %s %s" % (t1, t2)
        a2, b2, t2 = toks[i + 1]
        return text[:a] + t2 + text[b:a2] + t + text[b2:], "swap %s %s" % (t, t2)
    # perturb
    if t.isdigit():
        n = int(t)
        new = str(rng.choice([n + 1, max(0, n - 1), 0, n * 2, n + 10]))
    elif t == "*":
        new = ""
    elif t in "()":
        new = rng.choice([".", "(" if t == ")" else ")", ""])
    elif t in "[]":
        new = ""
    elif t == "domain":
        new = ""
    elif t in ("U", "H") or re.match(r"[UH]\d+\Z", t):
        new = ("H" if t[0] == "U" else "U") + t[1:]
    elif re.match(r"[A-Za-z_]", t):
        pool = [x[2] for x in toks if re.match(r"[A-Za-z_]", x[2]) and x[2] != t]
        new = rng.choice(pool) if pool and rng.random() < 0.7 else t + "x"
    elif t == "+":
        new = rng.choice(["", "+ +"])
    else:
        new = ""
    return text[:a] + new + text[b:], "perturb %s->%s" % (t, new)


def all_redefinitions(text):
    """every way of giving one definition the name of another definition of the same file"""
    toks = [(m.start(), m.end(), m.group(0)) for m in TOKEN.finditer(text)]
    defs = [k for k in range(1, len(toks)) if (toks[k - 1][2] in ("sequence", "strand", "structure") or toks[k - 1][2] == "]")
            and re.match(r"[A-Za-z_]", toks[k][2])]
    out = []
    for k1 in defs:
        for k2 in defs:
            if k1 != k2 and toks[k1][2] != toks[k2][2]:
                a, b, t = toks[k1]
                out.append((text[:a] + toks[k2][2] + text[b:], "redefine %s->%s" % (t, toks[k2][2])))
    return out


def all_number_swaps(text):
    """every exchange of two different numbers inside the secondary-structure text of one structure statement (multipliers of the
    run-length / HU notations): segment lengths may stay right while the pairing becomes unbalanced"""
    out = []
    for m in re.finditer(r"^[ \t]*structure\b[^\n:]*:(?:[ \t]*domain\b)?([^\n#]*)", text, flags=re.M):
        nums = [(m.start(1) + x.start(), m.start(1) + x.end(), x.group(0)) for x in re.finditer(r"\d+", m.group(1))]
        for i in range(len(nums)):
            for j in range(i + 1, len(nums)):
                (a1, b1, t1), (a2, b2, t2) = nums[i], nums[j]
                if t1 != t2:
                    out.append((text[:a1] + t2 + text[b1:a2] + t1 + text[b2:], "swap-numbers %s %s" % (t1, t2)))
    return out


def compile_dir(d, entry, args, includes, fmt="pil"):
    from peppercompiler import compiler as pc
    import peppercompiler.utils as utils
    utils.DEBUG = False
    cwd = os.getcwd(); os.chdir(d)
    try:
        for fn in ("__o." + fmt, "__o.save"):
            if os.path.exists(fn):
                os.remove(fn)
        try:
            with quiet():
                pc.compiler(entry, list(args), "__o." + fmt, "__o.save", None, fmt == "pil", includes or None)
            return open("__o." + fmt).read()
        except BaseException as e:
            if isinstance(e, KeyboardInterrupt): raise
            return None
    finally:
        os.chdir(cwd)


def run(st, tier, seed):
    res = Result("C09")
    res.rule = ("single-token mutations (delete, duplicate, swap with the next token or with another token of the same class on the line, perturb a number / name / star / bracket / notation "
                "keyword) of generated programs and of the repository's example programs, applied to one file of the program; every "
                "unmutated program is checked too; non-trivial = a mutant the compiler accepts; distinct by mutated text")
    rng = core.rng_for(seed, "c09")
    n_prog = 25 if tier == "quick" else 300
    n_mut = 40 if tier == "quick" else 150
    examples = json.load(open(os.path.join(core.CORPUS, "examples.json")))
    n_ex = 12 if tier == "quick" else len(examples)
    bundles = []
    mutated_texts = []

    def judge(text_out, inp, what, redo=None):
        if redo is not None:
            # the compiler has a second back-end: the same (accepted) program compiled to .des must be well formed too
            des = redo()
            res.count("des-backend:" + ("accepted" if des is not None else "rejected"))
            if des is not None:
                pd = wellformed.check_des(des)
                if pd:
                    res.violations.append({"what": "the compiler produced an ill-formed .des specification (%s): %s" % (what, pd[0]), "input": inp,
                                           "observed": pd[:4], "des": des[:3000], "sig": "C09:illformed-des:" + pd[0].split(" ")[0],
                                           "cmd": "pepper-compiler --des " + inp["entry"]})
        probs = wellformed.check(text_out)
        if probs:
            res.violations.append({"what": "the compiler produced an ill-formed specification (%s): %s" % (what, probs[0]), "input": inp,
                                   "observed": probs[:4], "pil": text_out[:3000], "sig": "C09:illformed:" + probs[0].split(":")[0].split(" ")[0],
                                   "cmd": "pepper-compiler " + inp["entry"]})

    # generated programs
    for i in range(n_prog):
        b = progen.gen_component_bundle(rng, size=rng.choice([3, 6, 10])) if rng.random() < 0.5 else \
            progen.gen_system_bundle(rng, depth=rng.randint(1, 3), size=4, n_templates=2)
        if i % 12 == 7:
            b = progen.both_orientation_bundle(rng)     # directed: a port bound in both orientations inside a nested system
            res.count("directed:port-bound-in-both-orientations")
        if b is None:
            continue
        if not getattr(b, "directed", False):
            bundles.append(("w%d" % i, b))
        with core.scratch("pepper_c09_") as d:
            progen.write_bundle(b, d)
            base = compile_dir(d, b.entry, [], b.includes)
            res.evaluations += 1
            inp0 = {"files": b.texts, "entry": b.entry, "includes": b.includes}
            if base is not None:
                judge(base, inp0, "unmutated program", redo=lambda: compile_dir(d, b.entry, [], b.includes, "des"))
            muts = []
            for k in range(n_mut):
                rel = rng.choice(sorted(b.texts))
                mt, what = mutate(b.texts[rel], rng)
                muts.append((rel, mt, what))
            # exhaustive family: every redefinition of one name by another (capped)
            rel0 = rng.choice(sorted(x for x in b.texts if x.endswith(".comp")) or sorted(b.texts))
            redefs = all_redefinitions(b.texts[rel0])
            rng.shuffle(redefs)
            muts += [(rel0, mt, what) for mt, what in redefs[:60 if tier == "quick" else 250]]
            swaps = all_number_swaps(b.texts[rel0])
            rng.shuffle(swaps)
            muts += [(rel0, mt, what) for mt, what in swaps[:40 if tier == "quick" else 150]]
            for rel, mt, what in muts:
                if mt == b.texts[rel]:
                    continue
                with open(os.path.join(d, rel), "w") as f:
                    f.write(mt)
                out = compile_dir(d, b.entry, [], b.includes)
                des_out = compile_dir(d, b.entry, [], b.includes, "des") if out is not None else None
                with open(os.path.join(d, rel), "w") as f:
                    f.write(b.texts[rel])
                res.evaluations += 1
                mutated_texts.append((rel, mt))
                res.count("mutation:" + what.split(" ")[0])
                res.count("mutant:" + ("accepted" if out is not None else "rejected"))
                if out is not None:
                    res.nontriv(mt)
                    inp = dict(inp0, files=dict(b.texts, **{rel: mt}), mutation=what, mutated_file=rel)
                    judge(out, inp, what, redo=lambda: des_out)
                    if len(res.samples) < 2:
                        res.sample({"mutation": what, "file": rel, "accepted": True})
    # more UNMUTATED programs through both back-ends (cheap: no mutants): nesting, starred nested super-sequences, repeated ports
    for k in range(60 if tier == "quick" else 1200):
        b = progen.gen_component_bundle(rng, size=rng.choice([6, 10, 14])) if rng.random() < 0.5 else \
            progen.gen_system_bundle(rng, depth=rng.randint(1, 3), size=5, n_templates=2)
        if b is None:
            continue
        with core.scratch("pepper_c09u_") as d:
            progen.write_bundle(b, d)
            base = compile_dir(d, b.entry, [], b.includes)
            res.evaluations += 1
            res.count("unmutated-extra")
            if base is not None:
                judge(base, {"files": b.texts, "entry": b.entry, "includes": b.includes}, "unmutated program",
                      redo=lambda: compile_dir(d, b.entry, [], b.includes, "des"))
    # directed: several helices side by side in run-length notation; EVERY exchange of two counts on the structure line (counts that
    # cancel in the total length: a helix that closes more than it opened, made up for by a later one) must be rejected or stay balanced
    for k in range(6 if tier == "quick" else 80):
        hs = [(rng.randint(1, 5), rng.randint(3, 6)) for _ in range(rng.randint(2, 3))]
        if len({a_ for a_, _ in hs}) < 2:
            hs[0] = (hs[0][0] + 1 + hs[1][0], hs[0][1])
        long_stem = (k % 8 == 0)
        if long_stem:
            # a helix of well over a hundred base pairs in front: the recursive structure grammar of the compiler runs into the interpreter's
            # recursion limit there (the program may be refused for that reason - a resource limit, not judged), but whatever IS accepted,
            # unmutated or with two counts exchanged, must still be balanced
            hs = [(rng.randint(120, 190), rng.randint(3, 6))] + hs
            res.count("directed:helices-side-by-side:long-stem")
        gap = [rng.randint(0, 2) for _ in hs]
        total = sum(2 * a_ + l_ + g_ for (a_, l_), g_ in zip(hs, gap))
        sp_ = lambda: rng.choice([" ", " ", "  ", "\t"])
        struct = sp_().join(("%d." % g_ + sp_() if g_ else "") + "%d(%s%d.%s%d)" % (a_, sp_(), l_, sp_(), a_) for (a_, l_), g_ in zip(hs, gap))
        text = ("declare component Top: ->\nsequence a = \"%dN\"\nstrand A = a\nstructure HP = A : %s\n" % (total, struct))
        b = progen.Bundle(); b.texts["top.comp"] = text; b.entry = "top"
        with core.scratch("pepper_c09h_") as d:
            progen.write_bundle(b, d)
            inp0 = {"files": b.texts, "entry": "top", "includes": []}
            base = compile_dir(d, "top", [], [])
            res.evaluations += 1
            res.count("directed:helices-side-by-side")
            if base is None and not long_stem:
                res.violations.append({"what": "a well-formed program (helices side by side, run-length notation) is rejected", "input": inp0,
                                       "sig": "C09:rejects-valid", "cmd": "pepper-compiler top"})
                continue
            if base is not None:
                judge(base, inp0, "unmutated program", redo=lambda: compile_dir(d, "top", [], [], "des"))
            for mt, what in all_number_swaps(text):
                with open(os.path.join(d, "top.comp"), "w") as f:
                    f.write(mt)
                out = compile_dir(d, "top", [], [])
                des_out = compile_dir(d, "top", [], [], "des") if out is not None else None
                res.evaluations += 1
                res.count("mutation:swap-numbers(helices)")
                res.count("mutant:" + ("accepted" if out is not None else "rejected"))
                if out is not None:
                    judge(out, dict(inp0, files={"top.comp": mt}, mutation=what, mutated_file="top.comp"), what, redo=lambda: des_out)
    # directed: a domain-level structure whose paired domains have DIFFERENT lengths expands to an unbalanced string; whatever the
    # optimisation parameter says ([no-opt] included) it must be rejected, or what is emitted must be balanced
    for k in range(8 if tier == "quick" else 80):
        la, lb = rng.randint(1, 8), rng.randint(1, 8)
        if la == lb:
            lb += rng.randint(1, 3)
        optx = ["[no-opt] ", "[0nt] ", "", "[2nt] ", "[no-opt]\t"][k % 5]
        text = ('declare component Top: ->\nsequence a = "%dN"\nsequence b = "%dN"\nsequence c = "4N"\nstrand A = a c\nstrand B = c* b\n'
                'structure %sG = A + B : domain %s\n' % (la, lb, optx, rng.choice(["(. + .)", "((+))", "(.+.)"])))
        b = progen.Bundle(); b.texts["top.comp"] = text; b.entry = "top"
        with core.scratch("pepper_c09d_") as d:
            progen.write_bundle(b, d)
            out = compile_dir(d, "top", [], [])
            des_out = compile_dir(d, "top", [], [], "des") if out is not None else None
            res.evaluations += 1
            res.count("directed:domain-level-pair-of-different-lengths:" + ("accepted" if out is not None else "rejected"))
            if out is not None:
                judge(out, {"files": b.texts, "entry": "top", "includes": []}, "paired domains of lengths %d and %d" % (la, lb), redo=lambda: des_out)
    # directed: number of instance arguments vs number of template parameters.  The entry file of a generated program gets two
    # (unused) parameters; it is compiled at top level with 2 / 1 / 3 arguments and, wrapped into a system, as an instance with
    # (1, 2) / (1) / (1, 2, 3) / ().  Wherever the numbers differ the compiler must not produce output.
    for name, b in bundles[:12 if tier == "quick" else 250]:
        ek = [k for k in b.texts if os.path.splitext(k)[0] == b.entry]
        if len(ek) != 1:
            continue
        ek = ek[0]
        m = re.search(r"^(\s*declare\s+(component|system)\s+)([A-Za-z]\w*)(\s*:)(.*?)->(.*)$", b.texts[ek], flags=re.M)
        if not m or not re.match(r"[A-Za-z]\w*\Z", b.entry):
            continue
        n_in = len([x for x in m.group(5).split("+") if x.strip()]); n_out = len([x for x in m.group(6).split("#")[0].split("+") if x.strip()])
        ptext = b.texts[ek][:m.start(4)] + "(pA, pB)" + b.texts[ek][m.start(4):]
        with core.scratch("pepper_c09a_") as d:
            progen.write_bundle(b, d)
            if compile_dir(d, b.entry, [], b.includes) is None:
                continue
            with open(os.path.join(d, ek), "w") as f:
                f.write(ptext)
            files = dict(b.texts, **{ek: ptext})
            ok2 = compile_dir(d, b.entry, [1, 2], b.includes)
            res.evaluations += 1
            res.count("arity:top-level:2-of-2:" + ("accepted" if ok2 is not None else "rejected"))
            if ok2 is None:
                res.violations.append({"what": "a program that compiles stops compiling when its entry file declares two unused parameters and gets two arguments",
                                       "input": {"files": files, "entry": b.entry, "args": [1, 2], "includes": b.includes}, "sig": "C09:arity:exact-rejected",
                                       "cmd": "pepper-compiler %s 1 2" % b.entry})
                continue
            for args in ([1], [1, 2, 3], []):
                out = compile_dir(d, b.entry, args, b.includes)
                res.evaluations += 1
                res.count("arity:top-level:%d-of-2:%s" % (len(args), "accepted" if out is not None else "rejected"))
                if out is not None:
                    res.violations.append({"what": "the entry file declares 2 parameters, %d arguments were given, and the compiler produced output" % len(args),
                                           "input": {"files": files, "entry": b.entry, "args": args, "includes": b.includes}, "sig": "C09:arity:top-level",
                                           "cmd": "pepper-compiler %s %s" % (b.entry, " ".join(map(str, args)))})
            sigs = ["q%d" % i for i in range(n_in + n_out)]
            def wrapper(argtext):
                return "declare system Wrap: ->\nimport %s\ncomponent w = %s%s: %s -> %s\n" % (
                    b.entry, b.entry, argtext, " + ".join(sigs[:n_in]), " + ".join(sigs[n_in:]))
            def compile_wrapped(argtext):
                with open(os.path.join(d, "Wrap.sys"), "w") as f:
                    f.write(wrapper(argtext))
                return compile_dir(d, "Wrap", [], b.includes)
            if compile_wrapped("(1, 2)") is None:
                res.count("arity:nested:wrapper-not-applicable"); continue
            for argtext in ("(1)", "(1, 2, 3)", "", "()", "(1, 2, 3, 4)"):
                out = compile_wrapped(argtext)
                res.evaluations += 1
                res.count("arity:nested:%s:%s" % (argtext or "none", "accepted" if out is not None else "rejected"))
                if out is not None:
                    res.violations.append({"what": "template %s declares 2 parameters, the instance passes %r, and the compiler produced output" % (b.entry, argtext),
                                           "input": {"files": dict(files, **{"Wrap.sys": wrapper(argtext)}), "entry": "Wrap", "includes": b.includes},
                                           "sig": "C09:arity:nested", "cmd": "pepper-compiler Wrap"})
            # the same for the PORT lists of the instance: one signal too few / too many on the input side only, or on the output side only
            for what_, ins_, outs_ in (("one input fewer", sigs[:n_in][:-1], sigs[n_in:]), ("one output fewer", sigs[:n_in], sigs[n_in:][:-1]),
                                       ("one input more", sigs[:n_in] + ["qx"], sigs[n_in:]), ("one output more", sigs[:n_in], sigs[n_in:] + ["qx"]),
                                       ("arrow shifted left", sigs[:n_in][:-1], sigs[:n_in][-1:] + sigs[n_in:]),
                                       ("arrow shifted right", sigs[:n_in] + sigs[n_in:][:1], sigs[n_in:][1:])):
                if (ins_, outs_) == (sigs[:n_in], sigs[n_in:]):
                    continue      # nothing to take away on that side
                wtext = "declare system Wrap: ->\nimport %s\ncomponent w = %s(1, 2): %s -> %s\n" % (b.entry, b.entry, " + ".join(ins_), " + ".join(outs_))
                with open(os.path.join(d, "Wrap.sys"), "w") as f:
                    f.write(wtext)
                out = compile_dir(d, "Wrap", [], b.includes)
                res.evaluations += 1
                res.count("arity:ports:%s:%s" % (what_, "accepted" if out is not None else "rejected"))
                if out is not None:
                    res.violations.append({"what": "template %s declares %d input and %d output ports, the instance binds %d and %d (%s), and the compiler produced output" % (b.entry, n_in, n_out, len(ins_), len(outs_), what_),
                                           "input": {"files": dict(files, **{"Wrap.sys": wtext}), "entry": "Wrap", "includes": b.includes},
                                           "sig": "C09:arity:ports", "cmd": "pepper-compiler Wrap"})
    # directed: a user name of the reserved form _Anon<k> that clashes with the k-th anonymous region of the process
    # (defect F16: the strand silently referred to the user's sequence); must be rejected or well formed
    for k in range(6 if tier == "quick" else 40):
        with core.scratch("pepper_c09r_") as d:
            n = impl.anon_counter() + rng.randint(0, 1)
            L1, L2 = rng.randint(1, 6), rng.randint(1, 6)
            text = ('declare component T: ->\nsequence _Anon%d = "%dN"\nsequence s = "%dN" "2N"\nstrand X = "%dN" s\n'
                    'structure S = X : %d.\n' % (n, L1, L2, L2, 2 * L2 + 2))
            with open(os.path.join(d, "t.comp"), "w") as f:
                f.write(text)
            out = compile_dir(d, "t", [], None)
            res.evaluations += 1
            res.count("directed:reserved-name-clash")
            if out is not None:
                judge(out, {"files": {"t.comp": text}, "entry": "t", "includes": []}, "user name of the reserved form _Anon<k>")
    # example programs
    ex = rng.sample(examples, n_ex)
    for relp, args in ex:
        src_dir = os.path.join(core.REPO, "examples", os.path.dirname(relp))
        with core.scratch("pepper_c09e_") as d:
            work = os.path.join(d, "w")
            shutil.copytree(src_dir, work)
            entry = os.path.basename(relp).rsplit(".", 1)[0]
            orig = open(os.path.join(work, os.path.basename(relp))).read()
            base = compile_dir(work, entry, args, None)
            res.evaluations += 1
            res.count("example")
            inp0 = {"files": {"examples/" + relp: "(repository file)"}, "entry": entry, "args": args, "includes": []}
            if base is not None:
                judge(base, inp0, "unmutated example", redo=lambda: compile_dir(work, entry, args, None, "des"))
            for k in range(n_mut // 2):
                mt, what = mutate(orig, rng)
                with open(os.path.join(work, os.path.basename(relp)), "w") as f:
                    f.write(mt)
                out = compile_dir(work, entry, args, None)
                res.evaluations += 1
                res.count("mutation:" + what.split(" ")[0])
                res.count("mutant:" + ("accepted" if out is not None else "rejected"))
                if out is not None:
                    res.nontriv(mt)
                    judge(out, dict(inp0, files={"examples/" + relp: mt}, mutation=what), what)
    # text level: every line of a sample of the mutated files through the models of the statement parsers and the real ones
    if st.driver_ok and mutated_texts:
        import parsecorr_comp, parsecorr_sys
        drvp = core.Driver()
        rng.shuffle(mutated_texts)
        cl = [l for rel, t in mutated_texts[:400 if tier == "quick" else 20000] if rel.endswith(".comp") for l in t.split("\n") if l.strip()]
        sl = [l for rel, t in mutated_texts[:400 if tier == "quick" else 20000] if rel.endswith(".sys") for l in t.split("\n") if l.strip()]
        parsecorr_comp.check_lines(res, drvp, list(dict.fromkeys(cl))[:3000 if tier == "quick" else 10 ** 6], "text-mutant")
        parsecorr_sys.check_lines(res, drvp, list(dict.fromkeys(sl))[:1500 if tier == "quick" else 10 ** 6], "text-mutant")
    # model correspondence on the well-formed stream
    sub = Result("C09")
    compile_check.run_bundles(st, sub, bundles, "C09", "program")
    res.corr_breaks += sub.corr_breaks
    res.violations += sub.violations
    res.disagreements_checked += sub.disagreements_checked
    res.programs = len(bundles) + len(ex)
    return res
