"""C03 — the NUPACK .des output is constraint-equivalent to the source program.

Correspondence: (1) real `compiler(..., synth=False)` vs model op `compile` (format des), token lines;
(2) an independent reader of the implementation's .des text (`semantics.des_doc`) vs the model's document
`Des.desDoc` (op `des-doc`: structure / sequence / assignment / bound lines, in order), which is what the
theorems of PepperProps/C03.lean talk about; (3) the hypotheses of `des_equiv_partial` that are not yet
proved from acceptance are evaluated by the model on every accepted program: `Des.BlocksOk` (names unique,
references resolve, port lengths) must hold and `Des.designOf` (the design of the object tables) must be
the design `Denote.denoteTop` gives the source.
Oracle: the link closure (union-find with parity + allowed-base sets, harness/semantics.py) of what the
implementation's .des says, restricted to the program's structures, must equal that of what the source denotes
(`src-denote`); every program structure is listed once with its target, one sequence assignment and its `<`
bound (no bound iff no-opt)."""
import core
from core import Result
import impl
import progen
import semantics
import pilio
import compile_check

LEVEL = "proof"
LEVEL_NOTE = ("DES semantics (structure line fixes pairs, assignment line lays sequences onto it) is the reading of NUPACK's .des used by the oracle and the theorem; "
              "full theorem des_equiv_of_load / des_equiv_top / des_equiv_of_load_checked for instance trees of any depth under one decidable check of the sources "
              "(desBundleOk, evaluated by the model on every accepted program); one component closed against the source via C01 (des_equiv_component_of_load), "
              "systems via C02 (designOf_sat_iff_of_load)")
replay = compile_check.replay


def fmt_f(t):
    ip, _, fp = t.partition(".")
    ip = ip.lstrip("0") or "0"
    return ip + "." + (fp + "000000")[:6]


def des_wiring_violations(drv, bundles, pid, limit=None):
    """the semantic oracle alone, for other checks (C02): what the .des forces on the program's structures vs what the source
    denotes.  Yields violation dicts with signatures `<pid>:des-…`."""
    reqs, keep = [], []
    for tag, b in bundles[:limit]:
        r = impl.compile_bundle(b, "des")
        if not r["ok"]:
            continue
        rq = progen.compile_request(b, "pil", anon=0); rq["op"] = "src-denote"
        reqs.append(rq); keep.append((b, r))
    out = []
    for (b, r), g in zip(keep, drv.call_many(reqs)):
        if "ok" not in g:
            continue
        inp = {"files": b.texts, "entry": b.entry, "includes": b.includes}
        cmd = "pepper-compiler --des " + b.entry
        d = pilio.canon_design(g["ok"])
        try:
            B, dstructs, bounds = semantics.system_of_des(r["text"])
        except (ValueError, KeyError, IndexError) as e:
            out.append({"what": "emitted .des is not well formed: %s" % e, "input": inp, "observed": r["text"], "sig": pid + ":des-invalid", "cmd": cmd})
            continue
        A = semantics.system_of_design(d)
        names = [s_[0] for s_ in d["structs"]]
        fa, fb = A.forced(names), B.forced(names)
        if fa["conflict"] != fb["conflict"] or (not fa["conflict"] and fa != fb):
            out.append({"what": "in the .des specification the ports are not tied to their signals as the source says (forced equalities / "
                                "complementarities / allowed bases on the program's structures differ)", "input": inp,
                        "observed": {"classes_only_in_des": sorted(fb["classes"] - fa["classes"])[:2],
                                     "classes_only_in_source": sorted(fa["classes"] - fb["classes"])[:2]},
                        "des": r["text"], "sig": pid + ":des-not-equivalent", "cmd": cmd})
    return out, len(keep)


def check_port_structures(res, rng, n):
    """directed: a component input declared WITH a structure whose strands are all [dummy] (the placeholder complex of the incoming
    signal), instantiated behind a component that exports the same signal with a structure.  The clause judged here is the last one of
    the property: EVERY structure is listed with its target and its optimisation bound (one `<name> < bound` line iff the source bound
    is non-zero), placeholders included."""
    import re as _re
    for k in range(n):
        t_, d_, tl, x3 = rng.randint(3, 6), rng.randint(5, 9), rng.randint(2, 6), rng.randint(1, 4)
        b_out, b_in, b_gate = rng.choice([1, 2, 3.5]), rng.choice([1, 3, 0.5, 4]), rng.choice([2, 5])
        up = ('declare component up: -> out(OUT)\nsequence toe = "%dN"\nsequence dom = "%dN"\nsequence out = toe dom\nstrand Out = out "%dN"\n'
              'structure [%snt] OUT = Out : %d.\n' % (t_, d_, x3, b_out, t_ + d_ + x3))
        down = ('declare component down: in(IN) ->\nsequence toe = "%dN"\nsequence dom = "%dN"\nsequence tail = "%dN"\nsequence in = toe dom\n'
                'strand [dummy] In = in tail\nstrand Base = dom* toe*\nstructure [%snt] IN = In : %d.\n'
                'structure [%snt] Gate = In + Base : %d( %d. + %d)\nstructure [no-opt] Free = Base : %d.\n'
                % (t_, d_, tl, b_in, t_ + d_ + tl, b_gate, t_ + d_, tl, t_ + d_, t_ + d_))
        sysx = "declare system demo: ->\nimport up, down\ncomponent U = up: -> sig\ncomponent D = down: sig ->\n"
        b = progen.Bundle(); b.texts.update({"up.comp": up, "down.comp": down, "demo.sys": sysx}); b.entry = "demo"; b.directed = True
        r = impl.compile_bundle(b, "des")
        res.evaluations += 1
        res.count("directed:input-port-with-all-dummy-structure")
        inp = {"files": b.texts, "entry": "demo"}
        if not r["ok"]:
            res.violations.append({"what": "a well-formed system (input port with a placeholder structure) is rejected by the .des back-end: %s" % r.get("exc"),
                                   "input": inp, "sig": "C03:rejects-valid", "cmd": "pepper-compiler --des demo"})
            continue
        bounds = {}
        for line in r["text"].split("\n"):
            m = _re.match(r"^\s*(\S+)\s*<\s*([0-9.eE+-]+)\s*$", line)
            if m:
                bounds.setdefault(m.group(1), []).append(float(m.group(2)))
        want = {"U-OUT": float(b_out), "D-IN": float(b_in), "D-Gate": float(b_gate)}
        for name, val_ in want.items():
            if bounds.get(name) != [val_]:
                res.violations.append({"what": "structure %s has the bound %gnt in the source, the .des lists %r for it" % (name, val_, bounds.get(name, [])),
                                       "input": inp, "observed": {k_: v_ for k_, v_ in bounds.items()}, "sig": "C03:bound-line", "cmd": "pepper-compiler --des demo"})
                break
        if "D-Free" in bounds:
            res.violations.append({"what": "structure D-Free is [no-opt] in the source but has a bound line in the .des", "input": inp,
                                   "sig": "C03:bound-line", "cmd": "pepper-compiler --des demo"})


def run(st, tier, seed):
    res = Result("C03")
    res.rule = ("component and system programs from the shared generator (as C01/C02), compiled with the .des back-end; "
                "non-trivial = at least 3 statements; distinct by source texts")
    rng = core.rng_for(seed, "c03")
    n = 150 if tier == "quick" else 3000
    bundles = []
    for i in range(n):
        if rng.random() < 0.5:
            b = progen.gen_component_bundle(rng, size=rng.choice([2, 4, 8, 12]), satisfiable=rng.random() < 0.7)
        else:
            b = progen.gen_system_bundle(rng, depth=rng.randint(1, 3), size=rng.choice([3, 5, 8]), n_templates=rng.randint(1, 3))
        if b is not None:
            bundles.append(("d%d" % i, b))
    exb = compile_check.example_bundles(rng, 10 if tier == "quick" else 200)
    res.count("repository-examples", len(exb))
    bundles += exb
    check_port_structures(res, rng, 4 if tier == "quick" else 60)
    # correspondence (model vs impl, des lines)
    compile_check.run_bundles(st, res, bundles, "C03", "program", fmt="des")
    res.violations = [v for v in res.violations if not v["sig"].startswith("C03:denotation")]  # PIL oracle does not apply to des text
    # oracle
    drv = core.Driver() if st.driver_ok else None
    if drv is None:
        return res
    reqs, keep = [], []
    for tag, b in bundles:
        r = impl.compile_bundle(b, "des")
        if not r["ok"]:
            continue
        rq = progen.compile_request(b, "pil", anon=0); rq["op"] = "src-denote"
        rq2 = progen.compile_request(b, "des", anon=r["anon_before"]); rq2["op"] = "des-doc"
        reqs.append(rq); reqs.append(rq2); keep.append((tag, b, r))
    got = drv.call_many(reqs)
    for k, (tag, b, r) in enumerate(keep):
        g, gd = got[2 * k], got[2 * k + 1]
        res.evaluations += 1
        inp = {"files": b.texts, "entry": b.entry, "includes": b.includes}
        cmd = "pepper-compiler --des " + b.entry
        # correspondence (2): the document the theorems are about is the document the implementation wrote
        res.disagreements_checked += 1
        try:
            have_doc = semantics.des_doc(r["text"])
        except ValueError:
            have_doc = None     # reported below as C03:invalid-des
        if "ok" not in gd:
            res.corr_breaks.append({"name": "Des.desDoc", "input": inp, "model": gd, "impl": "accepted"})
        elif have_doc is not None:
            md = gd["ok"]
            if {x: md[x] for x in have_doc} != have_doc:
                diff = [x for x in have_doc if md[x] != have_doc[x]]
                res.corr_breaks.append({"name": "Des.desDoc", "input": inp, "differs_in": diff,
                                        "model": {x: md[x] for x in diff}, "impl": {x: have_doc[x] for x in diff}})
            else:
                res.count("des-doc:agree")
                if not md["tables_ok"] or not md["wf"]:
                    res.corr_breaks.append({"name": "Des.BlocksOk", "input": inp,
                                            "model": {"tables_ok": md["tables_ok"], "wf": md["wf"]},
                                            "impl": "hypothesis of des_equiv_partial fails on an accepted program"})
                elif "ok" in g:
                    dd = pilio.design_diff(pilio.canon_design(g["ok"]), pilio.canon_design(md["design"]))
                    if dd is not None:
                        res.corr_breaks.append({"name": "Des.designOf", "input": inp, "model": dd["output_denotes"],
                                                "impl": dd["source_denotes"], "field": dd["field"]})
                    else:
                        res.count("designOf=denote")
        if "ok" not in g:
            res.corr_breaks.append({"name": "Denote.accept", "input": inp, "model": g, "impl": "accepted"}); continue
        d = pilio.canon_design(g["ok"])
        try:
            B, dstructs, bounds = semantics.system_of_des(r["text"])
        except (ValueError, KeyError, IndexError) as e:
            res.violations.append({"what": "emitted .des is not well formed: %s" % e, "input": inp, "observed": r["text"], "sig": "C03:invalid-des", "cmd": cmd})
            continue
        A = semantics.system_of_design(d)
        names = [s[0] for s in d["structs"]]
        for name, snames, dp, opt in d["structs"]:
            if dstructs.get(name) != dp:
                res.violations.append({"what": "structure %s is not listed with its target" % name, "input": inp, "expected": dp,
                                       "observed": dstructs.get(name), "sig": "C03:target", "cmd": cmd})
            want = None if opt == "no-opt" else (fmt_f(str(opt)) if not str(opt).startswith("other:") else fmt_f(str(opt)[6:]))
            if bounds.get(name) != want:
                res.violations.append({"what": "structure %s: optimisation bound is %r, source says %r" % (name, bounds.get(name), want),
                                       "input": inp, "sig": "C03:bound", "cmd": cmd})
        fa, fb = A.forced(names), B.forced(names)
        if fa["conflict"] != fb["conflict"] or (not fa["conflict"] and fa != fb):
            extra = sorted(fb["classes"] - fa["classes"])[:2]
            missing = sorted(fa["classes"] - fb["classes"])[:2]
            al = [(k, fa["allowed"][k], fb["allowed"].get(k)) for k in fa["allowed"] if fa["allowed"][k] != fb["allowed"].get(k)][:3]
            res.violations.append({"what": "the .des forces different equalities / complementarities / allowed bases on the program's structures than the source",
                                   "input": inp, "observed": {"classes_only_in_des": extra, "classes_only_in_source": missing, "allowed_differs": al},
                                   "des": r["text"], "sig": "C03:not-equivalent", "cmd": cmd})
    return res
