"""C14 — zero-length domains are inert.

For generated programs `prog` a variant `prog'` is derived by INSERTING zero-length objects (a zero-length atomic
sequence, a zero-length quoted region, a zero-length super-sequence) at chosen places (first, last, adjacent,
only member of a new super-sequence, starred, inside a super-sequence read through domains(), as the last
definition of the component) — deletion is the same pair read backwards.
Oracle on the real code: both compile; the PIL of prog' denotes the same design as that of prog once the
inserted names are removed (anonymous domains renamed consistently); the .des outputs are equal up to that
renaming; and the whole tool chain (constraints -> design -> .mfe -> finish) still succeeds on prog'.
Correspondence: the model compiles prog' to the same lines as the implementation (C01's correspondence)."""
import copy
import json

import core
from core import Result
import progen
import impl
import pilio
import pipeline
import compile_check
from props.c18 import canon_text

LEVEL = "proof"
LEVEL_NOTE = "corollary of the compile refinement (C01) and of the denotation being a concatenation; pipeline robustness validated on the real tool chain"
replay = compile_check.replay


def insert_zero(ast, rng):
    """returns (new_ast, inserted_names, placement description) or None"""
    a = copy.deepcopy(ast)
    stmts = a["stmts"]
    used = {s["name"] for s in stmts if "name" in s}
    def fresh(base):
        k = 0
        while "%s%d" % (base, k) in used:
            k += 1
        used.add("%s%d" % (base, k))
        return "%s%d" % (base, k)
    inserted = []
    place = rng.choice(["item-first", "item-last", "item-middle", "starred", "quoted", "zero-super", "only-member", "in-domains-target", "last-definition",
                        "beside-wildcard", "beside-wildcard", "in-port", "in-port"])
    z = fresh("zz")
    zdef = {"k": "seq", "name": z, "items": [{"t": "nuc", "text": rng.choice(["0N", "0N 0S", "?N"])}], "len": None}
    if "?" in zdef["items"][0]["text"]:
        zdef["len"] = 0
    inserted.append(z)
    if place == "last-definition":
        stmts.append(zdef)
        return a, inserted, place
    stmts.insert(0, zdef)
    targets = [s for s in stmts[1:] if s["k"] in ("seq", "strand") and not (s["k"] == "seq" and len(s["items"]) == 1 and s["items"][0]["t"] == "nuc")]
    if place == "beside-wildcard":
        # `sequence x = "?N" : L` -> `sequence x = zz "?N" zz* : L`: the only explicit members are zero-length
        wilds = [s_ for s_ in stmts[1:] if s_["k"] in ("seq", "strand") and s_["len"] and
                 any(it["t"] == "nuc" and "?" in it["text"] for it in s_["items"]) and
                 all(it["t"] == "nuc" and "?" in it["text"] for it in s_["items"])]
        if not wilds:
            return None
        t = rng.choice(wilds)
        zi = lambda: {"t": "ref", "name": z, "star": rng.random() < 0.3}
        side = rng.choice(["first", "last", "both"])
        if side in ("first", "both"):
            t["items"].insert(0, zi())
        if side in ("last", "both"):
            t["items"].append(zi())
        a["_target"] = (t["k"], t["name"])
        return a, inserted, place
    if place == "only-member":
        e = fresh("zonly")
        idx = rng.randint(1, len(stmts))
        stmts.insert(idx, {"k": "seq", "name": e, "items": [{"t": "ref", "name": z, "star": rng.random() < 0.5}, {"t": "ref", "name": z, "star": False}], "len": rng.choice([None, 0])})
        inserted.append(e)
        return a, inserted, place
    if not targets:
        return None
    # a declared wildcard length stays right because the inserted item has length 0
    if place == "in-domains-target":
        sup_names = {s["name"] for s in targets if s["k"] == "seq"}
        doms = [it["name"] for s in stmts for it in s.get("items", []) if it["t"] == "dom" and it["name"] in sup_names]
        # inserting a member changes the number of domains of every strand that reads it through domains():
        # only harmless when no domain-level structure uses such a strand; the generator was asked for none
        if not doms:
            return None
        pick = rng.choice(doms)
        t = next(s for s in targets if s["k"] == "seq" and s["name"] == pick)
    elif place == "in-port":
        # a member of a super-sequence the component declares as a port (a system lists the members of such a port again in the
        # connector structures of the .des back-end)
        pnames = {p["seq"] for p in a.get("inputs", []) + a.get("outputs", [])}
        cands = [s for s in targets if s["k"] == "seq" and s["name"] in pnames]
        if not cands:
            return None
        t = rng.choice(cands)
    else:
        t = rng.choice(targets)
    item = {"t": "ref", "name": z, "star": place == "starred" or rng.random() < 0.2}
    if place == "quoted":
        item = {"t": "nuc", "text": "0N"}
    if place == "zero-super":
        e = fresh("zsup")
        stmts.insert(1, {"k": "seq", "name": e, "items": [{"t": "ref", "name": z, "star": False}, {"t": "nuc", "text": "0W"}], "len": None})
        inserted.append(e)
        item = {"t": "ref", "name": e, "star": rng.random() < 0.5}
    pos = {"item-first": 0, "item-last": len(t["items"])}.get(place, rng.randint(0, len(t["items"])))
    t["items"].insert(pos, item)
    a["_target"] = (t["k"], t["name"])
    return a, inserted, place


def canon_by_strands(d):
    from semantics import parse_nuc
    ren = {}
    tmpl = dict((n, t) for n, t in d["domains"])
    def rn(x):
        (dom, idx), comp = parse_nuc(x)
        if dom not in ren:
            ren[dom] = "D%d" % len(ren)
        return "%s:%d%s" % (ren[dom], idx, "*" if comp else "")
    strands = [[n, dm, [rn(x) for x in l]] for n, dm, l in d["strands"]]
    return {"domains": sorted([ren[n], t] for n, t in tmpl.items() if n in ren), "seqs": [], "strands": strands,
            "structs": d["structs"], "kinetics": [], "equals": [[[rn(x) for x in reg] for reg in e] for e in d["equals"]]}


def strip_inserted(design, names):
    d = dict(design)
    names = set(names)
    d["domains"] = [x for x in design["domains"] if x[0].split("-")[-1] not in names]
    d["seqs"] = [x for x in design["seqs"] if x[0].split("-")[-1] not in names]
    return d


def wildcard_zero_pair(rng):
    """(program without the region, program with a `?` region that resolves to 0 nt) where the strand / super-sequence that holds the
    region is described by a DOMAIN-level structure (one symbol per item, also for the zero-length region)"""
    import srcparse
    ld, lt = rng.randint(2, 6), rng.randint(2, 5)
    code = rng.choice(["N", "S", "W"])
    where = rng.choice(["strand-first", "strand-middle", "strand-last", "super"])
    head = 'declare component gate: -> \nsequence data = "%dN"\nsequence toe = "%dN"\nstrand X = toe data\n' % (ld, lt)
    items = ["data*", "toe*"]
    syms = [")", ")"]
    k = {"strand-first": 0, "strand-middle": 1, "strand-last": 2, "super": rng.randint(0, 2)}[where]
    it2, sy2 = items[:k] + ['"?%s"' % code] + items[k:], syms[:k] + ["."] + syms[k:]
    def prog(its, sys_):
        if where == "super":
            body = "sequence cs = %s : %d\nstrand C = domains(cs)\n" % (" ".join(its), ld + lt)
        else:
            body = "strand C = %s : %d\n" % (" ".join(its), ld + lt)
        return head + body + "structure [%s] Gate = X + C : domain ((+%s\n" % (opt, "".join(sys_))
    opt = rng.choice(["1nt", "no-opt", "2nt"])
    out = []
    for its, sys_ in ((items, syms), (it2, sy2)):
        with core.scratch("pepper_c14w_") as d:
            with open(d + "/top.comp", "w") as f:
                f.write(prog(its, sys_))
            out.append(srcparse.bundle_from_dir(d, "top", []))
    return out[0], out[1], where


def run(st, tier, seed):
    res = Result("C14")
    res.rule = ("every generated program (components; systems with one transformed template) x 1 insertion drawn from "
                "{first, last, middle, starred, quoted region, zero-length super-sequence, only-member, member of a port super-sequence, inside a super-sequence read "
                "through domains(), last definition of the component}; non-trivial = the insertion touches a super-sequence or strand; "
                "distinct by (source, placement)")
    rng = core.rng_for(seed, "c14")
    n = 90 if tier == "quick" else 3000
    drv = core.Driver() if st.driver_ok else None
    bundles = []
    for i in range(n):
        if rng.random() < 0.6:
            b = progen.gen_component_bundle(rng, size=rng.choice([3, 6, 10]), satisfiable=True, allow_domain=False)
        else:
            b = progen.gen_system_bundle(rng, depth=rng.randint(1, 2), size=4, n_templates=2, satisfiable=True, allow_domain=False)
        if b is None:
            continue
        if i % 15 == 4:
            # directed: a `?` region that resolves to 0 nt under a domain-level structure
            b, b2, where = wildcard_zero_pair(rng)
            inserted, place, ast2 = [], "beside-wildcard", None
            res.count("directed:zero-length-wildcard-region-under-domain-structure:" + where)
        else:
            rel = rng.choice(sorted(b.asts))
            tr = insert_zero(b.asts[rel], rng)
            if tr is None:
                continue
            ast2, inserted, place = tr
            b2 = progen.set_component(b, rel, ast2, rng)
        res.evaluations += 1
        res.count("placement:" + place)
        inp = {"files": b.texts, "files_with_zero_length_objects": b2.texts, "inserted": inserted, "placement": place,
               "entry": b.entry, "includes": b.includes}
        if place not in ("last-definition", "only-member"):
            res.nontriv((b2.texts, place))
        r1, r2 = impl.compile_bundle(b, "pil"), impl.compile_bundle(b2, "pil")
        cmd = "pepper-compiler on both file sets"
        if r1["ok"] != r2["ok"]:
            res.violations.append({"what": "inserting zero-length objects (%s) changes whether the program compiles" % place, "input": inp,
                                   "observed": [r1.get("exc"), r2.get("exc"), r2.get("stderr", "")[-200:]], "sig": "C14:accept", "cmd": cmd})
            continue
        if not r1["ok"]:
            res.count("both-rejected"); continue
        bundles.append(("z%d" % i, b2))
        if drv is not None:
            try:
                d1 = drv.call({"op": "pil-design", "stmts": [s for s in pilio.read_pil(r1["text"]) if s["k"] != "kinetic"]})
                d2 = drv.call({"op": "pil-design", "stmts": [s for s in pilio.read_pil(r2["text"]) if s["k"] != "kinetic"]})
            except pilio.PilSyntax as e:
                res.violations.append({"what": "zero-length insertion (%s) produces invalid PIL: %s" % (place, e), "input": inp, "observed": r2["text"],
                                       "sig": "C14:invalid-pil", "cmd": cmd})
                continue
            if "ok" not in d2 or "ok" not in d1:
                res.violations.append({"what": "zero-length insertion (%s) produces a PIL the designer front-end cannot load" % place, "input": inp,
                                       "observed": r2["text"], "sig": "C14:unloadable", "cmd": cmd})
                continue
            if place == "beside-wildcard":
                # an atomic sequence became a super-sequence over an anonymous region: names of domains legitimately change;
                # compare strands, structures and templates up to a renaming of ALL domains by first occurrence in the strands
                c1, c2 = canon_by_strands(d1["ok"]), canon_by_strands(d2["ok"])
            else:
                c1 = pilio.canon_design(d1["ok"]); c2 = pilio.canon_design(strip_inserted(d2["ok"], inserted))
            diff = pilio.design_diff(c1, c2)
            if diff is not None:
                res.violations.append({"what": "zero-length insertion (%s) changes what the PIL denotes for other objects (%s #%d)" % (place, diff["field"], diff["index"]),
                                       "input": inp, "expected": diff["source_denotes"], "observed": diff["output_denotes"], "sig": "C14:changed:" + diff["field"], "cmd": cmd})
        # --fixed: fixing the object that received the zero-length item (its empty slice is handed to the zero-length member)
        # must work exactly as without the item
        tgt = ast2.get("_target") if (i % 15 != 4 and isinstance(ast2, dict)) else None
        if tgt and b.entry == "top" and not any(k.endswith(".sys") for k in b.texts):
            import re as _re
            mm = _re.search(r"^(?:strand(?: \[dummy\])?|sup-sequence|sequence) %s = .* : (\d+)$" % _re.escape(tgt[1]), r1["text"], flags=_re.M)
            if mm and int(mm.group(1)) > 0:
                ftxt = "%s %s = %s\n" % ("strand" if tgt[0] == "strand" else "sequence", tgt[1],
                                         "".join(rng.choice("NNNS") if rng.random() < 0.7 else "N" for _ in range(int(mm.group(1)))))
                f1, f2 = impl.compile_bundle(b, "pil", fixed_text=ftxt), impl.compile_bundle(b2, "pil", fixed_text=ftxt)
                res.count("with-fixed-file")
                if f1["ok"] != f2["ok"]:
                    res.violations.append({"what": "with zero-length objects inserted (%s), fixing %s %s with --fixed %s" % (
                                               place, tgt[0], tgt[1], "fails (%s) although it works without them" % f2.get("exc") if f1["ok"] else "works although it fails without them"),
                                           "input": dict(inp, fixed=ftxt), "sig": "C14:fixed", "cmd": "pepper-compiler --fixed fixed.fix top"})
        # .des back-end
        q1, q2 = impl.compile_bundle(b, "des"), impl.compile_bundle(b2, "des")
        if place != "beside-wildcard" and q1["ok"] and q2["ok"] and canon_text(q1["text"]) != canon_text(q2["text"]):
            res.violations.append({"what": "zero-length insertion (%s) changes the .des output" % place, "input": inp, "sig": "C14:des-changed", "cmd": "pepper-compiler --des"})
        # the rest of the tool chain on prog'
        if i % (2 if tier == "quick" else 1) == 0:
            import os
            with core.scratch("pepper_c14_") as dd:
                os.makedirs(dd + "/p1"); os.makedirs(dd + "/p2")
                try:
                    pipeline.run_pipeline(b, rng, dd + "/p1")
                    ok1 = True
                except pipeline.Stage:
                    ok1 = False          # the original program itself has no valid design (e.g. over-constrained): nothing to compare
                if ok1:
                    try:
                        pipeline.run_pipeline(b2, rng, dd + "/p2")
                        res.count("pipeline-ok")
                    except pipeline.Stage as e:
                        res.violations.append({"what": "with zero-length objects inserted (%s) stage '%s' of the tool chain fails: %r" % (place, e.stage, e.exc),
                                               "input": inp, "sig": "C14:pipeline:" + e.stage, "cmd": "pepper-compiler; pepper-design-spurious; pepper-finish"})
        if len(res.samples) < 1:
            res.sample({"placement": place, "inserted": inserted, "source_with_insertions": b2.texts})
    # model correspondence on the transformed programs
    sub = Result("C14")
    compile_check.run_bundles(st, sub, bundles, "C14", "program")
    res.corr_breaks += sub.corr_breaks
    res.violations += [v for v in sub.violations]
    res.disagreements_checked += sub.disagreements_checked
    res.programs = len(bundles)
    return res
