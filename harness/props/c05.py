"""C05 — the constraint files written for the designer honour the documented spuriousSSM input contract.

Theorems: PepperProps/C05.lean (files_satisfy_contract over PepperModel/ConstraintGen.lean: ssmFiles, readTriple = model of
load_input_files, SsmContract, Ssm.testConsistency).  Correspondence: the three files written by the real
design(..., just_files=True) vs the model op `ssm-files` (exact text); the model's reader + contract predicate
(`ssm-contract`) on the real files vs the Python reader + clause checker.
Oracle on the real code: an independent Python reader of the C input format and the contract checked clause by
clause on the files the real code wrote; the spuriousSSM binary built from the tree must accept them (exit 0, no
"ERROR" on stderr) with template= wc= eq= imax=1 quiet=TRUE."""
import json
import os
from concurrent.futures import ThreadPoolExecutor

import core
import pilgen
from core import Result

LEVEL = "proof"
LEVEL_NOTE = ("contract of the written files and acceptance by test_consistency are theorems for both layouts; the separator "
              "clause and the binary itself are exercised on every sampled triple")


_CALLS = [0]


def real_files(d, fn, layout, tag):
    """run the real design(..., just_files=True); returns {"ok": (st, eq, wc texts)} | {"err": class}"""
    from peppercompiler.design.spurious_design import design
    # every second run reuses one temp name per layout, so that the files of an earlier driver run (another document, usually
    # of another length) are still there — as after --just-files / --keep-temp; the others write into fresh names
    _CALLS[0] += 1
    if _CALLS[0] % 2 == 0:
        temp = os.path.join(d, "t_shared_%s" % ("a" if _CALLS[0] % 4 == 0 else layout))
    else:
        temp = os.path.join(d, "t_%s_%s" % (tag, layout))
        for ext in (".st", ".eq", ".wc", ".sp"):
            if os.path.exists(temp + ext):
                os.remove(temp + ext)
    try:
        with core.quiet():
            design(os.path.join(d, "base_" + tag), fn, os.path.join(d, "out_%s.mfe" % tag), just_files=True,
                   struct_orient=(layout == "struct"), tempname=temp)
    except BaseException as e:
        if isinstance(e, KeyboardInterrupt):
            raise
        return {"err": pilgen.classify_exc(e)}, temp
    out = []
    for ext in (".st", ".eq", ".wc"):
        try:
            with open(temp + ext) as f:
                out.append(f.read())
        except OSError:
            return {"err": "the driver did not write %s%s (the files it names on the designer's command line are <tempname>.st/.wc/.eq)" % (os.path.basename(temp), ext)}, temp
    return {"ok": {"st": out[0], "eq": out[1], "wc": out[2]}}, temp


def check_doc(res, d, exe, stmts, text, tag, reqs, expect, jobs):
    fn = os.path.join(d, "doc_%s.pil" % tag)
    with open(fn, "w") as f:
        f.write(text)
    try:
        pilgen.denote(stmts)
    except pilgen.IllFormed:
        return
    for layout in ("strand", "struct"):
        o = pilgen.oracle(stmts, layout)
        r, temp = real_files(d, fn, layout, tag)
        res.evaluations += 1
        res.count("%s:%s" % (layout, o[0]))
        inp = {"text": text, "layout": layout}
        cmd = ("peppercompiler.design.spurious_design.design(base, file, out, just_files=True, struct_orient=%r, tempname=t); "
               "spuriousSSM template=t.st wc=t.wc eq=t.eq imax=1 quiet=TRUE" % (layout == "struct"))
        reqs.append({"op": "ssm-files", "stmts": stmts, "layout": layout})
        expect.append(("design()/files/" + layout, r, None))
        if "ok" not in r:
            if o[0] == "ok":
                res.violations.append({"what": "design() wrote no files for a satisfiable document (%s)" % r["err"], "input": inp,
                                       "observed": r, "sig": "C05:no-files:" + r["err"], "cmd": cmd})
            continue
        f = r["ok"]
        segs = pilgen.segments(stmts, layout)
        st, eq, wc, problems = pilgen.read_c_files(f["st"], f["eq"], f["wc"])
        bad = list(problems) if problems else pilgen.check_contract(st, eq, wc, segs)
        if o[0] == "ok":
            res.nontriv([text, layout])
            # the written arrays must also be the 1-based image of the arrays (C04's subject, cheap to restate here)
            if bad:
                res.violations.append({"what": "written files break the spuriousSSM input contract: " + ", ".join(bad),
                                       "input": inp, "observed": f, "expected": "contract", "sig": "C05:" + bad[0], "cmd": cmd})
            jobs.append((inp, cmd, temp, f))
        elif bad:
            # files exist although the oracle calls the document unsatisfiable / outside the layout: C15's subject,
            # but a contract breach of written files is still reported here
            res.violations.append({"what": "written files break the spuriousSSM input contract: " + ", ".join(bad), "input": inp,
                                   "observed": f, "sig": "C05:" + bad[0], "cmd": cmd})
        reqs.append({"op": "ssm-contract", "st": f["st"], "eq": f["eq"], "wc": f["wc"], "segs": segs})
        expect.append(("readTriple+SsmContract", None, (not bad, problems)))
        if len(res.samples) < 3 and o[0] == "ok" and len(text) < 600:
            res.sample({"text": text, "layout": layout, "st": f["st"], "eq": f["eq"], "wc": f["wc"]})


def run_binaries(res, exe, jobs, nproc=8):
    def work(job):
        inp, cmd, temp, f = job
        try:
            rc, out, err = pilgen.run_ssm(exe, temp + ".st", temp + ".wc", temp + ".eq")
        except Exception as e:  # timeout
            return job, (124, "", "timeout %r" % (e,))
        return job, (rc, out, err)
    with ThreadPoolExecutor(max_workers=nproc) as ex:
        for (inp, cmd, temp, f), (rc, out, err) in ex.map(work, jobs):
            res.evaluations += 1
            res.count("binary:exit-%d" % rc)
            if rc != 0 or "ERROR" in err or "error" in err:
                res.violations.append({"what": "spuriousSSM rejects the files written for it (exit %d)" % rc, "input": inp,
                                       "observed": {"files": f, "stderr": err[-600:]}, "expected": "exit 0, no ERROR",
                                       "sig": "C05:binary-rejects", "cmd": cmd})


def run(st, tier, seed):
    res = Result("C05")
    res.rule = ("satisfiable-biased PIL documents from pilgen.gen_doc (as C04) in both layouts; the real design(just_files=True) "
                "writes the three files, which are read back by an independent reader, checked clause by clause and fed to the "
                "spuriousSSM binary built from the tree. non-trivial = satisfiable document whose files were written; distinct "
                "by (text, layout)")
    rng = core.rng_for(seed, "c05")
    n_docs = 300 if tier == "quick" else 10000
    exe = pilgen.ssm_binary()
    reqs, expect = [], []
    batch = 250
    with core.scratch("pepper_c05_") as d:
        done = 0
        while done < n_docs:
            jobs = []
            for i in range(done, min(n_docs, done + batch)):
                size = pilgen.sizes_for(tier, rng)
                bias = rng.choice(["sat", "sat", "sat", "boundary", "mixed"])
                stmts, meta = pilgen.gen_doc(rng, size, bias)
                text = pilgen.render(stmts, rng, "free" if rng.random() < 0.5 else "emitted")
                res.count("bias:" + meta["bias"])
                check_doc(res, d, exe, stmts, text, str(i % batch), reqs, expect, jobs)
            run_binaries(res, exe, jobs)
            done += batch
        # directed: a layout with more than 9999 positions whose last strands are their own representatives, so that five-digit
        # indices occur in the eq / wc files (250 one-strand complexes over one 40-nt sequence, then a duplex of fresh sequences);
        # judged by the contract oracle and by the binary only (the model is not asked for a document of this size)
        big = ("sequence r = %s : 40\n" % ("N" * 40) + "".join("strand s%d = r : 40\n" % i for i in range(250)) +
               "".join("structure c%d = s%d : %s\n" % (i, i, "." * 40) for i in range(250)) +
               "sequence a = %s : 40\nstrand A = a : 40\nstrand B = a* : 40\nstructure D = A + B : %s+%s\n" % ("N" * 39 + "S", "(" * 40, ")" * 40))
        jobs, r_big, e_big = [], [], []
        check_doc(res, d, exe, pilgen.read_pil(big), big, "big", r_big, e_big, jobs)
        run_binaries(res, exe, jobs)
        res.count("directed:more-than-9999-positions")
        # directed: a triple the binary must reject, to show that its acceptance test is exercised (not a property case)
        bad = os.path.join(d, "bad")
        for ext, txt in ((".st", "NN"), (".eq", "1 1 "), (".wc", "2 -1 ")):
            with open(bad + ext, "w") as f:
                f.write(txt)
        rc, out, err = pilgen.run_ssm(exe, bad + ".st", bad + ".wc", bad + ".eq")
        res.extra["binary_rejects_inconsistent_triple"] = bool(rc != 0 and "ERROR" in err)
        if rc == 0:
            raise RuntimeError("harness: the spuriousSSM binary accepts an inconsistent triple; its acceptance test is not exercised")
    res.programs = len(reqs)
    if st.driver_ok:
        got = pilgen.call_parallel(reqs)
        for rq, (name, im, verdict), g in zip(reqs, expect, got):
            res.disagreements_checked += 1
            if rq["op"] == "ssm-files":
                gm = {"err": g["err"]} if "err" in g else {"ok": g.get("ok")}
                if "err" in gm and gm["err"].startswith("load"):
                    gm = {"err": "load"}
                if gm != im:
                    res.corr_breaks.append({"name": name, "input": rq, "model": gm, "impl": im})
                elif "ok" in g and not (g.get("read") and g.get("contract") and g.get("consistent")):
                    # the model's own files fail the model's own reader / contract / test_consistency: the theorem's
                    # conclusion is false on this input
                    res.corr_breaks.append({"name": "model: files_satisfy_contract", "input": rq,
                                            "model": {k: g.get(k) for k in ("read", "contract", "consistent")}, "impl": "-"})
            else:
                ok_py, problems = verdict
                gm = (g.get("ok") is True) if "err" not in g else False
                if gm != ok_py:
                    res.corr_breaks.append({"name": name, "input": rq, "model": g, "impl": {"contract": ok_py, "reader": problems}})
            if len(res.corr_breaks) > 5:
                break
    return res


def replay(path):
    with open(path) as f:
        body = json.load(f)
    print(json.dumps(body, indent=1)[:6000])
    inp = body.get("input") or {}
    if "text" not in inp:
        return 0
    stmts = pilgen.read_pil(inp["text"])
    res = Result("C05")
    exe = pilgen.ssm_binary()
    with core.scratch("pepper_c05_") as d:
        jobs = []
        check_doc(res, d, exe, stmts, inp["text"], "r", [], [], jobs)
        run_binaries(res, exe, jobs)
    for v in res.violations:
        print("STILL FAILING:", v["sig"], v["what"])
    return 1 if res.violations else 0
