"""C06 — any valid design flows through to finished sequences that satisfy the source.

Chain on the real code (in-process): compiler -> Convert.get_constraints -> nucleotide string satisfying the
arrays -> process_results -> output(.mfe, findmfe=False) -> finish.finish.  Oracle: every stage succeeds for
an accepted program and the .seqs / strands files satisfy SatSrc (pipeline.sat_src) w.r.t. what the SOURCE
denotes (`src-denote`).  Correspondence: model op `finish` (compile model + .mfe reader model + apply) must
produce the same .seqs and strands lines from the implementation's .mfe text.
A fraction of the runs goes through the command-line tools (pepper-compiler, pepper-design-spurious
--just-files, pepper-finish) and, in the thorough tier, through the real spuriousSSM binary."""
import json
import os
import subprocess
import sys

import core
from core import Result
import progen
import pipeline
import pilio

LEVEL = "proof"
LEVEL_NOTE = ("the end-to-end theorem (PepperProps/C06.lean: end_to_end, end_to_end_component, end_to_end_struct) composes C01/C02 compile, "
              "C04/C15 arrays, process_results / output (.mfe records) and finish on the saved tree into one Lean statement; the designer itself is "
              "replaced by 'any assignment satisfying the arrays' (ArraysGood); hypothesis MfeNamesDistinct (F13). Text hops: the .pil text is read back by "
              "the model of the PIL reader (PepperProps/ParsePil.lean: end_to_end_from_text), and PepperProps/C06Text.lean states the result with finishText on "
              "the RENDERED .mfe text, the readability of the records being derived from the compile (end_to_end_text; name characters of the sources are "
              "decidable hypotheses) for any float token in the GC-content field; PepperProps/C06Gc.lean closes that field: PepperModel/GcFloat.lean models "
              "'%f' % (count / length) in exact integer arithmetic (binary64 division and %f, both correctly rounded, ties to even), gcToken_shape / "
              "gcToken_value prove the token's form and value, text_level / end_to_end_text_gc state the text level for the file Mfe.outputGc writes "
              "with no token left free; that this integer model IS CPython's float division and %f is not a theorem but a correspondence checked on "
              "every run (all 0 <= k <= n <= 220, random larger pairs incl. operands beyond 2^53, arbitrary doubles for %f, and the whole .mfe text "
              "of every generated program byte for byte; the exponent range of binary64 is not modelled, irrelevant below lengths of 2^1022); "
              "NUPACK (DNAfold) is absent, so .mfe files are written with findmfe=False")


def replay(path):
    with open(path) as f:
        print(json.dumps(json.load(f), indent=1))
    return 0


def cli(mod, args, cwd):
    env = dict(os.environ, PYTHONPATH=core.REPO, PYTHONDONTWRITEBYTECODE="1")
    return subprocess.run([sys.executable, "-c", "from %s import main; main()" % mod] + args, cwd=cwd, env=env,
                          capture_output=True, text=True, timeout=300)


import contextlib


@contextlib.contextmanager
def reused(d):
    """the SAME working directory (same absolute path, same file names) emptied before the next program: a chain must not depend on
    what an earlier chain of the same process left under these names (path-keyed caches, stale parses)"""
    import shutil
    for fn in os.listdir(d):
        p_ = os.path.join(d, fn)
        shutil.rmtree(p_) if os.path.isdir(p_) else os.remove(p_)
    yield d


def run(st, tier, seed):
    with core.scratch("pepper_c06shared_") as shared:
        return run_(st, tier, seed, shared)


def run_(st, tier, seed, shared):
    res = Result("C06")
    res.rule = ("accepted programs from the shared generator (components and systems to depth 3, unused sequences, dummy strands, "
                "zero-length domains, all 15 codes, satisfiable pairings) x both layouts x a random assignment satisfying the arrays; "
                "non-trivial = at least one structure with a base pair; distinct by source text")
    rng = core.rng_for(seed, "c06")
    n = 100 if tier == "quick" else 2500
    drv = core.Driver() if st.driver_ok else None
    reqs, meta = [], []
    import compile_check
    exb = [b_ for _, b_ in compile_check.example_bundles(rng, 6 if tier == "quick" else 107)]
    res.count("repository-examples", len(exb))
    for i in range(n + len(exb)):
        struct_orient = rng.random() < 0.4
        if i >= n:
            b = exb[i - n]
            struct_orient = False
        elif rng.random() < 0.55:
            b = progen.gen_component_bundle(rng, size=rng.choice([3, 6, 10]), satisfiable=True, cover_strands=struct_orient)
        else:
            b = progen.gen_system_bundle(rng, depth=rng.randint(1, 3), size=rng.choice([3, 5]), n_templates=rng.randint(1, 3), satisfiable=True,
                                         cover_strands=struct_orient)
        if b is None:
            continue
        res.evaluations += 1
        inp = {"files": b.texts, "entry": b.entry, "includes": b.includes, "struct_orient": struct_orient}
        share = (i % 2 == 0)     # every other program runs where the previous one of these ran
        res.count("working-directory:" + ("reused-path" if share else "fresh"))
        with (reused(shared) if share else core.scratch("pepper_c06_")) as d:
            try:
                out = pipeline.run_pipeline(b, rng, d, struct_orient=struct_orient)
            except pipeline.Stage as e:
                if e.stage == "compile":
                    res.count("rejected-by-compiler"); continue
                if struct_orient and e.stage == "constraints" and isinstance(e.exc, (TypeError, AssertionError)):
                    # structure-oriented layout is only defined when every strand occurs in a structure
                    res.count("struct-layout-not-applicable"); continue
                if e.stage == "constraints" and isinstance(e.exc, ValueError) and drv is not None:
                    # an over-constrained specification has no valid design: C06 is vacuous there (C15's subject)
                    rq = progen.compile_request(b, "pil", anon=0); rq["op"] = "src-denote"
                    g = drv.call(rq)
                    if "ok" in g and not pipeline.satisfiable(g["ok"]):
                        res.count("unsatisfiable-specification"); continue
                res.violations.append({"what": "stage '%s' fails for an accepted program: %r" % (e.stage, e.exc), "input": inp,
                                       "sig": "C06:stage:" + e.stage, "cmd": "pepper-compiler; pepper-design-spurious; pepper-finish"})
                continue
        res.count("layout:" + ("struct" if struct_orient else "strand"))
        if "(" in out["pil"]:
            res.nontriv(b.texts)
        if drv is not None:
            rq = progen.compile_request(b, "pil", anon=0); rq["op"] = "src-denote"
            reqs.append(rq); meta.append(("src", inp, out, b))
            reqs.append({"op": "pil-design", "stmts": [s for s in pilio.read_pil(out["pil"]) if s["k"] != "kinetic"]}); meta.append(("pil", inp, out, b))
            rq = progen.compile_request(b, "pil", anon=out["anon_before"]); rq["op"] = "finish"; rq["mfe"] = out["mfe"]
            reqs.append(rq); meta.append(("finish", inp, out, b))
            reqs.append({"op": "mfe-write", "stmts": [s for s in pilio.read_pil(out["pil"]) if s["k"] != "kinetic"],
                         "layout": "struct" if struct_orient else "strand", "nts": out["nts"]})
            meta.append(("mfe", inp, out, b))
            # the same with the REAL GC-content token in every record (Mfe.outputGc): the whole .mfe text, byte for byte
            reqs.append(dict(reqs[-1], op="mfe-write-gc")); meta.append(("mfe-gc", inp, out, b))
        if len(res.samples) < 1:
            res.sample({"source": b.texts, "seqs": out["seqs"][:600]})
    if drv is not None:
        got = drv.call_many(reqs)
        src = None
        for (kind, inp, out, b), g in zip(meta, got):
            if kind == "src":
                src = g
            elif kind == "pil":
                if "ok" not in src or "ok" not in g:
                    res.corr_breaks.append({"name": "Denote.accept", "input": inp, "model": [src, g], "impl": "accepted"}); continue
                probs = pipeline.sat_src(src["ok"], g["ok"], out["seqs"], out["strands"])
                if probs:
                    res.violations.append({"what": "finished sequences do not satisfy the source program: " + probs[0], "input": inp,
                                           "observed": probs[:5], "seqs": out["seqs"], "sig": "C06:satsrc", "cmd": "pepper-finish"})
                lp = pipeline.listing_problems(b, out["seqs"])
                if lp:
                    res.violations.append({"what": "the .seqs file does not list every sequence, strand and structure of the source: " + lp[0],
                                           "input": inp, "observed": lp[:5], "seqs": out["seqs"], "sig": "C06:listing", "cmd": "pepper-finish"})
            elif kind == "mfe":
                res.disagreements_checked += 1
                import re as _re
                # the GC-content float of each record is masked on both sides
                want = [_re.sub(r"^(\S+) 0\.000000 \S+ 0$", r"\1 0.000000 GC 0", l) for l in out["mfe"].split("\n")]
                if g.get("ok") != want:
                    first = next((i for i, (x, y) in enumerate(zip(g.get("ok") or [], want)) if x != y), None)
                    res.corr_breaks.append({"name": "Mfe.processResults+output", "input": inp,
                                            "model": (g.get("ok") or g)[first] if first is not None and "ok" in g else str(g)[:300],
                                            "impl": want[first] if first is not None else "length %d vs %d" % (len(g.get("ok") or []), len(want))})
            elif kind == "mfe-gc":
                # NOTHING masked: "\n".join(lines) of the model must be the file Convert.output wrote
                res.disagreements_checked += 1
                res.count("mfe-text-compared-byte-for-byte")
                want = out["mfe"].split("\n")
                if g.get("ok") != want:
                    first = next((i for i, (x, y) in enumerate(zip(g.get("ok") or [], want)) if x != y), None)
                    res.corr_breaks.append({"name": "Mfe.outputGc (the .mfe text including the GC-content field)", "input": inp,
                                            "model": (g.get("ok") or g)[first] if first is not None and "ok" in g else str(g)[:300],
                                            "impl": want[first] if first is not None else "length %d vs %d" % (len(g.get("ok") or []), len(want))})
            else:
                res.disagreements_checked += 1
                want_seqs = [l for l in out["seqs"].split("\n") if l]
                want_strands = [l for l in out["strands"].split("\n") if l]
                if "ok" not in g or g["ok"]["seqs"] != want_seqs or g["ok"]["strands"] != want_strands:
                    res.corr_breaks.append({"name": "Finish.apply", "input": inp, "model": g, "impl": {"seqs": want_seqs[:5], "strands": want_strands[:5]}})
    # known finding F13: a structure that shares its name with a sequence (the .mfe format has one namespace)
    fb = progen.Bundle()
    fb.texts["top.comp"] = ("declare component T: X -> X\nsequence X = \"6N\"\nsequence y = \"4N\"\nstrand S = X y\n"
                            "structure X = S : ..........\n")
    fb.entry = "top"
    with core.scratch("pepper_c06f13_") as d:
        try:
            pipeline.run_pipeline(fb, rng, d)
        except pipeline.Stage as e:
            if e.stage == "finish":
                res.violations.append({"what": "finish fails on a valid design when a structure shares its name with a sequence",
                                       "input": {"files": fb.texts, "entry": "top"}, "observed": repr(e.exc),
                                       "sig": "C06:F13-structure-named-like-sequence", "cmd": "pepper-compiler top; pepper-design-spurious; pepper-finish"})
            elif e.stage != "compile":
                res.violations.append({"what": "stage %s fails for the name-collision probe: %r" % (e.stage, e.exc),
                                       "input": {"files": fb.texts, "entry": "top"}, "sig": "C06:stage:" + e.stage, "cmd": "pepper-finish"})
    # directed (defect F18, repaired): optimisation bounds the compiler prints with an exponent must flow through the chain
    for opt_ in (["1000000", "0.00001"] if tier == "quick" else ["1000000", "0.00001", "12345678", "0.000025", "1e6", "100000", "0.0001"]):
        eb = progen.Bundle()
        eb.texts["top.comp"] = ("declare component T: ->\nsequence a = \"6N\"\nsequence b = \"4S\"\nstrand A = a b\nstrand B = b* a*\n"
                                "structure [%snt] D = A + B : 10( + 10)\n" % opt_)
        eb.entry = "top"
        res.count("directed:exponent-bound")
        res.evaluations += 1
        with core.scratch("pepper_c06f18_") as d:
            try:
                pipeline.run_pipeline(eb, rng, d)
            except pipeline.Stage as e:
                res.violations.append({"what": "a program whose optimisation bound is [%snt] is accepted by the compiler but stage '%s' of the chain fails: %r" % (opt_, e.stage, e.exc),
                                       "input": {"files": eb.texts, "entry": "top"}, "sig": "C06:F18-exponent-bound:" + e.stage,
                                       "cmd": "pepper-compiler top; pepper-design-spurious top.pil"})
    # command-line tools
    m = 4 if tier == "quick" else 40
    for i in range(m):
        b = progen.gen_system_bundle(rng, depth=rng.randint(1, 2), size=4, n_templates=2, satisfiable=True) or progen.gen_component_bundle(rng, size=5)
        with core.scratch("pepper_c06cli_") as d:
            progen.write_bundle(b, d)
            inc = []
            for x in b.includes:
                inc += ["-I", x]
            r1 = cli("peppercompiler.compiler", [b.entry, "--output", "o.pil", "--save", "o.save"] + inc, d)
            if r1.returncode != 0:
                res.count("cli:rejected"); continue
            r2 = cli("peppercompiler.design.spurious_design", ["o.pil", "--just-files", "-t", "tmpx", "-o", "o.mfe"], d)
            res.evaluations += 1
            res.count("cli-run")
            inp = {"files": b.texts, "entry": b.entry, "includes": b.includes}
            if r2.returncode != 0 and drv is not None and "ValueError" in r2.stderr:
                rq = progen.compile_request(b, "pil", anon=0); rq["op"] = "src-denote"
                g = drv.call(rq)
                if "ok" in g and not pipeline.satisfiable(g["ok"]):
                    res.count("cli:unsatisfiable-specification"); continue
            if r2.returncode != 0 or not all(os.path.exists(os.path.join(d, "tmpx." + e)) for e in ("st", "wc", "eq")):
                res.violations.append({"what": "pepper-design-spurious --just-files fails on the compiler's output", "input": inp,
                                       "observed": r2.stderr[-400:], "sig": "C06:cli-design", "cmd": "pepper-design-spurious o.pil --just-files"})
                continue
            # continue in-process from the files the CLI wrote (NUPACK is absent): arrays -> assignment -> .mfe
            from peppercompiler.design.constraint_load import Convert
            cwd = os.getcwd(); os.chdir(d)
            try:
                with core.quiet():
                    conv = Convert("o.pil", False); eq, wc, stt = conv.get_constraints()
                    nts = pipeline.assignment_for(eq, wc, stt, rng)
                    conv.process_results(nts); conv.output("o.mfe", findmfe=False)
            except BaseException as e:
                if isinstance(e, KeyboardInterrupt): raise
                res.violations.append({"what": "loading a valid assignment back into the specification / writing the .mfe fails: %r" % (e,), "input": inp,
                                       "sig": "C06:cli-mfe-write", "cmd": "pepper-design-spurious o.pil"})
                continue
            finally:
                os.chdir(cwd)
            r3 = cli("peppercompiler.finish", ["o", "--seqs", "o.seqs", "--strands", "o.strands"], d)
            if r3.returncode != 0 or not os.path.exists(os.path.join(d, "o.seqs")):
                res.violations.append({"what": "pepper-finish fails on a valid design", "input": inp, "observed": r3.stderr[-400:],
                                       "sig": "C06:cli-finish", "cmd": "pepper-finish o --seqs o.seqs --strands o.strands"})
    # text level: the .pil the compiler wrote for generated programs and for the repository examples, read by the model of
    # the PIL reader and by the real one (closes the text hop of end_to_end_from_text)
    if drv is not None:
        import parsecorr_pil
        rt = core.rng_for(seed, "c06-text")
        parsecorr_pil.check_texts(res, drv, [(l, t) for l, t, _b, _r in parsecorr_pil.compiled_texts(rt, 40 if tier == "quick" else 1500, res)], "text-compiled")
        parsecorr_pil.check_texts(res, drv, parsecorr_pil.example_texts(rt, 8 if tier == "quick" else 10 ** 6), "text-examples")
    if drv is not None:
        gc_float_section(res, drv, tier, seed)
    res.programs = res.evaluations
    return res


# ---------------------------------------------------------------------------------------------------------------------
# GC-content field: "%f" % (k / n) of the REAL interpreter against GcFloat.gcToken (PepperModel/GcFloat.lean, C06Gc.lean)
# ---------------------------------------------------------------------------------------------------------------------
GC_EXHAUSTIVE_N = 220


def gc_content_line(seq, length):
    """the record line as Convert.output computes and prints it, on the running interpreter"""
    gc_content = (seq.count("C") + seq.count("G")) / length
    return "%s %f %f %d\n" % (seq, 0, gc_content, 0)


def gc_float_section(res, drv, tier, seed):
    """(1) every pair 0 <= k <= n <= 220 and random / directed larger pairs: "%f" % (k / n) and the double k / n itself
    (float.as_integer_ratio) against the model's token and its significand / exponent; (2) "%f" % x for arbitrary doubles
    against GcFloat.fmtF6; (3) the record line "%s %f %f %d" as a whole.  (What Convert.output itself counts and divides by is
    compared through the real Convert.output: the byte-for-byte `mfe-gc` comparison in run_.)"""
    from fractions import Fraction
    rng = core.rng_for(seed, "c06-gcfloat")
    pairs = [(k, n) for n in range(1, GC_EXHAUSTIVE_N + 1) for k in range(n + 1)]
    n_exh = len(pairs)
    m = 3000 if tier == "quick" else 200000
    for _ in range(m):
        n = rng.choice([rng.randint(GC_EXHAUSTIVE_N + 1, 5000), rng.randint(1, 10 ** 6), 2 ** rng.randint(7, 20),
                        2 ** rng.randint(1, 12) * 5 ** rng.randint(0, 6), rng.randint(1, 10 ** 6)])
        k = rng.choice([rng.randint(0, n), rng.randint(0, n), 1, n - 1, n // 2, n])
        pairs.append((k, n))
    # beyond any real sequence length: operands that no longer fit a double (long_true_divide's slow path)
    for _ in range(40 if tier == "quick" else 2000):
        n = rng.randint(2 ** 53, 2 ** rng.randint(54, 200))
        pairs.append((rng.randint(0, n), n))
    got = drv.call_many([{"op": "gc-tokens", "pairs": [list(p) for p in pairs]}])[0].get("ok") or []
    res.count("gcfloat:pairs-exhaustive(n<=%d)" % GC_EXHAUSTIVE_N, n_exh)
    res.count("gcfloat:pairs-random-or-directed", len(pairs) - n_exh)
    ties = 0
    bad = 0
    if len(got) != len(pairs):
        res.corr_breaks.append({"name": "GcFloat.gcToken", "input": "batch", "model": "%d answers" % len(got), "impl": "%d pairs" % len(pairs)})
    for (k, n), g in zip(pairs, got):
        res.disagreements_checked += 1
        x = k / n                                  # the real division
        want = "%f" % x                            # the real formatting
        p, q = x.as_integer_ratio()
        model_val = Fraction(g.get("m", -1), 2 ** g.get("s", 0)) if "ok" in g else None
        if Fraction(p, q) * 2 * 10 ** 6 % 2 == 1:
            ties += 1                              # the exact value lies half-way between two 6-digit decimals
        if g.get("ok") != want or model_val != Fraction(p, q):
            bad += 1
            if bad <= 5:
                res.corr_breaks.append({"name": "GcFloat.gcToken / divRne against \"%f\" % (k / n) of the running interpreter",
                                        "input": {"k": k, "n": n}, "model": g, "impl": {"text": want, "double": [p, q]}})
    res.count("gcfloat:decimal-ties(half-even on the exact binary value)", ties)
    # (2) "%f" of arbitrary non-negative doubles (not only quotients): uniform mantissas over many binades, and every odd / 128 tie
    xs = [j / 128 for j in range(129)] + [j / 128 + i for i in (1, 2, 7, 1000) for j in (1, 3, 5, 127)]
    for _ in range(1500 if tier == "quick" else 100000):
        e = rng.randint(-80, 40)
        xs.append(rng.randint(2 ** 52, 2 ** 53 - 1) * 2.0 ** (e - 52))
    xs += [0.0, 5e-324, 2.2250738585072014e-308, 0.5, 0.9999995, 0.99999949999999994, 0.0000005, 1e22, 123456789012345678.0]
    reqs = []
    for x in xs:
        p, q = x.as_integer_ratio()
        reqs.append({"op": "fmt-f", "m": p, "s": q.bit_length() - 1})
    for x, g in zip(xs, drv.call_many(reqs)):
        res.disagreements_checked += 1
        res.count("gcfloat:percent-f-of-a-double")
        if g.get("ok") != "%f" % x:
            res.corr_breaks.append({"name": "GcFloat.fmtF6 against \"%f\" % x of the running interpreter", "input": x.hex(),
                                    "model": g, "impl": "%f" % x})
    # the record line as a whole
    for seq in ("ACGT", "GGGC", "AAAT", "ACG+CGT", "NNSN"):
        n = len(seq.replace("+", ""))
        k = seq.count("C") + seq.count("G")
        g = drv.call({"op": "gc-line", "seq": seq, "k": k, "n": n})
        res.disagreements_checked += 1
        if gc_content_line(seq, n) != "%s\n" % g.get("ok"):
            res.corr_breaks.append({"name": "GcFloat.recordLine", "input": seq, "model": g, "impl": gc_content_line(seq, n)})
