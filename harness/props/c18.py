"""C18 — compilation is a pure function of its inputs.

For each generated program the real compiler is run in fresh subprocesses under several configurations:
PYTHONHASHSEED in {0, 1, 12345, random}, 0-4 other compiles earlier in the same process (plus a sweep of warm-up compiles that
put the anonymous counter just below 10, 100 and 1000), three invocation
directories (paths given relative to each), both back-ends.  Oracle: all outputs are equal after dropping the
timestamp line and renaming anonymous domains consistently (first occurrence order), and no output defines a
name twice within a namespace (sequences+super-sequences / strands / structures).
Correspondence: model op `compile` started from the process's anonymous counter reproduces each output exactly."""
import json
import os
import re
import subprocess
import sys

import core
from core import Result
import progen
import impl
import pilio

LEVEL = "proof"
LEVEL_NOTE = ("PARTIAL: PYTHONHASHSEED, pyparsing's import-time global white-space setting and in-place mutation of Python dicts are runtime "
              "facts the model has no notion of; they are covered by the differential runs only")


def replay(path):
    with open(path) as f:
        print(json.dumps(json.load(f), indent=1))
    return 0


GROUPS = {"A": "A", "C": "C", "G": "G", "T": "T", "R": "AG", "Y": "CT", "W": "AT", "S": "CG", "M": "AC", "K": "GT",
          "B": "CGT", "V": "ACG", "D": "AGT", "H": "ACT", "N": "ACGT"}
ANON = re.compile(r"((?:[\w]+-)*)_Anon(\d+)")


def canon_text(text):
    lines = [re.sub(r"#.*", "", l).rstrip() for l in text.split("\n")]
    lines = [l for l in lines if l.strip()]
    ren = {}
    def sub(m):
        key = m.group(0)
        if key not in ren:
            ren[key] = "%s_Anon#%d" % (m.group(1), len([k for k in ren if k.startswith(m.group(1) + "_Anon")]))
        return ren[key]
    return [ANON.sub(sub, " ".join(l.split())) for l in lines]


def dup_names(text, fmt):
    seen = {"seq": set(), "strand": set(), "struct": set()}
    dups = []
    for l in text.split("\n"):
        t = re.sub(r"#.*", "", l).split()
        if not t:
            continue
        kind = {"sequence": "seq", "sup-sequence": "seq", "strand": "strand", "structure": "struct"}.get(t[0])
        if kind is None:
            continue
        name = t[2] if (len(t) > 2 and t[1].startswith("[")) else t[1]
        if name in seen[kind]:
            dups.append((kind, name))
        seen[kind].add(name)
    return dups


def directed_duplicate(rng):
    """a system importing `Gate` by bare name while two include directories both hold a Gate.comp (different
    contents): the first directory on the command line must win under every hash seed"""
    ga = progen.CompGen(rng, name="GateA", size=4, nports=(1, 1), port_lens=(4,)).build()
    gb = progen.CompGen(rng, name="GateB", size=5, nports=(1, 1), port_lens=(4,)).build()
    b = progen.Bundle()
    dirs = ["lib_%s" % x for x in rng.sample(["a", "b", "q", "zz", "k9", "m"], 4)]
    b.texts[dirs[0] + "/Gate.comp"] = progen.render_comp(ga, rng)
    b.texts[dirs[1] + "/Gate.comp"] = progen.render_comp(gb, rng)
    b.texts["top.sys"] = "declare system S:  -> \nimport Gate\ncomponent g1 = Gate: s0%s -> s1\ncomponent g2 = Gate: s1%s -> s2\n" % (
        rng.choice(["", "*"]), rng.choice(["", "*"]))
    b.entry = "top"
    b.includes = dirs
    b.directed = True
    return b


def directed_nested_paths(rng):
    """Top.sys -> d1/Mid.sys -> d1/d2/Inner.sys -> d1/d2/Leaf.comp, every import spelled relative to the importing file's own
    directory, no include list; decoy Leaf.comp files (other contents) sit where a resolution relative to the invocation
    directory would look.  The result must not depend on where the compiler is started."""
    leaf = progen.CompGen(rng, name="Leaf", size=4, nports=(1, 1), port_lens=(4,)).build()
    decoy = progen.CompGen(rng, name="Leaf", size=5, nports=(1, 1), port_lens=(4,)).build()
    b = progen.Bundle()
    d1, d2 = rng.choice(["d1", "lib", "parts"]), rng.choice(["d2", "deep", "x"])
    b.texts["%s/%s/Leaf.comp" % (d1, d2)] = progen.render_comp(leaf, rng)
    for where in ("%s/Leaf.comp" % d2, "Leaf.comp", "%s/Leaf.comp" % d1):
        if rng.random() < 0.7:
            b.texts[where] = progen.render_comp(decoy, rng)
    st1, st2 = rng.choice(["", "*"]), rng.choice(["", "*"])
    b.texts["%s/%s/Inner.sys" % (d1, d2)] = "declare system Inner: x%s -> y\nimport Leaf\ncomponent g = Leaf: x -> y%s\n" % (st1, st2)
    b.texts["%s/Mid.sys" % d1] = "declare system Mid: p -> q%s\nimport %s/Inner\ncomponent i = Inner: p%s -> q\n" % (st2, d2, st1)
    b.texts["Top.sys"] = "declare system Top:  -> \nimport %s/Mid\ncomponent m = Mid: s -> t\ncomponent n = Mid: t%s -> u\n" % (d1, st1)
    b.entry = "Top"
    b.includes = []
    b.directed = True
    return b


def directed_braces(rng):
    """templates that use {a,b,...} groups (several alternatives, several groups): the expansion order — hence the order of the
    definitions in the specification — must not depend on the hash seed"""
    names = rng.sample(["alpha", "beta", "gamma", "delta", "eps", "zeta", "eta", "theta"], rng.randint(3, 6))
    tags = rng.sample(["p", "q", "r", "s", "t"], rng.randint(2, 4))
    L = rng.randint(3, 6)
    comp = ("declare component Gate(n): x -> y\nsequence x = \"<n>N\"\nsequence y = \"<n>N\"\n"
            "sequence d{%s} = \"%dN\"\n" % (",".join(names), L) +
            "strand bot_{%s} = x d%s y\n" % (",".join(tags), names[0]) +
            "structure W{%s}{1,2} = bot_%s : <2*n+%d>.\n" % (",".join(tags[:2]), tags[0], L))
    b = progen.Bundle()
    b.texts["Gate.comp"] = comp
    b.texts["Pair.sys"] = ("declare system Pair:  -> \nimport Gate\n"
                           "component {left,right,mid} = Gate(%d): a -> b\n" % rng.randint(2, 5))
    b.entry = "Pair"
    b.includes = []
    b.directed = True
    return b


def directed_deep_stem(rng):
    """a hairpin whose stem is far beyond what the recursive structure grammar can read within the interpreter's recursion limit: whether
    such a program is refused is a resource question (not judged) - but the answer must be the SAME whatever was compiled earlier in
    the process"""
    n, l = rng.randint(150, 220), rng.randint(3, 6)
    b = progen.Bundle()
    b.texts["top.comp"] = ('declare component Top: ->\nsequence a = "%dN"\nsequence l = "%dN"\nstrand S = a l a*\n'
                           'structure HP = S : %d( %d. %d)\n' % (n, l, n, l, n))
    b.entry = "top"
    b.directed = True
    return b


def directed_anon_rows(rng):
    """every strand / super-sequence statement has two to four unnamed regions, so that wherever the process's anonymous counter
    crosses a decimal boundary (9|10, 99|100) it does so INSIDE one statement"""
    lines = ["declare component Top: ->", 'sequence a = "5N"', 'sequence b = "4S"']
    total = {}
    for j in range(rng.randint(2, 4)):
        its, n = [], 0
        for _ in range(rng.randint(2, 4)):
            m = rng.randint(1, 4); its.append('"%d%s"' % (m, rng.choice("NSWR"))); n += m
            if rng.random() < 0.4:
                its.append(rng.choice(["a", "b*"])); n += 5 if its[-1] == "a" else 4
        if rng.random() < 0.5:
            extra = rng.randint(1, 3); its.insert(rng.randint(0, len(its)), '"?N"'); n += extra
            lines.append("%s X%d = %s : %d" % ("strand" if j % 2 == 0 else "sequence", j, " ".join(its), n))
        else:
            lines.append("%s X%d = %s" % ("strand" if j % 2 == 0 else "sequence", j, " ".join(its)))
        total[j] = n
    strands = [j for j in total if j % 2 == 0]
    lines.append("strand Y = %s" % " ".join("X%d" % j for j in total if j % 2 == 1) if any(j % 2 == 1 for j in total) else "strand Y = a")
    for j in strands:
        lines.append("structure S%d = X%d : %d." % (j, j, total[j]))
    b = progen.Bundle()
    b.texts["top.comp"] = "\n".join(lines) + "\n"
    b.entry = "top"
    b.directed = True
    return b


def run(st, tier, seed):
    res = Result("C18")
    res.rule = ("accepted programs x {pil, des} x configurations (hash seed, 0-4 earlier compiles in the process, invocation directory); "
                "non-trivial = program with an anonymous region; distinct by (source, configuration)")
    rng = core.rng_for(seed, "c18")
    n = 16 if tier == "quick" else 128
    nconf = 4 if tier == "quick" else 12
    drv = core.Driver() if st.driver_ok else None
    reqs, meta = [], []
    worker = os.path.join(core.HERE, "c18_worker.py")
    for i in range(n):
        b = progen.gen_component_bundle(rng, size=rng.choice([4, 8])) if rng.random() < 0.5 else \
            progen.gen_system_bundle(rng, depth=rng.randint(1, 3), size=4, n_templates=2)
        # earlier compiles: other projects with the SAME relative file names (top.comp, tmpl0.comp, lib/..., sys*.sys)
        hist = [(progen.gen_system_bundle(rng, depth=rng.randint(1, 2), size=3, n_templates=2) if rng.random() < 0.5 else None)
                or progen.gen_component_bundle(rng, size=4) for _ in range(4)]
        if i % 8 == 0:
            b = directed_duplicate(rng)
            res.count("directed:duplicate-template-in-two-include-dirs")
            # the project compiled before it in the same process has a Gate.comp of its own beside its top.sys
            hb = progen.Bundle()
            hb.texts["Gate.comp"] = progen.render_comp(progen.CompGen(rng, name="GateH", size=3, nports=(1, 1), port_lens=(4,)).build(), rng)
            hb.texts["top.sys"] = "declare system H:  -> \nimport Gate\ncomponent h1 = Gate: t0 -> t1\n"
            hb.entry = "top"
            hist[0] = hb
            b.earlier_has_same_template = True
        elif i % 16 == 2:
            b = directed_nested_paths(rng)
            res.count("directed:nested-imports-relative-to-the-importing-file")
        elif i % 16 == 6:
            b = progen.both_orientation_bundle(rng)
            res.count("directed:port-bound-in-both-orientations-in-a-nested-system")
        elif i % 16 == 1:
            b = directed_braces(rng)
            res.count("directed:brace-groups")
        elif i % 16 == 3:
            b = directed_deep_stem(rng)
            res.count("directed:helix-beyond-the-recursion-limit")
        elif i % 16 == 7:
            # a component WITHOUT parameters that uses a name it never defines (refused, whenever it is compiled), compiled after another
            # parameterless component of another project that defines that name with a `length` line: still refused
            nm_ = rng.choice(["w", "stem", "k2"])
            b = progen.Bundle()
            b.texts["top.comp"] = 'declare component Top: ->\nsequence a = "<%s>N"\nstrand A = a\nstructure S = A : <%s>.\n' % (nm_, nm_)
            b.entry = "top"; b.directed = True
            hb = progen.Bundle()
            hb.texts["top.comp"] = 'declare component Other: ->\nlength %s = %d\nsequence a = "<%s>N"\nstrand A = a\nstructure S = A : <%s>.\n' % (nm_, rng.randint(3, 9), nm_, nm_)
            hb.entry = "top"
            hist[0] = hb; hist[1] = hb
            res.count("directed:undefined-name-defined-by-an-earlier-component")
        elif i % 16 == 4:
            # a sub-system file Sub.sys beside top.sys, compiled (from its own directory, so by the same relative file names) after ANOTHER
            # project whose Sub.sys has the same name but another declaration (leading comment lines, a parameter, ports in the other order):
            # nothing read from the earlier project's file may be used for this one (seed c18-x: parsed declarations cached by file name as given)
            ln = rng.randint(4, 7)
            leaf = 'declare component Leaf: x -> y\nsequence x = "%dN"\nsequence y = "%dN"\nstrand A = x y\nstructure S = A : %d.\n' % (ln, ln, 2 * ln)
            b = progen.Bundle()
            b.texts["Leaf.comp"] = leaf
            b.texts["Sub.sys"] = "declare system Sub: p -> q\nimport Leaf\ncomponent g = Leaf: p -> q\n"
            b.texts["top.sys"] = "declare system Top: ->\nimport Sub\ncomponent s1 = Sub: a -> b\ncomponent s2 = Sub: b -> c\n"
            b.entry = "top"; b.directed = True; b.same_named_subsystem = True
            hb = progen.Bundle()
            hb.texts["Leaf.comp"] = leaf
            hb.texts["Sub.sys"] = ("# the gate of the other project\n" * rng.randint(0, 2)) + rng.choice([
                "declare system Sub(k): q -> p\nimport Leaf\ncomponent g = Leaf: q -> p\n",
                "declare system Sub: q + r -> p\nimport Leaf\ncomponent g = Leaf: q -> p\ncomponent h = Leaf: r -> p\n",
                "\ndeclare system Sub: q -> p\nimport Leaf\ncomponent g = Leaf: q -> p\n"])
            args_ = "(3)" if "Sub(k)" in hb.texts["Sub.sys"] else ""
            ins_ = "a + b" if "q + r" in hb.texts["Sub.sys"] else "a"
            hb.texts["top.sys"] = "declare system Top: ->\nimport Sub\ncomponent s1 = Sub%s: %s -> c\n" % (args_, ins_)
            hb.entry = "top"
            hist[0] = hb
            res.count("directed:same-named-subsystem-file-in-the-earlier-project")
        elif i % 16 == 5:
            b = directed_anon_rows(rng)
            res.count("directed:several-anonymous-regions-per-statement")
        if b is None:
            continue
        if not getattr(b, "directed", False) and any(k.endswith(".sys") for k in b.texts) and rng.random() < 0.6:
            # the same template name also exists in a directory later on the include list (several -I directories):
            # the search order must be the command-line order under every hash seed
            from props.c02 import shadowed
            b = shadowed(rng, b) or b
            extra = ["inc_%s" % x for x in ("q", "k", "z", "b")]
            b.includes = list(b.includes) + extra[:rng.randint(1, 4)]
            res.count("duplicate-template-on-include-path")
        with core.scratch("pepper_c18_") as root:
            progen.write_bundle(b, os.path.join(root, "proj"))
            for k, h in enumerate(hist):
                progen.write_bundle(h, os.path.join(root, "hist%d" % k))
            os.makedirs(os.path.join(root, "proj", "deep", "er"), exist_ok=True)
            for inc in b.includes:
                os.makedirs(os.path.join(root, "proj", inc), exist_ok=True)
            outs = {}
            seeds_cycle = ["0", "1", "12345", "random", "6", "7", "2", "11"]
            seeds_cycle = seeds_cycle[(i * 3) % 8:] + seeds_cycle[:(i * 3) % 8]     # programs start at different points of the cycle
            # a third of the programs are compiled with a --fixed file (the same one in every configuration) that narrows some
            # named sequences with bases and with the degenerate letters a fixed file may carry (S, N)
            fixed_lines = []
            if not getattr(b, "directed", False) and rng.random() < 0.35:
                r0 = impl.compile_bundle(b, "pil")
                if r0["ok"]:
                    st0 = pilio.read_pil(r0["text"])
                    sig_names = {s_["items"][0] for s_ in st0 if s_["k"] == "equal" and s_["items"]}
                    cands = [s_ for s_ in st0 if s_["k"] == "seq" and "_Anon" not in s_["name"] and s_["tmpl"] and s_["name"] not in sig_names
                             and set(s_["tmpl"]) <= set(GROUPS)]
                    rng.shuffle(cands)
                    with_n = rng.random() < 0.35     # most files: bases and a few S (two-base sets); some also N
                    for s_ in cands[:rng.randint(1, 3)]:
                        letters = []
                        for c_ in s_["tmpl"]:
                            r_ = rng.random()
                            if r_ < 0.2 and set("CG") <= set(GROUPS[c_]):
                                letters.append("S")
                            elif r_ < 0.3 and with_n:
                                letters.append("N")
                            else:
                                letters.append(rng.choice(GROUPS[c_]))
                        fixed_lines.append("sequence %s = %s" % (s_["name"], "".join(letters)))
                if fixed_lines:
                    with open(os.path.join(root, "proj", "fixed.fix"), "w") as f:
                        f.write("\n".join(fixed_lines) + "\n")
                    res.count("with-fixed-file")
            # counter sweep: one earlier compile (a component with exactly k anonymous regions) puts the process's anonymous
            # counter at k, so that this program's anonymous numbers straddle a decimal boundary (9|10, 99|100, 999|1000)
            n_anon = len(set(re.findall(r'"[^"]*"', "\n".join(b.texts.values())))) or 1
            ks = set()
            for bound in (10, 100, 1000):
                ks.update(k for k in (bound - 1, bound - 2, bound - max(1, n_anon // 2), bound - rng.randint(1, max(1, n_anon))) if k >= 0)
            ks = sorted(ks)
            if tier == "quick":
                ks = rng.sample([k for k in ks if k < 100], 3) + rng.sample([k for k in ks if k >= 100], 1)
            for k in ks:
                wd = os.path.join(root, "warm%d" % k)
                os.makedirs(wd, exist_ok=True)
                with open(os.path.join(wd, "warm.comp"), "w") as f:
                    f.write("declare component Warm: -> \n" + "".join('strand W%d = %s\n' % (j, " ".join(['"1N"'] * min(50, k - 50 * j)))
                                                                      for j in range((k + 49) // 50)))
            runs = []
            for fmt in ("pil", "des"):
                for c in range(nconf if fmt == "pil" else max(2, nconf // 2)):
                    where = rng.choice(["proj", "root", "deep"])
                    if getattr(b, "same_named_subsystem", False) and c % 2 == 1:
                        where = "proj"              # compiled from its own directory: the same relative file names as the earlier project
                    cwd = {"proj": os.path.join(root, "proj"), "root": root, "deep": os.path.join(root, "proj", "deep", "er")}[where]
                    rel = os.path.relpath(os.path.join(root, "proj"), cwd)
                    pj = (lambda p: os.path.normpath(os.path.join(rel, p)))
                    nh = rng.randint(0, 4)
                    if fmt == "pil" and c == 0:
                        nh = 0                      # every program is compiled at least once as the first compile of its process ...
                    elif fmt == "pil" and c == 1:
                        nh = max(1, nh)             # ... and at least once after earlier (successful) compiles
                    job = {"entry": pj(b.entry), "includes": [pj(x) for x in b.includes], "fmt": fmt,
                           "out": pj("o%d.%s" % (c, fmt)), "save": pj("o%d.save" % c),
                           "history": [({"cwd": os.path.join(root, "hist%d" % k), "entry": hist[k].entry, "includes": list(hist[k].includes),
                                         "out": "o.pil", "save": "o.save"} if rng.random() < 0.6 else
                                        {"entry": os.path.relpath(os.path.join(root, "hist%d" % k, hist[k].entry), cwd),
                                         "includes": [os.path.relpath(os.path.join(root, "hist%d" % k, x), cwd) for x in hist[k].includes],
                                         "out": os.path.relpath(os.path.join(root, "hist%d" % k, "o.pil"), cwd),
                                         "save": os.path.relpath(os.path.join(root, "hist%d" % k, "o.save"), cwd)}) for k in range(nh)]}
                    if getattr(b, "same_named_subsystem", False) and c % 2 == 1:
                        job["history"] = [{"cwd": os.path.join(root, "hist0"), "entry": hist[0].entry, "includes": [], "out": "o.pil", "save": "o.save"}]
                        nh = 1
                        res.count("history:same-relative-file-names-another-declaration")
                    if getattr(b, "earlier_has_same_template", False) and c % 2 == 0:
                        # the earlier project (its own Gate.comp beside its top.sys) is compiled from THIS directory with the same
                        # include-list object; afterwards `import Gate` must still find the first include directory's Gate
                        job["history"] = [{"entry": os.path.relpath(os.path.join(root, "hist0", hist[0].entry), cwd), "includes": [],
                                           "out": os.path.relpath(os.path.join(root, "hist0", "o.pil"), cwd),
                                           "save": os.path.relpath(os.path.join(root, "hist0", "o.save"), cwd), "share": True}]
                        nh = 1
                        res.count("history:shares-the-include-list-object")
                    elif job["includes"] and rng.random() < 0.5:
                        # a script that keeps ONE list of include directories for all its compiles: the same list object goes to the
                        # earlier compiles (run from this directory, so that relative entries mean the same) and to this one
                        for h_ in job["history"]:
                            if not h_.get("cwd"):
                                h_["share"] = True
                                res.count("history:shares-the-include-list-object")
                    if rng.random() < 0.3:
                        # an earlier compile of THIS program that is refused (it takes no parameters and is given three): a refused compile
                        # must leave nothing behind that changes the next one
                        job["history"] = job["history"] + [{"entry": job["entry"], "includes": list(job["includes"]), "out": pj("refused.pil"),
                                                            "save": pj("refused.save"), "args": [7, 8, 9]}]
                        res.count("history:refused-compile-of-the-same-program")
                    if rng.random() < 0.3:
                        # the compiler package is imported while the process sits in another project's directory (same relative file
                        # names there), then the process moves here and compiles: nothing may be remembered from import time
                        job["import_from"] = os.path.join(root, "hist%d" % rng.randrange(len(hist)))
                        res.count("imported-in-another-project-directory")
                    hs = seeds_cycle[c % 8]
                    runs.append((fmt, c, where, cwd, job, hs, nh))
            for c, k in enumerate(ks):
                for fmt in (("pil", "des") if c % 2 == 0 or tier != "quick" else ("pil",)):
                    cwd = os.path.join(root, "proj")
                    job = {"entry": b.entry, "includes": list(b.includes), "fmt": fmt, "out": "k%d.%s" % (k, fmt), "save": "k%d.save" % k,
                           "history": [{"cwd": os.path.join(root, "warm%d" % k), "entry": "warm", "includes": [], "out": "o.pil", "save": "o.save"}]}
                    runs.append((fmt, "k%d" % k, "proj", cwd, job, seeds_cycle[c % 8], "warm-%d-anon" % k))
            if fixed_lines:
                # set-iteration order is where a hash seed shows: programs with a fixed file see every seed of the cycle
                for hs_ in seeds_cycle:
                    cwd = os.path.join(root, "proj")
                    runs.append(("pil", "h" + hs_, "proj", cwd, {"entry": b.entry, "includes": list(b.includes), "fmt": "pil", "out": "h%s.pil" % hs_,
                                                                 "save": "h%s.save" % hs_, "history": []}, hs_, 0))
            for fmt, c, where, cwd, job, hs, nh in runs:
                if True:
                    if fixed_lines:
                        job["fixed"] = os.path.relpath(os.path.join(root, "proj", "fixed.fix"), cwd)
                    env = dict(os.environ, PYTHONHASHSEED=hs, PYTHONPATH=core.REPO, PEPPER_REPO=core.REPO, PYTHONDONTWRITEBYTECODE="1")
                    p = subprocess.run([sys.executable, worker, json.dumps(job)], cwd=cwd, env=env, capture_output=True, text=True, timeout=300)
                    res.evaluations += 1
                    res.count("cwd:" + where); res.count("hashseed:" + hs); res.count("history:%s" % (nh if isinstance(nh, int) else "counter-sweep"))
                    conf = {"format": fmt, "cwd": where, "hashseed": hs, "earlier_compiles": nh, "anon_counter_before": None, "fixed_file": fixed_lines or None, "includes": job["includes"], "entry": job["entry"]}
                    inp = {"files": b.texts, "config": conf}
                    if p.returncode != 0:
                        res.violations.append({"what": "compile crashed in a subprocess", "input": inp, "observed": p.stderr[-400:], "sig": "C18:crash", "cmd": "pepper-compiler"})
                        continue
                    r = json.loads(p.stdout)
                    conf["anon_counter_before"] = r["anon_before"]
                    if not isinstance(nh, int):
                        res.count("counter-before:%s" % ("<10" if r["anon_before"] < 10 else "<100" if r["anon_before"] < 100 else "<1000" if r["anon_before"] < 1000 else ">=1000"))
                    key = fmt
                    if not r["ok"]:
                        outs.setdefault(key, []).append((conf, None)); continue
                    if "_Anon" in r["text"]:
                        res.nontriv((b.texts, json.dumps(conf)))
                    d = dup_names(r["text"], fmt)
                    if d:
                        res.violations.append({"what": "object name defined twice: %r" % d[:3], "input": inp, "sig": "C18:duplicate-name", "cmd": "pepper-compiler"})
                    outs.setdefault(key, []).append((conf, canon_text(r["text"])))
                    if drv is not None and where == "proj" and fmt == "pil" and not getattr(b, "directed", False):
                        fx = [{"kind": "sequence", "name": l_.split()[1], "seq": l_.split()[3]} for l_ in fixed_lines]
                        rq = progen.compile_request(b, fmt, anon=r["anon_before"], fixed=fx)
                        reqs.append(rq); meta.append((inp, impl.canon_lines(r["text"])))
            for key, lst in outs.items():
                ref_conf, ref = lst[0]
                for conf, t in lst[1:]:
                    if t != ref:
                        first = None
                        if t is not None and ref is not None:
                            first = next(((a, b_) for a, b_ in zip(ref, t) if a != b_), (len(ref), len(t)))
                        res.violations.append({"what": "the same files compile to different specifications under different configurations",
                                               "input": {"files": b.texts, "config_a": ref_conf, "config_b": conf}, "observed": first,
                                               "sig": "C18:differs", "cmd": "pepper-compiler (see config_a / config_b)"})
                        break
            if len(res.samples) < 1 and outs.get("pil") and outs["pil"][0][1]:
                res.sample({"source": b.texts, "configs": [c for c, _ in outs["pil"]][:3]})
    res.programs = n
    if drv is not None and reqs:
        got = drv.call_many(reqs)
        for (inp, lines), g in zip(meta, got):
            res.disagreements_checked += 1
            if impl.model_lines(g) != lines:
                res.corr_breaks.append({"name": "Comp/Sys.compile(anon offset)", "input": inp, "model": json.dumps(g)[:500], "impl": lines[:5]})
                if len(res.corr_breaks) > 3:
                    break
    return res
