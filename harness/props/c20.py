"""C20 — runs with distinct output names do not interfere.

Theorems: PepperProps/C20.lean (footprints_disjoint, commute for N processes, noninterference, …) about the
model PepperModel/Fs.lean (file-name logic of the three CLI tools + an abstract file system with
interleaved processes).

What the theorems cannot say — that the REAL processes touch nothing outside their footprint — is
observed here:

(i)  FOOTPRINT.  Every CLI tool is run once per command-line variant under `strace -f` in a fresh copy of a
     working directory; the paths opened for writing / created / unlinked / renamed must equal the files
     the property allows (an independent Python reading of the English statement: compile -> output+save,
     design -> temp.st/.wc/.eq/.sp (+output unless --just-files), finish -> seqs (+strands)).  A second,
     strace-independent oracle compares directory snapshots before/after.  Correspondence: the same command
     line is sent to the model op `footprint`; its writes / reads / probes must equal the observed ones.
(ii) CONCURRENCY.  Generated schedules of N = 2..8 real processes (compiles, design --just-files runs,
     finishes; pairwise distinct --output/--save/--tempname/--seqs/--strands) are released from a barrier
     (after the interpreter has imported the package) with small random delays in ONE directory; every file
     of the directory is compared byte for byte (time-stamp line of .pil/.des masked) with the directory
     obtained by running the same commands one after another in a fresh copy.  Correspondence: every pair of
     a schedule is sent to the model op `footprint-pair`; the decidable hypotheses of
     `footprints_disjoint` must hold for it, and `indep` must agree with set-disjointness of the
     independently computed footprints (also on deliberately colliding pairs)."""
import concurrent.futures
import fcntl
import hashlib
import json
import os
import re
import shutil
import subprocess
import sys
import time

import core
import ssm
from core import Result

LEVEL = "proof"
LEVEL_NOTE = ("PARTIAL: theorems cover the footprint calculus and the commutation of arbitrary processes that stay inside "
              "their footprints, for N processes and every interleaving; that the real processes touch nothing else is an "
              "OS-level fact observed by strace and directory snapshots on sampled command lines, not a theorem")

PY = "/venv/bin/python"
MODULES = {"compile": "peppercompiler.compiler", "design": "peppercompiler.design.spurious_design",
           "finish": "peppercompiler.finish"}
SCRIPT = {"compile": "pepper-compiler", "design": "pepper-design-spurious", "finish": "pepper-finish"}
TEMP_EXTS = (".st", ".wc", ".eq", ".sp")
STRACE_CALLS = ("openat,open,creat,unlink,unlinkat,rename,renameat,renameat2,mkdir,mkdirat,rmdir,link,linkat,symlink,"
                "symlinkat,truncate,chmod,fchmodat,mknod,mknodat,stat,lstat,newfstatat,access,faccessat,faccessat2,statx,"
                "readlink,readlinkat,chdir")

# the console scripts of setup.py, plus a start barrier that is only active when C20_BARRIER is set; the package is
# imported BEFORE the barrier so that the processes reach their file operations together
LAUNCHER = '''import os, sys
from %s import main
def _barrier():
    b = os.environ.get("C20_BARRIER")
    if not b:
        return
    import fcntl, time
    open(os.environ["C20_READY"], "w").close()
    with open(b) as f:
        fcntl.flock(f, fcntl.LOCK_SH)
    time.sleep(float(os.environ.get("C20_DELAY", "0")))
if __name__ == "__main__":
    _barrier()
    sys.exit(main())
'''

# builds a valid .mfe for a .pil without the designer (NUPACK / spuriousSSM are absent in the sandbox)
# full design runs (no --just-files): the real main() and the real design() run to the end — spuriousSSM (built from the working
# tree, replayable seed through the guarded hook) is started, its output read back, the .mfe written and the scratch files
# cleaned up; only the two things this sandbox lacks are supplied from outside: the path of the designer binary and
# findmfe=False (NUPACK's mfe program is absent)
LAUNCHER_DESIGN = '''import os
import peppercompiler.design.spurious_design as _sd
_orig_design = _sd.design
def _design(*a, **kw):
    kw.setdefault("findmfe", os.environ.get("C20_FINDMFE") == "1")
    kw.setdefault("spuriousbinary", os.environ["C20_SSM"])
    return _orig_design(*a, **kw)
_sd.design = _design
''' + LAUNCHER

# stand-in for NUPACK's `mfe` program ($NUPACKHOME/bin/mfe -T <t> -material dna -multi <prefix>): reads <prefix>.in, writes
# <prefix>.mfe in NUPACK's output layout with the open structure.  It lets the design runs go through the REAL NUPACK wrapper
# (DNAfold / DNAfold_Nupack: scratch files from tempfile in $TMPDIR, shell call, result parser) with findmfe=True.
MFE_STUB = '''#!%s
import sys
prefix = sys.argv[-1]
lines = open(prefix + ".in").read().split("\\n")
n = int(lines[0])
seqs = [l.strip() for l in lines[1:1 + n]]
struct = "+".join("." * len(x) for x in seqs)
with open(prefix + ".mfe", "w") as f:
    f.write("%%%% stand-in for NUPACK mfe\\n%%%% sequences: " + " ".join(seqs) + "\\n\\n%%d\\n-0.000\\n%%s\\n" %% (sum(len(x) for x in seqs), struct))
''' % PY

MKMFE = '''import sys
from peppercompiler.design.constraint_load import Convert
from peppercompiler.design.PIL_DNA_classes import group
def mkmfe(pil, out):
    c = Convert(pil, False)
    eq, wc, st = c.get_constraints()
    comp = {"A": "T", "T": "A", "C": "G", "G": "C"}
    base, nts = {}, []
    for i in range(len(st)):
        if st[i] is None:
            nts.append(" "); continue
        r = eq[i]
        if r not in base:
            b = sorted(group[st[r]])[0]
            base[r] = b
            if wc[r] is not None:
                base[wc[r]] = comp[b]
        nts.append(base[r])
    c.process_results("".join(nts))
    c.output(out, findmfe=False)
mkmfe(sys.argv[1], sys.argv[2])
'''


NUPACK_HOME = [None, None]     # set by run(): (directory holding bin/mfe, the TMPDIR of the children)


def cmd_env(env, cmd):
    return dict(env, C20_FINDMFE="1") if cmd.get("findmfe") else env


def child_env():
    e = dict(os.environ)
    e["PYTHONDONTWRITEBYTECODE"] = "1"
    e["PYTHONPATH"] = core.REPO
    e["C20_SSM"] = ssm.build(False)
    if NUPACK_HOME[0]:
        e["NUPACKHOME"] = NUPACK_HOME[0]
        e["TMPDIR"] = NUPACK_HOME[1]
    e.pop("C20_FINDMFE", None)
    e[core.GUARD] = "1"
    e[core.GUARD + "_SEED"] = "20"       # replayable random stream of spuriousSSM: concurrent and sequential runs comparable
    e.pop(core.GUARD + "_TRACE", None)
    for k in ("C20_BARRIER", "C20_READY", "C20_DELAY"):
        e.pop(k, None)
    return e


# ----------------------------------------------------------------------------------------------
# working directories
# ----------------------------------------------------------------------------------------------

EXAMPLE_SYSTEMS = [  # (directory under examples, main source file)
    ("Georg_System", "Circuit.sys"),
    ("system1", "HalfAdder.sys"),
    ("", "Hairpin.comp"),
    ("Zhang_etal_Science_2007", "Original.sys"),
    ("PSwitch", "PSwitchTest.sys"),
    ("Lulu", "System.sys"),
]


def gen_system_files(rng, idx):
    """a small generated system: a chain of k hairpin components with random lengths / templates"""
    n = rng.randint(6, 18)
    s = rng.randint(0, min(4, n))
    k = rng.randint(1, 3)
    comp = "G%d" % idx
    tmpl = ('"%dS %dN"' % (s, n - s)) if 0 < s < n else ('"%dN"' % n)
    files = {comp + ".comp": (
        "declare component %s: a -> b\n\nsequence a = %s : %d\nsequence b = \"%dN\" : %d\n\n"
        "strand input = a : %d\nstrand hp = a* b a : %d\n\nstructure Input = input : %d.\nstructure Hp = hp : %d( %d. %d)\n"
        % (comp, tmpl, n, n, n, n, 3 * n, n, n, n, n))}
    sysname = "GenSys%d" % idx
    body = "declare system %s: ->\n\nimport %s\n\n" % (sysname, comp)
    for i in range(k):
        body += "component g%d = %s: x%d -> x%d\n" % (i, comp, i, i + 1)
    files[sysname + ".sys"] = body
    return files, sysname + ".sys"


def copy_flat(src, dst):
    os.makedirs(dst)
    for fn in sorted(os.listdir(src)):
        p = os.path.join(src, fn)
        if os.path.isfile(p):
            shutil.copy2(p, os.path.join(dst, fn))


def run_tool(bindir, tool, argv, wd, env, timeout=300):
    return subprocess.run([PY, os.path.join(bindir, SCRIPT[tool])] + argv, cwd=wd, env=env, stdout=subprocess.DEVNULL,
                          stderr=subprocess.PIPE, timeout=timeout)


def prepare_base(root, bindir, name, src, main):
    """directory `fs0`: the sources plus one sequential compile -> design(.mfe built in-process) so that design and
    finish runs have their inputs; also a comment-only --fixed file and an extension-less copy of the .pil"""
    base = os.path.join(root, "base_" + name)
    if isinstance(src, dict):
        os.makedirs(base)
        for fn, body in src.items():
            with open(os.path.join(base, fn), "w") as f:
                f.write(body)
    else:
        copy_flat(src, base)
    b = re.sub(r"\.(sys|comp)$", "", main)
    env = child_env()
    p = run_tool(bindir, "compile", [main], base, env)
    if p.returncode != 0:
        raise RuntimeError("base compile of %s failed: %s" % (main, p.stderr.decode()[-400:]))
    p = subprocess.run([PY, os.path.join(bindir, "mkmfe.py"), b + ".pil", b + ".mfe"], cwd=base, env=env,
                       stdout=subprocess.DEVNULL, stderr=subprocess.PIPE, timeout=300)
    if p.returncode != 0:
        raise RuntimeError("base mfe of %s failed: %s" % (main, p.stderr.decode()[-400:]))
    with open(os.path.join(base, "c20.fixed"), "w") as f:
        f.write("# no fixed sequences\n")
    shutil.copy(os.path.join(base, b + ".pil"), os.path.join(base, "Raw" + b))
    return {"name": name, "base": base, "main": main, "b": b, "files": sorted(os.listdir(base))}


# ----------------------------------------------------------------------------------------------
# commands, the independent footprint specification, model requests
# ----------------------------------------------------------------------------------------------

FULL_RUN_PARS = ["imax=25"]   # spuriousSSM parameters of full design runs (positional arguments after the input name)


def mk_cmd(tool, arg0, rng=None, des=False, just_files=True, struct=False, keep_temp=False, decoys=(), dirs=(), findmfe=False, **opts):
    opts = {k: v for k, v in opts.items() if v is not None}
    argv = [arg0]
    long = {"output": "--output", "save": "--save", "tempname": "--tempname", "design": "--design", "seqs": "--seqs",
            "strands": "--strands", "fixed": "--fixed"}
    short = {("design", "output"): "-o", ("design", "tempname"): "-t"}
    for k in sorted(opts):
        style = rng.randint(0, 2) if rng else 0
        if style == 1 and (tool, k) in short:
            argv += [short[(tool, k)], opts[k]]
        elif style == 2:
            argv += ["%s=%s" % (long[k], opts[k])]
        else:
            argv += [long[k], opts[k]]
    if tool == "compile" and des:
        argv.append("--des")
    if tool == "design":
        if struct:
            argv.append("--struct")
        if just_files:
            argv.append("--just-files")
        elif keep_temp:
            argv.append("--keep-temp")
    if rng and rng.random() < 0.3:  # options before the positional argument
        argv = argv[1:] + argv[:1]
    if tool == "design" and not just_files:
        argv += FULL_RUN_PARS
    return {"tool": tool, "arg0": arg0, "opts": opts, "des": des, "just_files": just_files, "struct": struct, "argv": argv,
            "keep_temp": keep_temp, "decoys": list(decoys), "dirs": list(dirs), "findmfe": bool(findmfe and not just_files)}


def strip_ext(name, exts):
    for e in exts:
        if name.endswith("." + e):
            return name[:-len(e) - 1]
    return name


def spec_footprint(cmd, existing):
    """What the English property allows a run to write (and, for design/finish, what it has to read) — written from the
    README / --help texts, independent of the Lean model."""
    o, a0, tool = cmd["opts"], cmd["arg0"], cmd["tool"]
    if tool == "compile":
        b = strip_ext(a0, ["sys", "comp"])
        return {"writes": {o.get("output") or b + (".des" if cmd["des"] else ".pil"), o.get("save") or b + ".save"},
                "reads": None}
    if tool == "design":
        infile = a0 if a0 in existing else (a0 + ".pil" if a0 + ".pil" in existing else None)
        if infile is None:
            return {"writes": set(), "reads": set()}
        b = strip_ext(infile, ["pil"])
        t = o.get("tempname") or b
        w = {t + e for e in TEMP_EXTS}
        if not cmd["just_files"]:
            w.add(o.get("output") or b + ".mfe")
        return {"writes": w, "reads": {infile}}
    b = strip_ext(a0, ["save", "mfe"])
    w = {o.get("seqs") or b + ".seqs"}
    if o.get("strands"):
        w.add(o["strands"])
    return {"writes": w, "reads": {o.get("save") or b + ".save", o.get("design") or b + ".mfe"}}


def model_req(cmd, existing):
    r = {"tool": cmd["tool"], "arg0": cmd["arg0"], "des": cmd["des"], "just_files": cmd["just_files"], "cleanup": not cmd.get("keep_temp"),
         "existing": sorted(existing),
         "sources": sorted(f for f in existing if f.endswith(".sys") or f.endswith(".comp"))}
    r.update(cmd["opts"])
    return r


# ----------------------------------------------------------------------------------------------
# strace
# ----------------------------------------------------------------------------------------------

PATH_TOKEN = re.compile(r'(?:(AT_FDCWD|\d+)(?:<([^>]*)>)?,\s*)?"((?:[^"\\]|\\.)*)"')
WRITE_FLAGS = ("O_WRONLY", "O_RDWR", "O_CREAT", "O_TRUNC", "O_APPEND")
WRITE_CALLS = {"creat", "unlink", "unlinkat", "rmdir", "mkdir", "mkdirat", "truncate", "chmod", "fchmodat", "mknod", "mknodat"}
TWO_PATH_CALLS = {"rename", "renameat", "renameat2", "link", "linkat"}
PROBE_CALLS = {"stat", "lstat", "newfstatat", "access", "faccessat", "faccessat2", "statx", "readlink", "readlinkat"}


def unescape(s):
    return s.encode("latin-1", "backslashreplace").decode("unicode_escape") if "\\" in s else s


def parse_strace(path, wd):
    """-> dict of sets of paths relative to wd: writes, reads, probes; plus write-class paths outside wd."""
    wd = os.path.realpath(wd)
    out = {"writes": set(), "reads": set(), "probes": set(), "outside": set(), "chdir": set(), "lines": 0}
    pending = {}

    def rel(dirpath, p):
        ab = p if p.startswith("/") else os.path.join(dirpath or wd, p)
        ab = os.path.normpath(ab)
        if ab == wd:
            return "."
        if ab.startswith(wd + "/"):
            return ab[len(wd) + 1:]
        return None

    with open(path, errors="replace") as f:
        for line in f:
            m = re.match(r"^(\d+)\s+(.*)$", line.rstrip("\n"))
            if not m:
                continue
            pid, rest = m.group(1), m.group(2)
            if rest.startswith("+++") or rest.startswith("---"):
                continue
            if rest.endswith("<unfinished ...>"):
                pending[pid] = rest[:-len("<unfinished ...>")]
                continue
            r = re.match(r"^<\.\.\. \w+ resumed>(.*)$", rest)
            if r:
                rest = pending.pop(pid, "") + r.group(1)
            m = re.match(r"^(\w+)\((.*)\)\s*=\s*(-?\d+|\?)", rest)
            if not m:
                continue
            out["lines"] += 1
            call, args, ret = m.group(1), m.group(2), m.group(3)
            ok = ret != "?" and not ret.startswith("-")
            toks = [(t.group(2), unescape(t.group(3))) for t in PATH_TOKEN.finditer(args)]
            if not toks:
                continue
            if call in ("open", "openat"):
                d, p = toks[0]
                if p == "":
                    continue
                r_ = rel(d, p)
                iswrite = any(fl in args for fl in WRITE_FLAGS)
                if iswrite:
                    if r_ is None:
                        ab = os.path.normpath(p if p.startswith("/") else os.path.join(d or wd, p))
                        if not (ab.startswith("/dev/") or ab.startswith("/proc/")):
                            out["outside"].add(ab)
                    else:
                        out["writes"].add(r_)
                elif r_ is not None and r_ != ".":
                    if ok and "O_DIRECTORY" not in args:
                        out["reads"].add(r_)
                    else:
                        out["probes"].add(r_)
            elif call in WRITE_CALLS or call in TWO_PATH_CALLS or call in ("symlink", "symlinkat"):
                use = toks[:2] if call in TWO_PATH_CALLS else (toks[1:2] if call.startswith("symlink") else toks[:1])
                for d, p in use:
                    r_ = rel(d, p)
                    if r_ is None:
                        out["outside"].add(os.path.normpath(p if p.startswith("/") else os.path.join(d or wd, p)))
                    else:
                        out["writes"].add(r_)
            elif call in PROBE_CALLS:
                d, p = toks[0]
                if p == "":
                    continue
                r_ = rel(d, p)
                if r_ is not None and r_ != ".":
                    out["probes"].add(r_)
            elif call == "chdir":
                out["chdir"].add(toks[0][1])
    return out


def snapshot(wd):
    snap = {}
    for root, dirs, files in os.walk(wd):
        for d in dirs:
            snap[os.path.relpath(os.path.join(root, d), wd) + "/"] = ("dir",)
        for fn in files:
            p = os.path.join(root, fn)
            st = os.lstat(p)
            with open(p, "rb") as f:
                h = hashlib.sha1(f.read()).hexdigest()
            snap[os.path.relpath(p, wd)] = (st.st_size, st.st_mtime_ns, st.st_ino, h)
    return snap


def snap_diff(a, b):
    return {k for k in set(a) | set(b) if a.get(k) != b.get(k)}


# ----------------------------------------------------------------------------------------------
# (i) footprint cases
# ----------------------------------------------------------------------------------------------

def footprint_cases(rng, sysd):
    b, main = sysd["b"], sysd["main"]
    u = "%d" % rng.randint(10, 99)
    cases = [
        ("ok", mk_cmd("compile", main)),
        ("ok", mk_cmd("compile", b, rng, output="o" + u + ".pil", save="o" + u + ".save")),
        ("ok", mk_cmd("compile", main, des=True)),
        ("ok", mk_cmd("compile", main, rng, des=True, output="x" + u + ".des", save="x" + u + ".sv", fixed="c20.fixed")),
        ("ok", mk_cmd("compile", main, rng, save="only" + u)),
        ("fail", mk_cmd("compile", "Nope" + u, rng, output="n.pil", save="n.save")),
        ("ok", mk_cmd("design", b)),
        ("ok", mk_cmd("design", b + ".pil", rng, tempname="t" + u)),
        ("ok", mk_cmd("design", b, rng, struct=True, tempname="t" + u + ".st", output="m" + u + ".mfe")),
        ("ok", mk_cmd("design", "Raw" + b, rng)),
        ("usage", mk_cmd("design", "Nope" + u, rng, tempname="tn")),
        # names with a directory part: the scratch files are <tempname>.st ... (in job<u>/), the output goes to res<u>/ - nothing else
        ("ok", mk_cmd("design", b, rng, tempname="job%s/tmp" % u, output="res%s/m.mfe" % u, dirs=["job" + u, "res" + u, "other" + u],
                      decoys=["res%s/tmp.st" % u, "other%s/tmp.st" % u])),
        ("ok", mk_cmd("design", b, rng, just_files=False, tempname="job%s/tmp" % u, output="res%s/m.mfe" % u, dirs=["job" + u, "res" + u],
                      decoys=["res%s/tmp.sp" % u])),
        ("ok", mk_cmd("design", b, rng, tempname="trial=" + u, decoys=["trial_%s%s" % (u, e) for e in TEMP_EXTS])),
        ("ok", mk_cmd("design", b, rng, just_files=False, tempname="trial:" + u, decoys=["trial_%s%s" % (u, e) for e in TEMP_EXTS])),
        # a temp name / output name that is also the name of an existing DIRECTORY of the working directory (a folder of an earlier
        # run): the scratch files are still <tempname>.st ..., beside the folder, not inside it
        ("ok", mk_cmd("design", b, rng, tempname="run" + u, dirs=["run" + u, "run%s.d" % u], decoys=["run%s/%s.st" % (u, b), "run%s/keep.txt" % u])),
        ("ok", mk_cmd("compile", main, rng, output="dir%s.pil" % u, save="dir%s.save" % u, dirs=["dir" + u])),
        # full design runs (designer started, .mfe written, scratch files cleaned up or kept); beside them lie the scratch
        # files of OTHER runs whose temp names extend / are extended by this run's temp name
        ("ok", mk_cmd("design", b, rng, just_files=False, findmfe=True, tempname="f" + u,
                      decoys=["f%s.b%s" % (u, e) for e in TEMP_EXTS] + ["f%s%s.st" % (u, TEMP_EXTS[0]), "f" + u[:1] + ".sp", "f%s.mfe" % u])),
        ("ok", mk_cmd("design", b + ".pil", rng, just_files=False, keep_temp=True, tempname="k" + u + ".1", output="mk" + u + ".mfe",
                      decoys=["k%s%s" % (u, e) for e in TEMP_EXTS] + ["k%s.1.x%s" % (u, e) for e in TEMP_EXTS])),
        ("ok", mk_cmd("design", b, rng, just_files=False, struct=True, findmfe=True,
                      decoys=["%s.run2%s" % (b, e) for e in TEMP_EXTS] + [b + ".pil.st", b + ".mfe.sp"])),
        ("ok", mk_cmd("finish", b)),
        ("ok", mk_cmd("finish", b + ".mfe", rng, seqs="q" + u + ".seqs", strands="r" + u + ".strands")),
        ("ok", mk_cmd("finish", b + ".save", rng, save=b + ".save", design=b + ".mfe", seqs="q" + u)),
        ("fail", mk_cmd("finish", "Nope" + u, rng, seqs="nq.seqs", strands="nr.strands")),
    ]
    return cases


def run_footprint_case(root, bindir, sysd, idx, expect, cmd):
    wd = os.path.join(root, "fp_%s_%d" % (sysd["name"], idx))
    shutil.copytree(sysd["base"], wd)
    for d in cmd.get("dirs", ()):
        os.makedirs(os.path.join(wd, d), exist_ok=True)
    for d in cmd.get("decoys", ()):
        with open(os.path.join(wd, d), "w") as f:
            f.write("scratch file of another run\n")
    tr = os.path.join(root, "trace_%s_%d.txt" % (sysd["name"], idx))
    before = snapshot(wd)
    t0 = time.time()
    p = subprocess.run(["strace", "-f", "-y", "-e", "trace=" + STRACE_CALLS, "-o", tr,
                        PY, os.path.join(bindir, SCRIPT[cmd["tool"]])] + cmd["argv"],
                       cwd=wd, env=cmd_env(child_env(), cmd), stdout=subprocess.DEVNULL, stderr=subprocess.PIPE, timeout=600)
    dt = time.time() - t0
    after = snapshot(wd)
    after_names = sorted(os.listdir(wd))
    obs = parse_strace(tr, wd)
    shutil.rmtree(wd, ignore_errors=True)
    os.remove(tr)
    return {"sys": sysd["name"], "expect": expect, "cmd": cmd, "rc": p.returncode, "obs": obs,
            "changed": snap_diff(before, after), "after_names": after_names, "stderr": p.stderr.decode(errors="replace")[-300:], "dt": dt}


def cmdline(cmd):
    return "%s %s" % (SCRIPT[cmd["tool"]], " ".join(cmd["argv"]))


def judge_footprint(res, sysd, r, model):
    cmd, obs = r["cmd"], r["obs"]
    existing = set(sysd["files"])
    spec = spec_footprint(cmd, existing)
    res.evaluations += 1
    res.count("footprint:%s:%s" % (cmd["tool"], r["expect"]))
    inp = {"system": sysd["name"], "cmdline": cmdline(cmd), "argv": cmd["argv"], "tool": cmd["tool"]}
    how = ("cd <copy of examples dir with %s compiled>; strace -f -y -e trace=%s -o t.txt /venv/bin/python -c "
           "'from %s import main; main()' %s" % (sysd["main"], STRACE_CALLS, MODULES[cmd["tool"]], " ".join(cmd["argv"])))
    if obs["lines"] < 20:
        raise RuntimeError("strace produced no usable trace for %s: %s" % (cmdline(cmd), r["stderr"]))
    succeeded = (r["rc"] == 0)
    if (r["expect"] == "ok") != succeeded:
        raise RuntimeError("footprint case %s on %s: rc=%s, expected %s: %s" % (cmdline(cmd), sysd["name"], r["rc"],
                                                                              r["expect"], r["stderr"]))
    if succeeded:
        res.nontriv(inp)
    # --- oracle 1 (strace): nothing outside the allowed files is opened for writing / created / removed / renamed
    # the NUPACK wrapper keeps its own scratch pair (tempfile: mfe_XXXXXXXX.in / .mfe) in the system's temp directory, outside the
    # working directory the property speaks about
    tmpd = NUPACK_HOME[1]
    # (plus the probe file tempfile creates once to find a usable temp directory)
    outside = {p_ for p_ in obs["outside"] if not (cmd.get("findmfe") and tmpd and os.path.dirname(p_) == os.path.realpath(tmpd))}
    extra = sorted(obs["writes"] - spec["writes"]) + sorted(outside)
    missing = sorted(spec["writes"] - obs["writes"]) if succeeded else []
    if extra or missing or obs["chdir"]:
        res.violations.append({"what": "%s touched files outside its output/save/scratch set (extra) or did not write an "
                                       "announced file (missing)" % cmd["tool"],
                               "input": inp, "observed": {"extra": extra, "missing": missing, "chdir": sorted(obs["chdir"]),
                                                          "written": sorted(obs["writes"])},
                               "expected": sorted(spec["writes"]), "sig": "C20:footprint", "cmd": how})
    # --- oracle 2 (directory snapshots, independent of strace)
    ch = r["changed"]
    extra2 = sorted(ch - spec["writes"])
    transient = set()    # scratch files a full design run creates and removes again (no --keep-temp): not in a before/after listing
    if cmd["tool"] == "design" and not cmd["just_files"] and not cmd.get("keep_temp"):
        t_ = cmd["opts"].get("tempname") or strip_ext(next(iter(spec["reads"]), ""), ["pil"])
        transient = {t_ + e for e in TEMP_EXTS}
    missing2 = sorted(spec["writes"] - transient - ch) if succeeded else []
    left = sorted(transient & set(r.get("after_names", ())))
    if succeeded and left:
        res.violations.append({"what": "a design run without --keep-temp left scratch files behind", "input": inp,
                               "observed": left, "sig": "C20:footprint", "cmd": how})
    if extra2 or missing2:
        res.violations.append({"what": "directory listing before/after %s differs outside the allowed files" % cmd["tool"],
                               "input": inp, "observed": {"extra": extra2, "missing": missing2, "changed": sorted(ch)},
                               "expected": sorted(spec["writes"]), "sig": "C20:footprint", "cmd": how})
    # --- oracle 3: inputs. design/finish read exactly their inputs; a compile reads / probes only source files
    if cmd["tool"] == "compile":
        allowed_ext = lambda p_: p_.endswith(".sys") or p_.endswith(".comp") or p_ == cmd["opts"].get("fixed")
        bad = sorted(p_ for p_ in (obs["reads"] | obs["probes"]) - obs["writes"] if not allowed_ext(p_))
        if bad:
            res.violations.append({"what": "compile read or probed a non-source file of the working directory",
                                   "input": inp, "observed": bad, "sig": "C20:footprint-reads", "cmd": how})
    elif succeeded and obs["reads"] - obs["writes"] != spec["reads"]:
        res.violations.append({"what": "%s read other files than its announced inputs" % cmd["tool"], "input": inp,
                               "observed": sorted(obs["reads"]), "expected": sorted(spec["reads"]),
                               "sig": "C20:footprint-reads", "cmd": how})
    # --- correspondence with the model
    if model is not None:
        res.disagreements_checked += 1
        mo = model.get("ok")
        if mo is None:
            res.corr_breaks.append({"name": "Fs.footprint", "input": inp, "model": model, "impl": "ran"})
            return
        impl_w = sorted(obs["writes"])
        if succeeded or r["expect"] == "usage":
            okw = (impl_w == mo["writes"])
        else:
            okw = set(impl_w) <= set(mo["writes"])   # a failing run stops early
        if not okw:
            res.corr_breaks.append({"name": "Fs.footprint.writes", "input": inp, "model": mo["writes"], "impl": impl_w})
        impl_r = sorted(obs["reads"] - obs["writes"])
        model_r = [x for x in mo["reads"] if x not in mo["writes"]]
        if cmd["tool"] == "compile":
            okr = set(impl_r) <= set(model_r)
        elif succeeded or r["expect"] == "usage":
            okr = impl_r == model_r
        else:
            okr = set(impl_r) <= set(model_r)
        if not okr:
            res.corr_breaks.append({"name": "Fs.footprint.reads", "input": inp, "model": mo["reads"], "impl": impl_r})
        if cmd["tool"] != "compile":
            impl_p = sorted((obs["probes"] | obs["reads"]) - obs["writes"])
            model_p = sorted((set(mo["probes"]) | set(mo["reads"])) - set(mo["writes"]))
            okp = (impl_p == model_p) if (succeeded or r["expect"] == "usage") else set(impl_p) <= set(model_p)
            if not okp:
                res.corr_breaks.append({"name": "Fs.footprint.probes", "input": inp, "model": model_p, "impl": impl_p})


# ----------------------------------------------------------------------------------------------
# (ii) concurrency
# ----------------------------------------------------------------------------------------------

def gen_schedule(rng, sysd, n):
    """n commands with pairwise distinct names; at most one design uses the default temp name and at most one finish the
    default .seqs name; compiles always name --output and --save (the defaults are inputs of the other tools)."""
    b = sysd["b"]
    cmds, default_temp, default_seqs = [], False, False
    for k in range(n):
        tool = rng.choices(["compile", "design", "finish"], [0.4, 0.35, 0.25])[0]
        if tool == "compile":
            des = rng.random() < 0.4
            out = rng.choice(["o%d.pil", "o%d.des", "o%d", "out.%d.st.pil", "O%d.save"]) % k
            sv = rng.choice(["s%d.save", "s%d", "o%d.sav", "sv.%d.eq.save"]) % k
            arg0 = rng.choice([sysd["main"], b])
            cmds.append(mk_cmd("compile", arg0, rng, des=des, output=out, save=sv,
                               fixed="c20.fixed" if rng.random() < 0.2 else None))
        elif tool == "design":
            if not default_temp and rng.random() < 0.15:
                default_temp, t = True, None
            else:
                # (names with characters that are neither letters, digits nor _ . / + - : they are file names like any other)
                t = rng.choice(["t%d", "t%d.st", "t.%d", "tmp%d.sp.wc", "T%d", "t=%d", "t:%d", "t,%d", "t@%d", "t_%d"]) % k
                if rng.random() < 0.15:
                    t = "t" + ".st" * k        # t, t.st, t.st.st, …: scratch names of one are prefixes of another's
                elif rng.random() < 0.2:
                    t = "t.x%s" % (".x" * k)   # t.x, t.x.x, …: dotted extensions of one another
            full = rng.random() < 0.4          # the whole design run: designer, .mfe, cleanup (or --keep-temp)
            cmds.append(mk_cmd("design", rng.choice([b, b + ".pil", "Raw" + b]) if t is not None else b, rng,
                               struct=rng.random() < 0.5, tempname=t, just_files=not full,
                               keep_temp=full and rng.random() < 0.5, findmfe=full and rng.random() < 0.5,
                               output=("m%d.mfe" % k) if (full or rng.random() < 0.5) else None))
        else:
            if not default_seqs and rng.random() < 0.15:
                default_seqs, q = True, None
            else:
                q = rng.choice(["q%d.seqs", "q%d", "seqs.%d.st.txt"]) % k
            r_ = (rng.choice(["r%d.strands", "r%d"]) % k) if rng.random() < 0.6 else None
            cmds.append(mk_cmd("finish", rng.choice([b, b + ".mfe", b + ".save"]), rng, seqs=q, strands=r_))
        cmds[-1]["delay"] = rng.choice([0.0, 0.0, round(rng.uniform(0, 0.02), 4), round(rng.uniform(0, 0.12), 4)])
    # a raw design with default temp name would use Raw<b>.* : fine, still unique (only one default)
    return cmds


def start_all(cmds, wd, ctl, bindir, concurrent_mode):
    env = child_env()
    os.makedirs(ctl)
    rcs, errs = [], []
    if not concurrent_mode:
        for k, c in enumerate(cmds):
            p = run_tool(bindir, c["tool"], c["argv"], wd, cmd_env(env, c))
            rcs.append(p.returncode)
            errs.append(p.stderr.decode(errors="replace")[-300:])
        return rcs, errs
    lock = os.path.join(ctl, "go.lock")
    open(lock, "w").close()
    procs = []
    with open(lock) as lf:
        fcntl.flock(lf, fcntl.LOCK_EX)
        try:
            for k, c in enumerate(cmds):
                e = dict(cmd_env(env, c), C20_BARRIER=lock, C20_READY=os.path.join(ctl, "ready.%d" % k), C20_DELAY=str(c.get("delay", 0)))
                with open(os.path.join(ctl, "err.%d" % k), "wb") as ef:
                    procs.append(subprocess.Popen([PY, os.path.join(bindir, SCRIPT[c["tool"]])] + c["argv"], cwd=wd,
                                                  env=e, stdout=subprocess.DEVNULL, stderr=ef))
            t0 = time.time()
            while time.time() - t0 < 120:
                if all(os.path.exists(os.path.join(ctl, "ready.%d" % k)) or procs[k].poll() is not None
                       for k in range(len(cmds))):
                    break
                time.sleep(0.003)
        finally:
            fcntl.flock(lf, fcntl.LOCK_UN)
    for k, p in enumerate(procs):
        rcs.append(p.wait(timeout=600))
        with open(os.path.join(ctl, "err.%d" % k), "rb") as f:
            errs.append(f.read().decode(errors="replace")[-300:])
    return rcs, errs


def masked(data):
    """the first line of .pil/.des carries the wall-clock time"""
    if data.startswith(b"## Specification for "):
        nl = data.find(b"\n")
        first = data[:nl if nl >= 0 else len(data)]
        first = re.sub(rb"(compiled at: ).*$", rb"\1<time>", first)
        return first + (data[nl:] if nl >= 0 else b"")
    return data


def canonical_save(path):
    """names / lengths dump of a pickled system, only used when two .save files differ bytewise"""
    import pickle
    with core.quiet():
        with open(path, "rb") as f:
            obj = pickle.load(f)
    out = {}
    for attr in ("seqs", "base_seqs", "sup_seqs", "strands", "structs"):
        d = getattr(obj, attr, None)
        if d is not None:
            out[attr] = [(k, getattr(v, "length", None)) for k, v in d.items()]
    return out


def read_dir(wd):
    out = {}
    for root, _, files in os.walk(wd):
        for fn in files:
            p = os.path.join(root, fn)
            with open(p, "rb") as f:
                out[os.path.relpath(p, wd)] = f.read()
    return out


def run_schedule(root, bindir, sysd, idx, cmds):
    wc_ = os.path.join(root, "conc_%d" % idx)
    ws_ = os.path.join(root, "seq_%d" % idx)
    shutil.copytree(sysd["base"], wc_)
    shutil.copytree(sysd["base"], ws_)
    t0 = time.time()
    rc_c, err_c = start_all(cmds, wc_, os.path.join(root, "ctl_c_%d" % idx), bindir, True)
    t1 = time.time()
    rc_s, err_s = start_all(cmds, ws_, os.path.join(root, "ctl_s_%d" % idx), bindir, False)
    t2 = time.time()
    dc, ds = read_dir(wc_), read_dir(ws_)
    diffs = []
    for p in sorted(set(dc) | set(ds)):
        if p not in dc or p not in ds:
            diffs.append({"file": p, "why": "only in the %s directory" % ("sequential" if p in ds else "concurrent")})
        elif masked(dc[p]) != masked(ds[p]):
            why = "contents differ (%d vs %d bytes)" % (len(dc[p]), len(ds[p]))
            if p.endswith(".save") or p.endswith(".sav") or dc[p][:1] == b"\x80":
                try:
                    if canonical_save(os.path.join(wc_, p)) == canonical_save(os.path.join(ws_, p)):
                        why = None  # same object, different pickle bytes: not interference
                except Exception as e:  # a torn pickle does not load
                    why += "; unpickling failed: %r" % (e,)
            if why:
                diffs.append({"file": p, "why": why})
    new_files = sorted(set(dc) - set(sysd["files"]))
    for d in (wc_, ws_, os.path.join(root, "ctl_c_%d" % idx), os.path.join(root, "ctl_s_%d" % idx)):
        shutil.rmtree(d, ignore_errors=True)
    return {"idx": idx, "sys": sysd["name"], "cmds": cmds, "rc_c": rc_c, "rc_s": rc_s, "err_c": err_c, "err_s": err_s,
            "diffs": diffs, "new_files": new_files, "t_conc": t1 - t0, "t_seq": t2 - t1}


def schedule_input(sysd, cmds):
    return {"system": sysd["name"], "main": sysd["main"],
            "schedule": [{"tool": c["tool"], "argv": c["argv"], "delay_s": c.get("delay", 0)} for c in cmds]}


def judge_schedule(res, sysd, r):
    cmds = r["cmds"]
    res.evaluations += 1
    inp = schedule_input(sysd, cmds)
    kinds = sorted({c["tool"] for c in cmds})
    res.count("N=%d" % len(cmds))
    res.count("mix:" + "+".join(kinds))
    res.count("system:" + sysd["name"])
    if len(kinds) >= 2:
        res.nontriv(inp)
    how = ("in a copy of the examples directory of %s (compiled once, .mfe present): start all commands of `schedule` at "
           "once (each `/venv/bin/python -c 'from <module> import main; main()' ARGV` with its delay), then run them one "
           "after another in a second copy, and diff the two directories; or: harness/check.py C20 --replay <this file>"
           % sysd["main"])
    if any(rc != 0 for rc in r["rc_s"]):
        # every command of a schedule reads only files of the prepared directory and names its own outputs, so each succeeds when
        # run alone there (the footprint cases run them alone); failing AFTER the others means an earlier run removed or changed
        # something that is not its own
        bad = [k for k, rc in enumerate(r["rc_s"]) if rc != 0]
        res.violations.append({"what": "a command fails when it is run after the other commands of the schedule (one after another): "
                                       "an earlier run removed or changed a file that is not one of its own outputs",
                               "input": inp, "observed": {"failing": [cmdline(cmds[k]) for k in bad], "stderr": [r["err_s"][k][-300:] for k in bad][:3]},
                               "sig": "C20:sequential-interference", "cmd": how})
        return
    if r["rc_c"] != r["rc_s"]:
        res.violations.append({"what": "a process failed when run concurrently but not when run alone", "input": inp,
                               "observed": {"exit_codes": r["rc_c"], "stderr": [e for e in r["err_c"] if "Error" in e or "rror" in e][:3]},
                               "expected": r["rc_s"], "sig": "C20:interference", "cmd": how})
    if r["diffs"]:
        res.violations.append({"what": "files produced by concurrent runs differ from the files produced by the same runs "
                                       "one after another", "input": inp, "observed": r["diffs"][:10],
                               "sig": "C20:interference", "cmd": how})
    allowed = set()
    for c in cmds:
        allowed |= spec_footprint(c, set(sysd["files"]))["writes"]
    extra = sorted(set(r["new_files"]) - allowed)
    if extra:
        res.violations.append({"what": "concurrent runs left files outside all announced output/save/scratch names",
                               "input": inp, "observed": extra, "expected": sorted(allowed), "sig": "C20:footprint", "cmd": how})
    if len(res.samples) < 3 and len(kinds) == 3:
        res.sample(inp)


def pair_requests(sysd, cmds):
    ex = set(sysd["files"])
    out = []
    for i in range(len(cmds)):
        for j in range(i + 1, len(cmds)):
            out.append((cmds[i], cmds[j], {"op": "footprint-pair", "a": model_req(cmds[i], ex), "b": model_req(cmds[j], ex)}))
    return out


def py_indep(a, b, existing):
    """set-disjointness of the independently computed footprints (reads of a compile: its source files)"""
    fa, fb = spec_footprint(a, existing), spec_footprint(b, existing)

    def reads(c, f):
        if f["reads"] is not None:
            r_ = set(f["reads"])
            if c["tool"] == "design":
                r_ |= {c["arg0"], c["arg0"] + ".pil"} if c["arg0"] not in existing else {c["arg0"]}
            return r_
        r_ = {x for x in existing if x.endswith(".sys") or x.endswith(".comp")}
        if c["opts"].get("fixed"):
            r_.add(c["opts"]["fixed"])
        return r_
    return not (fa["writes"] & fb["writes"]) and not (reads(a, fa) & fb["writes"]) and not (reads(b, fb) & fa["writes"])


def colliding_pairs(rng, sysd, count):
    """deliberate collisions for the correspondence of `footprint-pair` (never executed)"""
    b = sysd["b"]
    out = []
    for i in range(count):
        kind = i % 6
        if kind == 0:    # same temp name, spelled via default and via -t
            a, c = mk_cmd("design", b), mk_cmd("design", b + ".pil", tempname=b)
        elif kind == 1:  # output literally named like the other's scratch file
            t = "t%d" % i
            a, c = mk_cmd("compile", b, output=t + rng.choice(TEMP_EXTS), save="s.save"), mk_cmd("design", b, tempname=t)
        elif kind == 2:  # default compile output is the design input
            a, c = mk_cmd("compile", sysd["main"]), mk_cmd("design", b, tempname="tt")
        elif kind == 3:  # seqs of one = strands of the other
            a, c = mk_cmd("finish", b, seqs="x", strands="y"), mk_cmd("finish", b, seqs="y")
        elif kind == 4:  # compile --save onto the finish input
            a, c = mk_cmd("compile", b, output="o.pil"), mk_cmd("finish", b, seqs="q")
        else:            # distinct but harmless: t.st vs t
            a, c = mk_cmd("design", b, tempname="t.st"), mk_cmd("design", b, tempname="t")
        out.append((a, c))
    return out


# ----------------------------------------------------------------------------------------------
# run
# ----------------------------------------------------------------------------------------------

def run(st, tier, seed):
    res = Result("C20")
    res.rule = ("(i) per system ~15 command lines per tool variant (defaults, explicit names, option spellings, --des, --struct, "
                "--fixed, extension-less input, missing input) each traced with strace -f + directory snapshots; (ii) schedules "
                "of N=2..8 concurrent processes with pairwise distinct generated names (incl. names that are prefixes of / "
                "end like scratch names), random start delays after a post-import barrier, vs the same commands sequentially; "
                "non-trivial = successful traced run / schedule with at least two different tools; distinct by command lines")
    rng = core.rng_for(seed, "c20")
    quick = (tier == "quick")
    n_sched = 30 if quick else 300
    n_examples = 3 if quick else len(EXAMPLE_SYSTEMS)
    n_generated = 1 if quick else 4
    ncpu = os.cpu_count() or 2
    t_start = time.time()
    with core.scratch("pepper_c20_") as root:
        bindir = os.path.join(root, "bin")
        os.makedirs(bindir)
        for tool, mod in MODULES.items():
            with open(os.path.join(bindir, SCRIPT[tool]), "w") as f:
                f.write((LAUNCHER_DESIGN if tool == "design" else LAUNCHER) % mod)
        with open(os.path.join(bindir, "mkmfe.py"), "w") as f:
            f.write(MKMFE)
        os.makedirs(os.path.join(bindir, "nupack", "bin"))
        with open(os.path.join(bindir, "nupack", "bin", "mfe"), "w") as f:
            f.write(MFE_STUB)
        os.chmod(os.path.join(bindir, "nupack", "bin", "mfe"), 0o755)
        os.makedirs(os.path.join(root, "tmpdir"))
        NUPACK_HOME[0], NUPACK_HOME[1] = os.path.join(bindir, "nupack"), os.path.join(root, "tmpdir")
        systems = []
        for d, main in EXAMPLE_SYSTEMS[:n_examples]:
            systems.append(prepare_base(root, bindir, re.sub(r"\W", "_", (d or "examples") + "_" + main),
                                        os.path.join(core.REPO, "examples", d), main))
        for g in range(n_generated):
            files, main = gen_system_files(rng, g)
            systems.append(prepare_base(root, bindir, "generated_%d" % g, files, main))
        res.extra["systems"] = [s["name"] for s in systems]

        # ---- (i) footprints
        jobs = []
        for s in systems:
            for idx, (expect, cmd) in enumerate(footprint_cases(rng, s)):
                jobs.append((s, idx, expect, cmd))
        with concurrent.futures.ThreadPoolExecutor(max_workers=max(2, min(8, ncpu // 2))) as ex:
            futs = [ex.submit(run_footprint_case, root, bindir, s, idx, expect, cmd) for (s, idx, expect, cmd) in jobs]
            fp_results = [f.result() for f in futs]
        reqs = [dict(model_req(cmd, set(s["files"])), op="footprint") for (s, idx, expect, cmd) in jobs]
        models = core.Driver().call_many(reqs) if st.driver_ok else [None] * len(reqs)
        res.programs += len(reqs)
        for (s, idx, expect, cmd), r, m in zip(jobs, fp_results, models):
            judge_footprint(res, s, r, m)
        res.extra["footprint_cases"] = len(jobs)
        res.extra["footprint_wall_s"] = round(time.time() - t_start, 1)
        if len(res.samples) < 2:
            res.sample({"footprint-case": cmdline(jobs[1][3]), "observed_writes": sorted(fp_results[1]["obs"]["writes"]),
                        "observed_reads": sorted(fp_results[1]["obs"]["reads"])[:6]})

        # ---- (ii) schedules
        t_sched = time.time()
        scheds = []
        for i in range(n_sched):
            s = systems[i % len(systems)]
            n = 2 + (i * 7 + rng.randint(0, 6)) % 7     # 2..8
            scheds.append((s, i, gen_schedule(rng, s, n)))
        # directed: a design reads the extension-less specification X (it exists) while a sibling compile, started earlier,
        # writes X.pil (another name; .des contents): the design must still read X, whatever the order
        for j, s in enumerate(systems[:1 if quick else len(systems)]):
            x = "Raw" + s["b"]
            c1 = mk_cmd("design", x, None, struct=False, tempname="tX%d" % j); c1["delay"] = 1.5
            c2 = mk_cmd("compile", s["main"], None, des=True, output=x + ".pil", save="sX%d.save" % j); c2["delay"] = 0.0
            c3 = mk_cmd("finish", s["b"], None, seqs="qX%d.seqs" % j); c3["delay"] = 0.0
            scheds.append((s, 10000 + j, [c1, c2, c3]))
            res.count("directed:sibling-output-named-like-input-plus-extension")
        workers = max(1, min(6, ncpu // 3))
        with concurrent.futures.ThreadPoolExecutor(max_workers=workers) as ex:
            futs = [ex.submit(run_schedule, root, bindir, s, i, cmds) for (s, i, cmds) in scheds]
            sched_results = [f.result() for f in futs]
        for (s, i, cmds), r in zip(scheds, sched_results):
            judge_schedule(res, s, r)
        res.extra["schedules"] = len(scheds)
        res.extra["processes_started_concurrently"] = sum(len(c) for _, _, c in scheds)
        res.extra["schedules_wall_s"] = round(time.time() - t_sched, 1)
        res.extra["mean_concurrent_s"] = round(sum(r["t_conc"] for r in sched_results) / max(1, len(scheds)), 3)
        res.extra["mean_sequential_s"] = round(sum(r["t_seq"] for r in sched_results) / max(1, len(scheds)), 3)

        # ---- correspondence of the hypotheses: every pair of every schedule, plus deliberate collisions
        if st.driver_ok:
            pairs = []
            for (s, i, cmds) in scheds:
                for a, b, rq in pair_requests(s, cmds):
                    pairs.append((s, a, b, rq, True))
            for s in systems:
                ex_ = set(s["files"])
                for a, b in colliding_pairs(rng, s, 12 if quick else 60):
                    pairs.append((s, a, b, {"op": "footprint-pair", "a": model_req(a, ex_), "b": model_req(b, ex_)}, False))
            got = core.Driver().call_many([p[3] for p in pairs])
            res.programs += len(pairs)
            for (s, a, b, rq, generated), g in zip(pairs, got):
                res.disagreements_checked += 1
                inp = {"a": cmdline(a), "b": cmdline(b), "system": s["name"]}
                if "ok" not in g:
                    res.corr_breaks.append({"name": "Fs.footprint-pair", "input": inp, "model": g, "impl": "-"})
                    continue
                g = g["ok"]
                pi = py_indep(a, b, set(s["files"]))
                res.count("pair:indep" if pi else "pair:colliding")
                if g["indep"] != pi:
                    res.corr_breaks.append({"name": "Fs.footprints-independent", "input": inp, "model": g, "impl": pi})
                if g["distinct"] and g["side"] and not g["indep"]:
                    res.corr_breaks.append({"name": "Fs.footprints_disjoint-instance", "input": inp, "model": g, "impl": pi})
                if generated and not (g["distinct"] and g["side"]):
                    res.corr_breaks.append({"name": "Fs.namesDistinct/sideCond", "input": inp, "model": g,
                                            "impl": "generator claims pairwise distinct names without cross-collision"})
                if len(res.corr_breaks) > 8:
                    break
    res.assumptions.append("the traced syscall families (open*/creat/unlink*/rename*/mkdir*/rmdir/link*/symlink*/truncate/chmod/"
                           "mknod + stat family) are the ways a process can alter or observe the directory; strace -f follows children")
    res.notes.append("design runs are exercised with --just-files and as full runs (designer binary built from the working tree, started by the real "
                     "design(); findmfe=False because NUPACK is absent), with cleanup and with --keep-temp, beside scratch files of other runs whose "
                     "temp names extend theirs; the .mfe input of finish is "
                     "built in-process from the constraints (Convert.get_constraints -> process_results -> output(findmfe=False))")
    return res


def replay(path):
    with open(path) as f:
        body = json.load(f)
    print(json.dumps(body, indent=1))
    inp = body.get("input") or {}
    if "schedule" not in inp:
        return 0
    # re-run the schedule a few times
    with core.scratch("pepper_c20r_") as root:
        bindir = os.path.join(root, "bin")
        os.makedirs(bindir)
        for tool, mod in MODULES.items():
            with open(os.path.join(bindir, SCRIPT[tool]), "w") as f:
                f.write((LAUNCHER_DESIGN if tool == "design" else LAUNCHER) % mod)
        with open(os.path.join(bindir, "mkmfe.py"), "w") as f:
            f.write(MKMFE)
        main = inp["main"]
        src = None
        for d, m in EXAMPLE_SYSTEMS:
            if m == main:
                src = os.path.join(core.REPO, "examples", d)
        if src is None:
            print("generated system: re-run the check with the same VERIF_SEED to regenerate it")
            return 0
        sysd = prepare_base(root, bindir, "replay", src, main)
        cmds = [{"tool": c["tool"], "argv": c["argv"], "delay": c.get("delay_s", 0)} for c in inp["schedule"]]
        bad = 0
        for k in range(5):
            r = run_schedule(root, bindir, sysd, k, cmds)
            print("attempt %d: exit codes %r, differing files: %s" % (k, r["rc_c"], json.dumps(r["diffs"][:5])))
            bad += bool(r["diffs"]) or r["rc_c"] != r["rc_s"]
        print("REPRODUCED" if bad else "not reproduced in 5 attempts (timing dependent)")
        return 1 if bad else 0
