"""C16 — saved compiler state reloads to the same system and matches its .pil.

Three-way comparison per generated program: canonical snapshot (harness/snapshot.py: names, lengths, constraint
strings, item / base-sequence lists, complement links and object sharing checked by identity) of
 (1) the in-memory system right after the compile, (2) the system reloaded from the .save in a FRESH subprocess,
 (3) the model's state (`snapshot` op);
the names and lengths in the snapshot vs the .pil written by the same compile; finishing from the reloaded
file (subprocess) vs applying the design to the in-memory system.  Histories: 0-5 earlier compiles in the
saving process (they advance the global anonymous counter); in 40 % of the runs one of them left an out.pil / out.save of
ANOTHER program at the same output names (recompile over existing files)."""
import json
import os
import pickle
import subprocess
import sys

import core
from core import Result, quiet
import progen
import impl
import pipeline
import pilio
import snapshot as snapmod

LEVEL = "proof"
LEVEL_NOTE = ("PARTIAL: that pickle.load(pickle.dump(x)) reproduces the object graph in another process is Python-runtime behaviour no Lean "
              "model expresses; it is validated by the three-way snapshot comparison, not proved")


def replay(path):
    with open(path) as f:
        print(json.dumps(json.load(f), indent=1))
    return 0


def sub(args, cwd):
    env = dict(os.environ, PYTHONPATH=core.REPO + os.pathsep + core.HERE, PYTHONDONTWRITEBYTECODE="1", PEPPER_REPO=core.REPO)
    return subprocess.run([sys.executable] + args, cwd=cwd, env=env, capture_output=True, text=True, timeout=300)


def pil_names(text):
    out = {"seq": [], "sup": [], "strand": [], "struct": []}
    for s in pilio.read_pil(text):
        if s["k"] == "seq":
            out["seq"].append([s["name"], len(s["tmpl"]), s["tmpl"]])
        elif s["k"] in ("sup", "strand", "struct"):
            out[s["k"]].append(s["name"])
    return out


def snap_names(tree, signals_too=True):
    out = {"seq": [], "sup": [], "strand": [], "struct": []}
    def walk(t):
        if t["kind"] == "comp":
            c = t["comp"]
            out["seq"] += [[c["pfx"] + e["name"], e["len"], e["const"]] for e in c["seqs"] if not e["sup"] and e["len"] > 0]
            out["sup"] += [c["pfx"] + e["name"] for e in c["seqs"] if e["sup"] and e["len"] > 0]
            out["strand"] += [c["pfx"] + e["name"] for e in c["strands"]]
            out["struct"] += [c["pfx"] + e["name"] for e in c["structs"]]
        else:
            for _, s in t["components"]:
                walk(s)
            lens = dict(map(tuple, t["lengths"]))
            for n, _ in t["signals"]:
                out["seq"].append([t["pfx"] + n, lens[n], "N" * lens[n]])
    walk(tree)
    return out


def run(st, tier, seed):
    from peppercompiler import compiler as pc
    from peppercompiler import finish as pf
    from peppercompiler.kinetics import read_design
    res = Result("C16")
    res.rule = ("accepted programs (components, systems to depth 3) x 0-5 earlier compiles in the saving process; save in this process, "
                "load + snapshot + finish in a fresh subprocess; non-trivial = a system or a component with a super-sequence; distinct by source")
    rng = core.rng_for(seed, "c16")
    n = 25 if tier == "quick" else 1000
    drv = core.Driver() if st.driver_ok else None
    reqs, meta = [], []
    for i in range(n):
        for _ in range(rng.randint(0, 5) if rng.random() < 0.6 else 0):   # history of earlier compiles
            impl.compile_bundle(progen.gen_component_bundle(rng, size=3), "pil")
            res.count("earlier-compile")
        b = progen.gen_component_bundle(rng, size=rng.choice([3, 6, 10]), satisfiable=True) if rng.random() < 0.5 else \
            progen.gen_system_bundle(rng, depth=rng.randint(1, 3), size=4, n_templates=2, satisfiable=True)
        if b is None:
            continue
        inp = {"files": b.texts, "entry": b.entry, "includes": b.includes}
        # half of the compiles use a --fixed file that narrows some constraints (the saved state must carry them)
        fixed_text = None
        if rng.random() < 0.5:
            r0 = impl.compile_bundle(b, "pil")
            if r0["ok"]:
                st0 = pilio.read_pil(r0["text"])
                signal_names = {s_["items"][0] for s_ in st0 if s_["k"] == "equal" and s_["items"]}   # connectors are not saved objects
                cands = [s_ for s_ in st0 if s_["k"] == "seq" and "_Anon" not in s_["name"] and s_["tmpl"] and s_["name"] not in signal_names]
                rng.shuffle(cands)
                lines_ = []
                for s_ in cands[:rng.randint(1, 3)]:
                    lines_.append("sequence %s = %s" % (s_["name"], "".join(rng.choice(pipeline.GROUP[c_]) for c_ in s_["tmpl"])))
                fixed_text = "\n".join(lines_) + "\n"
                res.count("with-fixed-file")
        with core.scratch("pepper_c16_") as d:
            if rng.random() < 0.4:
                # one of the earlier compiles of the saving process wrote ANOTHER program's state to the same output names
                # (a recompile into an existing out.pil / out.save): the files must afterwards hold this compile's state only
                other = progen.gen_component_bundle(rng, size=rng.choice([2, 5]))
                impl.compile_bundle(other, "pil", root=os.path.join(d, "earlier"), keep=lambda dd: [
                    __import__("shutil").copy(os.path.join(dd, "out." + e), os.path.join(d, "out." + e)) for e in ("pil", "save")])
                __import__("shutil").rmtree(os.path.join(d, "earlier"), ignore_errors=True)
                if os.path.exists(os.path.join(d, "out.save")):
                    res.count("recompile-over-existing-save")
            try:
                out = pipeline.run_pipeline(b, rng, d, fixed_text=fixed_text)
            except pipeline.Stage as e:
                if e.stage == "finish":
                    res.violations.append({"what": "finishing from the reloaded .save fails on a valid design of the same compile: %r" % (e.exc,),
                                           "input": inp, "sig": "C16:finish-from-save-fails", "cmd": "pepper-compiler; pepper-design-spurious; pepper-finish"})
                res.count("skipped:" + e.stage); continue
            res.evaluations += 1
            if any(k.endswith(".sys") for k in b.texts) or "sup-sequence" in out["pil"]:
                res.nontriv(b.texts)
            # (1) in memory: recompile in this process keeping the object (same anonymous numbers are not needed: names are compared after the fact)
            cwd = os.getcwd(); os.chdir(d)
            try:
                from peppercompiler import DNA_classes
                DNA_classes.AnonymousSequence.num = out["anon_before"]
                from peppercompiler.system_class import load_file
                with quiet():
                    mem = load_file(b.entry, [], prefix="", includes=list(b.includes) if b.includes else None)
                    if fixed_text is not None:
                        for type_, name_, fseq in pc.load_fixed("fixed.fix"):
                            mem.seqs[name_].fix_seq(fseq)
                s_mem = snapmod.snap(mem)
                with quiet():
                    pf.apply_design(mem, read_design("out.mfe"))
                mem_lines = ["# Sequences"] + ["sequence %s = %s" % (k, v.seq) for k, v in mem.seqs.items()] + \
                            ["# Strands"] + ["strand %s = %s" % (k, v.seq) for k, v in mem.strands.items()] + \
                            ["# Structures"] + ["structure %s = %s" % (k, v.seq) for k, v in mem.structs.items()]
            finally:
                os.chdir(cwd)
            # (2) reloaded in a fresh process
            r = sub([os.path.join(core.HERE, "snapshot.py"), "out.save"], d)
            if r.returncode != 0:
                res.violations.append({"what": "the .save file cannot be reloaded in a fresh process", "input": inp, "observed": r.stderr[-500:],
                                       "sig": "C16:reload", "cmd": "python -c 'from peppercompiler.compiler import load; load(\"out.save\")'"})
                continue
            s_re = json.loads(r.stdout)
            cmd = "pepper-compiler %s; reload out.save in a new process" % b.entry
            if s_re["problems"] or s_mem["problems"]:
                res.violations.append({"what": "sharing / complement links broken: %s" % (s_re["problems"] + s_mem["problems"])[:3], "input": inp,
                                       "sig": "C16:sharing", "cmd": cmd})
            if s_re["tree"] != s_mem["tree"]:
                res.violations.append({"what": "reloaded state differs from the in-memory state", "input": inp, "sig": "C16:reload-differs", "cmd": cmd})
            if s_re.get("wiring") != json.loads(json.dumps(s_mem.get("wiring"))):
                wd = [(x, y) for x, y in zip(s_mem.get("wiring") or [], s_re.get("wiring") or []) if json.loads(json.dumps(x)) != y][:3]
                res.violations.append({"what": "the structures of the reloaded state are wired differently from the in-memory ones (stand-in structures "
                                               "of declared inputs / port structures, read by kinetic finishing)", "input": inp, "observed": wd,
                                       "sig": "C16:reload-wiring", "cmd": cmd})
            if any(isinstance(w_[1], list) and w_[1] and not w_[0].endswith("<ports>") for w_ in (s_mem.get("wiring") or [])):
                res.count("structure-with-stand-ins")
            pn, sn = pil_names(out["pil"]), snap_names(s_re["tree"])
            if pn != sn:
                diff = [(k, [x for x in pn[k] if x not in sn[k]][:3], [x for x in sn[k] if x not in pn[k]][:3]) for k in pn if pn[k] != sn[k]]
                res.violations.append({"what": "names / lengths of the saved state differ from the .pil of the same compile", "input": inp,
                                       "observed": diff, "sig": "C16:names", "cmd": cmd})
            # finishing from the reloaded state (done by run_pipeline in this process from the file) vs from memory vs a fresh process
            r2 = sub(["-c", "from peppercompiler.finish import main; main()", "out", "--seqs", "sub.seqs"], d)
            sub_seqs = open(os.path.join(d, "sub.seqs")).read() if r2.returncode == 0 else None
            if sub_seqs != out["seqs"] or [l for l in out["seqs"].split("\n") if l] != mem_lines:
                res.violations.append({"what": "finishing from the reloaded .save differs from finishing from memory", "input": inp,
                                       "observed": {"subprocess_ok": r2.returncode == 0}, "sig": "C16:finish-differs", "cmd": "pepper-finish out"})
            if drv is not None:
                fx = [] if fixed_text is None else [{"kind": "sequence", "name": l_.split()[1], "seq": l_.split()[3]} for l_ in fixed_text.strip().split("\n")]
                rq = progen.compile_request(b, "pil", anon=out["anon_before"], fixed=fx); rq["op"] = "snapshot"
                reqs.append(rq); meta.append((inp, s_re["tree"]))
            if len(res.samples) < 1:
                res.sample({"source": b.texts, "snapshot_head": json.dumps(s_re["tree"])[:400]})
    # directed: a user sequence with a name of the reserved form _Anon<k> that meets the process's anonymous counter, at the
    # super-sequence site and at the strand site (defect F16).  The compiler must reject it, or what it saves must match its .pil
    for k in range(4 if tier == "quick" else 40):
        site = "sup" if k % 2 == 0 else "strand"
        nme = "_Anon%d" % (impl.anon_counter() + (0 if rng.random() < 0.7 else 1))
        L = rng.randint(1, 5)
        text = ('declare component T: ->\nsequence a = "4N"\nsequence %s = "%dN"\n' % (nme, L)) + \
               ('sequence S = "3N" a\nstrand X = S %s\nstructure M = X : %d.\n' % (nme, 7 + L) if site == "sup" else
                'sequence S = a a\nstrand X = "3N" S %s\nstructure M = X : %d.\n' % (nme, 11 + L))
        fb = progen.Bundle(); fb.texts["t.comp"] = text; fb.entry = "t"
        res.count("directed:reserved-name-at-" + site)
        with core.scratch("pepper_c16r_") as d:
            try:
                out = pipeline.run_pipeline(fb, rng, d)
            except pipeline.Stage as e:
                if e.stage != "compile":
                    res.violations.append({"what": "a program with a user sequence named %s is accepted, but stage '%s' fails on the state saved by that compile: %r" % (nme, e.stage, e.exc),
                                           "input": {"files": fb.texts, "entry": "t", "anon_counter": nme}, "sig": "C16:reserved-name:" + e.stage,
                                           "cmd": "pepper-compiler t; pepper-design-spurious; pepper-finish"})
                continue
            res.evaluations += 1
            r = sub([os.path.join(core.HERE, "snapshot.py"), "out.save"], d)
            if r.returncode == 0:
                s_re = json.loads(r.stdout)
                pn, sn = pil_names(out["pil"]), snap_names(s_re["tree"])
                if s_re["problems"] or pn != sn:
                    res.violations.append({"what": "reserved-name program accepted and its saved state differs from its .pil: %s" % (s_re["problems"] or "names/lengths")[:200],
                                           "input": {"files": fb.texts, "entry": "t"}, "sig": "C16:reserved-name:names", "cmd": "pepper-compiler t"})
    res.programs = res.evaluations
    if drv is not None and reqs:
        got = drv.call_many(reqs)
        for (inp, tree), g in zip(meta, got):
            res.disagreements_checked += 1
            if g.get("ok") != tree:
                res.corr_breaks.append({"name": "Snapshot", "input": inp, "model": json.dumps(g)[:600], "impl": json.dumps(tree)[:600]})
                if len(res.corr_breaks) > 3:
                    break
    return res
