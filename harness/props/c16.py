"""C16 — saved compiler state reloads to the same system and matches its .pil.

Three-way comparison per generated program: canonical snapshot (harness/snapshot.py: names, lengths, constraint
strings, item / base-sequence lists, complement links and object sharing checked by identity) of
 (1) the in-memory system right after the compile, (2) the system reloaded from the .save in a FRESH subprocess,
 (3) the model's state (`snapshot` op);
the names and lengths in the snapshot vs the .pil written by the same compile; finishing from the reloaded
file (subprocess) vs applying the design to the in-memory system.  Histories: 0-5 earlier compiles in the
saving process (they advance the global anonymous counter); in 40 % of the runs one of them left an out.pil / out.save of
ANOTHER program at the same output names (recompile over existing files).

Section `[pickle model]` (class PickleTie below): the same programs' REAL out.save bytes run through the Lean unpickler, the in-memory and
the reloaded object graphs walked by id() (harness/pickleio.py) and canonised by the Lean `canon`, the Lean pickler compared with the real
opcode list, plus directed Python objects for the opcodes and batch boundaries .save files do not reach."""
import json
import os
import pickle
import subprocess
import sys
import time

import core
from core import Result, quiet
import progen
import impl
import pipeline
import pilio
import snapshot as snapmod
import pickleio

LEVEL = "proof"
LEVEL_NOTE = ("PARTIAL: pickle is modelled in Lean (PepperModel/Pickle.lean: unpickler VM, abstract pickler, canonical form of a rooted heap, "
              "snapshotOfHeap) and tied to CPython on every run: real .save bytes through the Lean VM, in-memory graph and the graph reloaded in a fresh "
              "process walked by id() and canonised by the Lean `canon`, Lean `dump` = real opcode list, snapshotOfHeap(decoded real bytes) = the model's "
              "snapshot of the compile. PROVED (PepperProps/C16Pickle.lean): equal canonical forms <=> isomorphic graphs incl. sharing and cycles; "
              "unpickler frame/identity/freshness lemmas; the round trip canon(run(dump h r)) = canon h r for every `Supported` heap (atoms, str, bytes, "
              "tuples, lists, string-keyed dicts, classes, instances with dict items / state + BUILD; arbitrary sharing and cycles incl. cycles through "
              "instances) - the hypothesis is decidable and evaluated on every real in-memory heap of every run (all satisfy it). NOT PROVED: the round "
              "trip outside `Supported` (sets, >1000-item batches, non-string keys, instances with list items / constructor args; unconditionally it is "
              "false); snapshotOfHeap(run bytes) = model snapshot (compared per run). NOT MODELLED: the C `_pickle` itself (only compared per run), "
              "find_class / import in the fresh process, what cls.__new__ / reduce callables return, sys.intern of attribute names, __setstate__ (none "
              "occurs; reported if one appears), BINFLOAT payload (opaque 8 bytes). String identity is part of the compared graphs (the pickler preserves "
              "it) EXCEPT for strings of <= 1 character: the real unpickler returns the interpreter's singletons while a live graph may hold other "
              "objects with the same text (''.join in fix_seq), so graphs are compared modulo the identity of such strings "
              "(pickleio.modulo_short_strings; counted in the evidence)")


def replay(path):
    with open(path) as f:
        print(json.dumps(json.load(f), indent=1))
    return 0


def sub(args, cwd):
    env = dict(os.environ, PYTHONPATH=core.REPO + os.pathsep + core.HERE, PYTHONDONTWRITEBYTECODE="1", PEPPER_REPO=core.REPO)
    return subprocess.run([sys.executable] + args, cwd=cwd, env=env, capture_output=True, text=True, timeout=300)


def pil_names(text):
    out = {"seq": [], "sup": [], "strand": [], "struct": []}
    for s in pilio.read_pil(text):
        if s["k"] == "seq":
            out["seq"].append([s["name"], len(s["tmpl"]), s["tmpl"]])
        elif s["k"] in ("sup", "strand", "struct"):
            out[s["k"]].append(s["name"])
    return out


def snap_names(tree, signals_too=True):
    out = {"seq": [], "sup": [], "strand": [], "struct": []}
    def walk(t):
        if t["kind"] == "comp":
            c = t["comp"]
            out["seq"] += [[c["pfx"] + e["name"], e["len"], e["const"]] for e in c["seqs"] if not e["sup"] and e["len"] > 0]
            out["sup"] += [c["pfx"] + e["name"] for e in c["seqs"] if e["sup"] and e["len"] > 0]
            out["strand"] += [c["pfx"] + e["name"] for e in c["strands"]]
            out["struct"] += [c["pfx"] + e["name"] for e in c["structs"]]
        else:
            for _, s in t["components"]:
                walk(s)
            lens = dict(map(tuple, t["lengths"]))
            for n, _ in t["signals"]:
                out["seq"].append([t["pfx"] + n, lens[n], "N" * lens[n]])
    walk(tree)
    return out


# ======================================================================================================================
# [pickle model]  pickle INSIDE the model (lean/PepperModel/Pickle.lean, theorems PepperProps/C16Pickle.lean)
# ----------------------------------------------------------------------------------------------------------------------
# Per compiled program, on the REAL bytes of out.save and two REAL object graphs:
#   LOAD  canon(Lean VM run on the opcodes of the real bytes)  =  canon(walk of the in-memory system)
#                                                              =  canon(walk of pickle.load(out.save) in a FRESH process)
#         all three canonical forms are computed by the Lean `canon` (driver ops pickle-run / pickle-canon); the walks are
#         id()-based (harness/pickleio.py) and see instances exactly as the pickler does (`__reduce_ex__(4)`).
#         in-memory ≠ reloaded            → C16 VIOLATION (the property itself: same graph incl. sharing, complement links)
#         Lean VM ≠ reloaded (only)       → correspondence break `PickleVM` (the model is wrong)
#   DUMP  Lean `dump`(walk of the in-memory system) = the real opcode list, modulo PROTO / FRAME and short / long spellings
#         (→ correspondence break `PickleDump`): pins the abstract pickler of theorem `roundtrip` to CPython's.
#   T2    `pickle-roundtrip` on the in-memory heap: canon(run(dump h r)) = canon h r evaluated (→ `PickleRoundtrip`).
# Plus directed Python objects (pickleio-independent of the compiler) that reach the opcodes and batch boundaries real
# .save files do not: sets, frozensets, recursive tuples, bytes, big / negative ints, floats, lists of 1 / 1000 / 1001 / 2001
# elements, dicts of 1 / 1000 / 1001 pairs, reduce values with list items, shared and cyclic containers.
# ======================================================================================================================

class PickleTie:
    FLUSH = 12

    def __init__(self, res, drv):
        self.res, self.drv = res, drv
        self.pending = []
        self.attr_pending = []
        self.census = {}
        self.tot = {"programs": 0, "ops": 0, "bytes": 0, "heap_cells": 0, "reachable_cells": 0, "instances": 0, "strings": 0,
                    "shared_refs": 0, "shared_strings": 0, "cyclic_components": 0, "cells_on_cycles": 0, "vm_cells_allocated": 0,
                    "heaps_satisfying_the_hypothesis_of_theorem_roundtrip": 0}
        self.census_directed = {}
        self.decoded_snapshots = {}      # program -> C16 snapshot read by Lean off the heap decoded from the REAL .save bytes
        self.seconds = 0.0
        self.classes = {}
        self.setstate = set()
        self.key_kinds = {}

    def walk_memory(self, system, view="pickler"):
        t0 = time.time()
        try:
            return pickleio.walk(system, view)
        except pickleio.Unmodelled as e:
            self.res.count("pickle:unmodelled-memory:" + str(e)[:60])
            return None
        finally:
            self.seconds += time.time() - t0

    def add(self, inp, data, mem, reloaded, mem_attrs=None):
        if self.drv is None or mem is None:
            return
        if mem_attrs is not None or "attrs" in reloaded:
            # some pickled class defines its own __reduce__ / __reduce_ex__ / __getstate__: what the pickler is shown is then not
            # the attribute graph.  The property speaks about the attribute graph: compare that (both sides walked by attributes)
            self.res.count("pickle:custom-reduce-program")
            ra = reloaded.get("attrs") or reloaded          # no such class met on a side: its two views coincide
            ma = mem_attrs or mem
            attrs = ((ma[0], ma[1]), (ra["heap"], ra["root"]))
        else:
            attrs = None
        try:
            ops = pickleio.ops_of(data, self.census)
        except pickleio.Unmodelled as e:
            self.res.corr_breaks.append({"name": "PickleOps", "input": inp, "model": "no constructor", "impl": str(e)})
            return
        self.pending.append((inp, len(data), ops, mem, (reloaded["heap"], reloaded["root"], reloaded["info"]), attrs))
        if len(self.pending) >= self.FLUSH:
            self.flush()

    def flush(self):
        pend, self.pending = self.pending, []
        if not pend:
            return
        t0 = time.time()
        try:
            self._flush(pend)
        finally:
            self.seconds += time.time() - t0

    def _flush(self, pend):
        reqs = []
        areqs = []
        for inp, nbytes, ops, (hm, rm, im), (hr, rr, ir), attrs in pend:
            if attrs is not None:
                areqs += [{"op": "pickle-canon", "heap": attrs[0][0], "root": attrs[0][1]}, {"op": "pickle-canon", "heap": attrs[1][0], "root": attrs[1][1]}]
            reqs += [{"op": "pickle-run", "ops": ops, "setstate": ir["setstate"]},
                     {"op": "pickle-canon", "heap": hm, "root": rm},
                     {"op": "pickle-canon", "heap": hr, "root": rr},
                     {"op": "pickle-dump", "heap": hm, "root": rm},
                     {"op": "pickle-roundtrip", "heap": hm, "root": rm},
                     {"op": "pickle-supported", "heap": hm, "root": rm},
                     {"op": "pickle-snapshot", "ops": ops}]
        got = self.drv.call_many(reqs)
        agot = self.drv.call_many(areqs)
        res = self.res
        for k, (inp, nbytes, ops, (hm, rm, im), (hr, rr, ir), attrs) in enumerate(pend):
            vm, cm, cr, dm, rt, sp, sn = got[7 * k: 7 * k + 7]
            self.decoded_snapshots[json.dumps(inp, sort_keys=True)] = fmt_opt(sn.get("ok")) if "ok" in sn else {"err": sn.get("err")}
            res.disagreements_checked += 4
            # is this real heap inside the hypothesis `Supported` of theorem `roundtrip` (then its round trip is proved)?
            if sp.get("ok") is True:
                self.tot["heaps_satisfying_the_hypothesis_of_theorem_roundtrip"] += 1
            else:
                res.count("pickle:heap-outside-Supported")
                res.notes.append("a real .save heap is outside the hypothesis `Supported` of theorem roundtrip (round trip then only evaluated): %s" % inp.get("entry"))
            # graphs are compared modulo the identity of strings of <= 1 character (interpreter singletons: the unpickler
            # always returns the singleton, a live graph need not hold it) — see pickleio.modulo_short_strings
            exact = "ok" in cm and "ok" in cr and cm["ok"] == cr["ok"]
            if "ok" in cm and "ok" in cr and not exact:
                res.count("pickle:graphs-equal-only-modulo-1-char-string-identity")
            for g_ in (vm, cm, cr):
                if "ok" in g_:
                    g_["ok"] = pickleio.modulo_short_strings(g_["ok"])
            cmd = "pepper-compiler %s; pickle.load(open('out.save','rb')) in a new process" % inp.get("entry")
            for tag, g in (("in-memory", cm), ("reloaded", cr)):
                if "ok" not in g:
                    res.corr_breaks.append({"name": "PickleCanon", "input": inp, "model": json.dumps(g), "impl": tag + " heap"})
            if "ok" not in cm or "ok" not in cr:
                continue
            same_graph = cm["ok"] == cr["ok"]
            if attrs is not None:
                am, ar = agot[0], agot[1]
                agot = agot[2:]
                for g_ in (am, ar):
                    if "ok" in g_:
                        g_["ok"] = pickleio.modulo_short_strings(g_["ok"])
                if "ok" not in am or "ok" not in ar:
                    res.corr_breaks.append({"name": "PickleCanon", "input": inp, "model": json.dumps([am, ar])[:300], "impl": "attribute view"})
                elif am["ok"] != ar["ok"]:
                    res.violations.append({"what": "the object graph reloaded from out.save in a fresh process is not isomorphic to the in-memory system "
                                                   "(both read by attributes: a pickled class customises its pickling; customised: %s): %s" % (
                                                       sorted(set(im["custom_reduce"]) | set(ir["custom_reduce"])), first_diff(am["ok"], ar["ok"])),
                                           "input": inp, "sig": "C16:pickle-graph", "cmd": cmd})
            elif not same_graph:
                res.violations.append({"what": "the object graph reloaded from out.save in a fresh process is not isomorphic to the in-memory system "
                                               "(objects, attribute values, sharing, complement links): " + first_diff(cm["ok"], cr["ok"]),
                                       "input": inp, "sig": "C16:pickle-graph", "cmd": cmd})
            if vm.get("ok") != cr["ok"]:
                res.corr_breaks.append({"name": "PickleVM", "input": inp, "model": json.dumps(vm.get("err") or first_diff(vm["ok"], cr["ok"])),
                                        "impl": "reloaded graph"})
            real = pickleio.strip_framing(ops)
            if exact and dm.get("ok") != real:
                res.corr_breaks.append({"name": "PickleDump", "input": inp, "model": json.dumps(dm.get("err") or first_op_diff(dm["ok"], real)),
                                        "impl": "pickletools.genops(out.save)"})
            if rt.get("ok") is not True:
                res.corr_breaks.append({"name": "PickleRoundtrip", "input": inp, "model": json.dumps(rt), "impl": "-"})
            st_ = pickleio.stats(hm, rm)
            t = self.tot
            t["programs"] += 1; t["ops"] += len(ops); t["bytes"] += nbytes; t["heap_cells"] += len(hm)
            t["reachable_cells"] += st_["cells"]; t["instances"] += st_["instances"]; t["strings"] += st_["strings"]
            t["shared_refs"] += st_["shared"]; t["shared_strings"] += st_["shared_strings"]
            t["cyclic_components"] += st_["cyclic_components"]; t["cells_on_cycles"] += st_["cells_on_cycles"]
            t["vm_cells_allocated"] += vm.get("heap", 0)
            for info in (im, ir):
                for c_, n_ in info["classes"].items():
                    self.classes[c_] = self.classes.get(c_, 0) + n_
                for c_ in info["setstate"]:
                    self.setstate.add(".".join(c_))
                for c_, n_ in info["dict_key_kinds"].items():
                    self.key_kinds[c_] = self.key_kinds.get(c_, 0) + n_

    def directed(self, tier):
        """objects outside the compiler that reach the remaining opcodes and the batch boundaries of the C pickler"""
        import pickle
        if self.drv is None:
            return
        cases = pickleio.directed_objects(big=True)
        reqs, meta = [], []
        for name, obj, reload_too, proto2 in cases:
            if proto2:
                # older protocol: GLOBAL-free objects only; reaches BINPUT / BINGET-after-PUT / BINUNICODE / LONG1 / TUPLE spellings
                try:
                    reqs2 = [{"op": "pickle-run", "ops": pickleio.ops_of(pickle.dumps(obj, 2), self.census_directed)}]
                    h2, r2, _ = pickleio.walk(obj)
                    reqs2.append({"op": "pickle-canon", "heap": h2, "root": r2})
                    g2 = self.drv.call_many(reqs2)
                    self.res.disagreements_checked += 1
                    if "ok" not in g2[0] or g2[0].get("ok") != g2[1].get("ok"):
                        self.res.corr_breaks.append({"name": "PickleDirected", "input": name + " (protocol 2)", "model": json.dumps(g2[0])[:300],
                                                     "impl": "walked original"})
                except pickleio.Unmodelled as e:
                    self.res.corr_breaks.append({"name": "PickleDirected", "input": name + " (protocol 2)", "model": "unmodelled", "impl": str(e)})
            data = pickle.dumps(obj)
            try:
                ops = pickleio.ops_of(data, self.census_directed)
                h0, r0, i0 = pickleio.walk(obj)
                h1, r1, i1 = pickleio.walk(pickle.loads(data))
            except pickleio.Unmodelled as e:
                self.res.corr_breaks.append({"name": "PickleDirected", "input": name, "model": "unmodelled", "impl": str(e)})
                continue
            reqs += [{"op": "pickle-run", "ops": ops, "setstate": i0["setstate"]}, {"op": "pickle-canon", "heap": h0, "root": r0},
                     {"op": "pickle-canon", "heap": h1, "root": r1}, {"op": "pickle-dump", "heap": h0, "root": r0},
                     {"op": "pickle-roundtrip", "heap": h0, "root": r0}]
            meta.append((name, ops, reload_too))
        got = self.drv.call_many(reqs)
        for k, (name, ops, reload_too) in enumerate(meta):
            vm, c0, c1, dm, rt = got[5 * k: 5 * k + 5]
            self.res.count("pickle:directed-object")
            self.res.disagreements_checked += 4
            bad = []
            if "ok" not in c0 or vm.get("ok") != c0.get("ok"):
                bad.append("VM(real bytes) vs walked original: " + (vm.get("err") or c0.get("err") or first_diff(vm["ok"], c0["ok"])))
            if reload_too and c1.get("ok") != c0.get("ok"):
                bad.append("walked pickle.loads vs walked original")
            if dm.get("ok") != pickleio.strip_framing(ops):
                bad.append("dump vs real opcodes: " + (dm.get("err") or first_op_diff(dm["ok"], pickleio.strip_framing(ops))))
            if rt.get("ok") is not True:
                bad.append("roundtrip: %s" % json.dumps(rt))
            if bad:
                self.res.corr_breaks.append({"name": "PickleDirected", "input": name, "model": "; ".join(bad)[:900], "impl": "pickle.dumps / pickle.loads"})

    def finish(self, tier):
        self.flush()
        t0 = time.time()
        self.directed(tier)
        self.seconds += time.time() - t0
        res = self.res
        for k, v in self.tot.items():
            res.count("pickle:" + k, v)
        for k, v in sorted(self.census.items()):
            res.count("pickle:opcode:" + k, v)
        res.extra["pickle_model"] = {
            "totals": self.tot, "seconds_spent_in_this_section": round(self.seconds, 1),
            "opcode_census_of_the_save_files": dict(sorted(self.census.items())),
            "opcode_census_of_the_directed_objects": dict(sorted(self.census_directed.items())), "pickled_classes": dict(sorted(self.classes.items())),
            "classes_with___setstate__": sorted(self.setstate), "dict_key_types": self.key_kinds,
            "obligations_per_program": ["canon(LeanVM(real bytes)) = canon(reloaded graph, fresh process)", "canon(in-memory graph) = canon(reloaded graph)",
                                        "Lean dump(in-memory heap) = real opcode list modulo PROTO/FRAME/spelling",
                                        "canon(run(dump h r)) = canon h r evaluated on the in-memory heap",
                                        "snapshotOfHeap(LeanVM(real bytes)) = the model's `snapshot` of the compile = snapshot of the reloaded graph",
                                        "supportedB(in-memory heap, root) evaluated: the hypothesis of theorem C16Pickle.roundtrip (counted, not required)"]}
        if self.setstate:
            res.notes.append("pickled classes defining __setstate__ (BUILD on them is outside the model): %s" % sorted(self.setstate))


def fmt_opt(tree):
    """the Lean `snapshotOfHeap` hands a structure's `opt` out as the heap holds it (`["float", hex]` / `["int", decimal]`, the 8
    bytes of a BINFLOAT stay opaque in Lean); snapshot.py and the model's `snapshot` print `"%f" % opt`"""
    import struct

    def walk(t):
        if isinstance(t, dict):
            out = {}
            for k_, v_ in t.items():
                if k_ == "opt" and isinstance(v_, list) and v_ and v_[0] in ("float", "int"):
                    out[k_] = "%f" % (struct.unpack(">d", bytes.fromhex(v_[1]))[0] if v_[0] == "float" else int(v_[1]))
                else:
                    out[k_] = walk(v_)
            return out
        if isinstance(t, list):
            return [walk(x) for x in t]
        return t
    return walk(tree)


def first_diff(a, b):
    """first place where two canonical forms (driver JSON) differ, as a short text"""
    if not isinstance(a, dict) or not isinstance(b, dict):
        return "no canonical form"
    if a.get("root") != b.get("root"):
        return "roots differ"
    ca, cb = a.get("cells", []), b.get("cells", [])
    for i, (x, y) in enumerate(zip(ca, cb)):
        if x != y:
            return "cell %d (first-visit order): %s vs %s" % (i, json.dumps(x)[:160], json.dumps(y)[:160])
    return "%d vs %d reachable cells" % (len(ca), len(cb))


def first_op_diff(a, b):
    for i, (x, y) in enumerate(zip(a, b)):
        if x != y:
            return "op %d: model %s, real %s" % (i, json.dumps(a[max(0, i - 2): i + 2]), json.dumps(b[max(0, i - 2): i + 2]))
    return "%d vs %d ops" % (len(a), len(b))

# ====================================================================================================== end [pickle model]


def run(st, tier, seed):
    from peppercompiler import compiler as pc
    from peppercompiler import finish as pf
    from peppercompiler.kinetics import read_design
    res = Result("C16")
    res.rule = ("accepted programs (components, systems to depth 3) x 0-5 earlier compiles in the saving process; save in this process, "
                "load + snapshot + finish in a fresh subprocess; non-trivial = a system or a component with a super-sequence; distinct by source")
    rng = core.rng_for(seed, "c16")
    n = 25 if tier == "quick" else 1000
    drv = core.Driver() if st.driver_ok else None
    pk = PickleTie(res, drv)
    reqs, meta = [], []
    for i in range(n):
        for _ in range(rng.randint(0, 5) if rng.random() < 0.6 else 0):   # history of earlier compiles
            impl.compile_bundle(progen.gen_component_bundle(rng, size=3), "pil")
            res.count("earlier-compile")
        b = progen.gen_component_bundle(rng, size=rng.choice([3, 6, 10]), satisfiable=True) if rng.random() < 0.5 else \
            progen.gen_system_bundle(rng, depth=rng.randint(1, 3), size=4, n_templates=2, satisfiable=True)
        if b is None:
            continue
        inp = {"files": b.texts, "entry": b.entry, "includes": b.includes}
        # half of the compiles use a --fixed file that narrows some constraints (the saved state must carry them)
        fixed_text = None
        if rng.random() < 0.5:
            r0 = impl.compile_bundle(b, "pil")
            if r0["ok"]:
                st0 = pilio.read_pil(r0["text"])
                signal_names = {s_["items"][0] for s_ in st0 if s_["k"] == "equal" and s_["items"]}   # connectors are not saved objects
                cands = [s_ for s_ in st0 if s_["k"] == "seq" and "_Anon" not in s_["name"] and s_["tmpl"] and s_["name"] not in signal_names]
                rng.shuffle(cands)
                lines_ = []
                for s_ in cands[:rng.randint(1, 3)]:
                    lines_.append("sequence %s = %s" % (s_["name"], "".join(rng.choice(pipeline.GROUP[c_]) for c_ in s_["tmpl"])))
                fixed_text = "\n".join(lines_) + "\n"
                res.count("with-fixed-file")
        with core.scratch("pepper_c16_") as d:
            if rng.random() < 0.4:
                # one of the earlier compiles of the saving process wrote ANOTHER program's state to the same output names
                # (a recompile into an existing out.pil / out.save): the files must afterwards hold this compile's state only
                other = progen.gen_component_bundle(rng, size=rng.choice([2, 5]))
                impl.compile_bundle(other, "pil", root=os.path.join(d, "earlier"), keep=lambda dd: [
                    __import__("shutil").copy(os.path.join(dd, "out." + e), os.path.join(d, "out." + e)) for e in ("pil", "save")])
                __import__("shutil").rmtree(os.path.join(d, "earlier"), ignore_errors=True)
                if os.path.exists(os.path.join(d, "out.save")):
                    res.count("recompile-over-existing-save")
            try:
                out = pipeline.run_pipeline(b, rng, d, fixed_text=fixed_text)
            except pipeline.Stage as e:
                if e.stage == "finish":
                    res.violations.append({"what": "finishing from the reloaded .save fails on a valid design of the same compile: %r" % (e.exc,),
                                           "input": inp, "sig": "C16:finish-from-save-fails", "cmd": "pepper-compiler; pepper-design-spurious; pepper-finish"})
                res.count("skipped:" + e.stage); continue
            res.evaluations += 1
            if any(k.endswith(".sys") for k in b.texts) or "sup-sequence" in out["pil"]:
                res.nontriv(b.texts)
            # (1) in memory: recompile in this process keeping the object (same anonymous numbers are not needed: names are compared after the fact)
            cwd = os.getcwd(); os.chdir(d)
            try:
                from peppercompiler import DNA_classes
                DNA_classes.AnonymousSequence.num = out["anon_before"]
                from peppercompiler.system_class import load_file
                with quiet():
                    mem = load_file(b.entry, [], prefix="", includes=list(b.includes) if b.includes else None)
                    if fixed_text is not None:
                        for type_, name_, fseq in pc.load_fixed("fixed.fix"):
                            mem.seqs[name_].fix_seq(fseq)
                s_mem = snapmod.snap(mem)
                pk_mem = pk.walk_memory(mem)          # [pickle model] the graph the pickler sees, before finishing mutates it
                mem_attrs = pk.walk_memory(mem, "attrs") if pk_mem is not None and pk_mem[2]["custom_reduce"] else None
                with quiet():
                    pf.apply_design(mem, read_design("out.mfe"))
                mem_lines = ["# Sequences"] + ["sequence %s = %s" % (k, v.seq) for k, v in mem.seqs.items()] + \
                            ["# Strands"] + ["strand %s = %s" % (k, v.seq) for k, v in mem.strands.items()] + \
                            ["# Structures"] + ["structure %s = %s" % (k, v.seq) for k, v in mem.structs.items()]
            finally:
                os.chdir(cwd)
            # (2) reloaded in a fresh process
            r = sub([os.path.join(core.HERE, "pickleio.py"), "out.save", "--snapshot"], d)
            if r.returncode != 0:
                res.violations.append({"what": "the .save file cannot be reloaded in a fresh process", "input": inp, "observed": r.stderr[-500:],
                                       "sig": "C16:reload", "cmd": "python -c 'from peppercompiler.compiler import load; load(\"out.save\")'"})
                continue
            reloaded = json.loads(r.stdout)
            with open(os.path.join(d, "out.save"), "rb") as f_:
                pk.add(inp, f_.read(), pk_mem, reloaded, mem_attrs)          # [pickle model] three-way graph comparison, see PickleTie
            if "snapshot" not in reloaded:
                res.violations.append({"what": "the state reloaded from the .save file in a fresh process cannot be read", "input": inp,
                                       "observed": reloaded.get("snapshot_error"), "sig": "C16:reload",
                                       "cmd": "python -c 'from peppercompiler.compiler import load; load(\"out.save\")'"})
                continue
            s_re = reloaded["snapshot"]
            cmd = "pepper-compiler %s; reload out.save in a new process" % b.entry
            if s_re["problems"] or s_mem["problems"]:
                res.violations.append({"what": "sharing / complement links broken: %s" % (s_re["problems"] + s_mem["problems"])[:3], "input": inp,
                                       "sig": "C16:sharing", "cmd": cmd})
            if s_re["tree"] != s_mem["tree"]:
                res.violations.append({"what": "reloaded state differs from the in-memory state", "input": inp, "sig": "C16:reload-differs", "cmd": cmd})
            if s_re.get("wiring") != json.loads(json.dumps(s_mem.get("wiring"))):
                wd = [(x, y) for x, y in zip(s_mem.get("wiring") or [], s_re.get("wiring") or []) if json.loads(json.dumps(x)) != y][:3]
                res.violations.append({"what": "the structures of the reloaded state are wired differently from the in-memory ones (stand-in structures "
                                               "of declared inputs / port structures, read by kinetic finishing)", "input": inp, "observed": wd,
                                       "sig": "C16:reload-wiring", "cmd": cmd})
            if any(isinstance(w_[1], list) and w_[1] and not w_[0].endswith("<ports>") for w_ in (s_mem.get("wiring") or [])):
                res.count("structure-with-stand-ins")
            pn, sn = pil_names(out["pil"]), snap_names(s_re["tree"])
            if pn != sn:
                diff = [(k, [x for x in pn[k] if x not in sn[k]][:3], [x for x in sn[k] if x not in pn[k]][:3]) for k in pn if pn[k] != sn[k]]
                res.violations.append({"what": "names / lengths of the saved state differ from the .pil of the same compile", "input": inp,
                                       "observed": diff, "sig": "C16:names", "cmd": cmd})
            # finishing from the reloaded state (done by run_pipeline in this process from the file) vs from memory vs a fresh process
            r2 = sub(["-c", "from peppercompiler.finish import main; main()", "out", "--seqs", "sub.seqs"], d)
            sub_seqs = open(os.path.join(d, "sub.seqs")).read() if r2.returncode == 0 else None
            if sub_seqs != out["seqs"] or [l for l in out["seqs"].split("\n") if l] != mem_lines:
                res.violations.append({"what": "finishing from the reloaded .save differs from finishing from memory", "input": inp,
                                       "observed": {"subprocess_ok": r2.returncode == 0}, "sig": "C16:finish-differs", "cmd": "pepper-finish out"})
            if drv is not None:
                fx = [] if fixed_text is None else [{"kind": "sequence", "name": l_.split()[1], "seq": l_.split()[3]} for l_ in fixed_text.strip().split("\n")]
                rq = progen.compile_request(b, "pil", anon=out["anon_before"], fixed=fx); rq["op"] = "snapshot"
                reqs.append(rq); meta.append((inp, s_re["tree"]))
            if len(res.samples) < 1:
                res.sample({"source": b.texts, "snapshot_head": json.dumps(s_re["tree"])[:400]})
    # directed: a user sequence with a name of the reserved form _Anon<k> that meets the process's anonymous counter, at the
    # super-sequence site and at the strand site (defect F16).  The compiler must reject it, or what it saves must match its .pil
    for k in range(4 if tier == "quick" else 40):
        site = "sup" if k % 2 == 0 else "strand"
        nme = "_Anon%d" % (impl.anon_counter() + (0 if rng.random() < 0.7 else 1))
        L = rng.randint(1, 5)
        text = ('declare component T: ->\nsequence a = "4N"\nsequence %s = "%dN"\n' % (nme, L)) + \
               ('sequence S = "3N" a\nstrand X = S %s\nstructure M = X : %d.\n' % (nme, 7 + L) if site == "sup" else
                'sequence S = a a\nstrand X = "3N" S %s\nstructure M = X : %d.\n' % (nme, 11 + L))
        fb = progen.Bundle(); fb.texts["t.comp"] = text; fb.entry = "t"
        res.count("directed:reserved-name-at-" + site)
        with core.scratch("pepper_c16r_") as d:
            try:
                out = pipeline.run_pipeline(fb, rng, d)
            except pipeline.Stage as e:
                if e.stage != "compile":
                    res.violations.append({"what": "a program with a user sequence named %s is accepted, but stage '%s' fails on the state saved by that compile: %r" % (nme, e.stage, e.exc),
                                           "input": {"files": fb.texts, "entry": "t", "anon_counter": nme}, "sig": "C16:reserved-name:" + e.stage,
                                           "cmd": "pepper-compiler t; pepper-design-spurious; pepper-finish"})
                continue
            res.evaluations += 1
            r = sub([os.path.join(core.HERE, "snapshot.py"), "out.save"], d)
            if r.returncode == 0:
                s_re = json.loads(r.stdout)
                pn, sn = pil_names(out["pil"]), snap_names(s_re["tree"])
                if s_re["problems"] or pn != sn:
                    res.violations.append({"what": "reserved-name program accepted and its saved state differs from its .pil: %s" % (s_re["problems"] or "names/lengths")[:200],
                                           "input": {"files": fb.texts, "entry": "t"}, "sig": "C16:reserved-name:names", "cmd": "pepper-compiler t"})
    # directed: template arguments that are not numbers (the system language evaluates an instance argument as a Python expression:
    # a lambda, a string).  They steer the template (`<rule(t)>`), they are not part of the system that is saved: the compile
    # must write a .save that reloads in a fresh process and matches the .pil, exactly as with integer arguments
    for k, (argtext, region, use) in enumerate([("lambda x: x+2, 3", "<rule(t)>N", "<rule(t)>"), ("'S', 4", "<t><rule>", "<t>"),
                                                ("lambda x: 2*x, 2", "<rule(t)+1>N", "<rule(t)+1>")]):
        fb = progen.Bundle()
        fb.texts["Gate.comp"] = ('declare component Gate(rule, t): a -> b\nsequence a = "%s"\nsequence b = "<t>S"\nstrand A = a b\n'
                                 'structure SA = A : %s. <t>.\n' % (region, use))
        fb.texts["top.sys"] = "declare system top: ->\nimport Gate\ncomponent g = Gate(%s): s -> u\ncomponent h = Gate(%s): p -> q\n" % (argtext, argtext)
        fb.entry = "top"
        inp = {"files": fb.texts, "entry": "top"}
        res.count("directed:non-numeric-template-argument")
        with core.scratch("pepper_c16a_") as d:
            try:
                out = pipeline.run_pipeline(fb, rng, d)
            except pipeline.Stage as e:
                wrote = os.path.exists(os.path.join(d, "out.pil")) and os.path.getsize(os.path.join(d, "out.pil")) > 0
                if e.stage != "compile" or wrote:
                    res.violations.append({"what": "a system whose instance arguments are (%s): the specification is written but stage '%s' fails: %r" % (argtext, e.stage, e.exc),
                                           "input": inp, "sig": "C16:non-numeric-argument:" + e.stage, "cmd": "pepper-compiler top; pepper-finish"})
                continue
            res.evaluations += 1
            r = sub([os.path.join(core.HERE, "snapshot.py"), "out.save"], d)
            if r.returncode != 0:
                res.violations.append({"what": "the .save of a system with instance arguments (%s) cannot be reloaded in a fresh process" % argtext, "input": inp,
                                       "observed": r.stderr[-400:], "sig": "C16:reload", "cmd": "python -c 'from peppercompiler.compiler import load; load(\"out.save\")'"})
                continue
            s_re = json.loads(r.stdout)
            pn, sn = pil_names(out["pil"]), snap_names(s_re["tree"])
            if s_re["problems"] or pn != sn:
                res.violations.append({"what": "saved state of a system with instance arguments (%s) differs from its .pil: %s" % (argtext, (s_re["problems"] or "names/lengths")),
                                       "input": inp, "sig": "C16:names", "cmd": "pepper-compiler top"})
    pk.finish(tier)
    res.programs = res.evaluations
    if drv is not None and reqs:
        got = drv.call_many(reqs)
        for (inp, tree), g in zip(meta, got):
            res.disagreements_checked += 1
            if g.get("ok") != tree:
                res.corr_breaks.append({"name": "Snapshot", "input": inp, "model": json.dumps(g)[:600], "impl": json.dumps(tree)[:600]})
                if len(res.corr_breaks) > 3:
                    break
            # [pickle model] the snapshot Lean reads off the heap it decodes from the REAL .save bytes (snapshotOfHeap) against the
            # model's own snapshot of the compile (ties the pickled BYTES to the model's compile state) and against the harness
            # snapshot of the graph reloaded in a fresh process
            dec = pk.decoded_snapshots.get(json.dumps(inp, sort_keys=True))
            if dec is not None:
                res.disagreements_checked += 1
                res.count("pickle:decoded-bytes-snapshot-compared")
                if dec != g.get("ok") or dec != tree:
                    res.corr_breaks.append({"name": "PickleSnapshot", "input": inp, "model": json.dumps(dec)[:600],
                                            "impl": "model snapshot equal: %s, reloaded-graph snapshot equal: %s" % (dec == g.get("ok"), dec == tree)})
                    if len(res.corr_breaks) > 3:
                        break
    return res
