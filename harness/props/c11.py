"""C11 — degenerate-base tables form a consistent, complement-closed algebra.

Deciding method: the tables are re-extracted from /repo (translator) and the theorems of
PepperProps/C11.lean are re-checked by `lake build` (`decide` over the extracted tables + the general
lemmas of PepperProofs/Codes.lean).  The oracle below is the brute-force statement of the property on
the live Python tables / live C functions; it supplies the concrete failing code when an obligation
breaks."""
import itertools
import json

import core
from core import Result

NEED_DRIVER = True
LEVEL = "proof"
LEVEL_NOTE = ("finite quantifier: `decide` over the tables extracted from the working tree on this run; "
              "string clause by induction for every lawful table")

BASES = "ACGT"
COMP = {"A": "T", "T": "A", "C": "G", "G": "C"}


def oracle(tables, res):
    py, alpha, c = tables["py"], tables["alpha"], tables["c"]
    cwc = {chr(a): chr(b) for a, b in c["wc"]}
    crand = {chr(a): "".join(chr(x) for x in xs) for a, xs in c["randbase"]}
    deg = "".join(chr(x) for x in c["degenerates"]).split(" ")
    cdeg = {}
    for pr in deg:
        if len(pr) == 2:
            cdeg.setdefault(pr[0], set()).add(pr[1])
    universe = set(cwc) | set(crand) | set(cdeg)
    for k in py:
        universe |= {a for a, _ in py[k]["group"]} | {a for a, _ in py[k]["compl"]}
    universe = sorted(universe)
    copies = {}
    for k in py:
        copies[k] = (dict(py[k]["group"]), dict(py[k]["compl"]), dict(py[k]["rev"]))
    copies["c"] = ({a: "".join(sorted(cdeg.get(a, ""))) for a in universe if a in cdeg}, cwc, None)

    def viol(what, inp, sig):
        res.violations.append({"what": what, "input": inp, "sig": sig,
                               "cmd": "python3 -c 'from peppercompiler import DNA_classes as d; print(d.group, d.complement)'"})

    for name, (group, compl, rev) in copies.items():
        for code in universe:
            res.evaluations += 1
            if code not in group or code not in compl:
                viol("copy %s lacks code %s that another copy has" % (name, code), {"copy": name, "code": code},
                     "C11:missing:%s:%s" % (name, code))
                continue
            g = group[code]
            if not g or any(b not in BASES for b in g):
                viol("copy %s: group[%s]=%r is not a non-empty set of bases" % (name, code, g), {"copy": name, "code": code}, "C11:group:%s:%s" % (name, code))
                continue
            d = compl[code]
            if d not in group or set(group[d]) != {COMP[b] for b in g}:
                viol("copy %s: complement[%s]=%s does not denote the complements of %s" % (name, code, d, g),
                     {"copy": name, "code": code}, "C11:compl:%s:%s" % (name, code))
            elif compl.get(d) != code:
                viol("copy %s: complement is not an involution at %s" % (name, code), {"copy": name, "code": code},
                     "C11:invol:%s:%s" % (name, code))
        for k2, (g2, c2, _) in copies.items():
            for code in universe:
                if code in group and code in g2 and (set(group[code]) != set(g2[code]) or compl.get(code) != c2.get(code)):
                    viol("copies %s and %s disagree on code %s" % (name, k2, code), {"copies": [name, k2], "code": code},
                         "C11:disagree:%s" % code)
        if rev is not None:
            for a, b in itertools.product(sorted(group), repeat=2):
                res.evaluations += 1
                inter = "".join(sorted(set(group[a]) & set(group[b])))
                res.nontriv(("pair", a, b))
                if inter:
                    e = rev.get(inter)
                    if e is None:
                        viol("copy %s: %s ∩ %s = %s has no code" % (name, a, b, inter), {"copy": name, "pair": [a, b]},
                             "C11:closure:%s:%s%s" % (name, a, b))
                    else:
                        for an, al in (("PIL reader", alpha["pil_parse_seq"]), (".mfe reader", alpha["mfe_seq"])):
                            if e not in al:
                                viol("code %s (= %s ∩ %s) is not accepted by the %s" % (e, a, b, an),
                                     {"code": e, "reader": an}, "C11:accept:%s:%s" % (an, e))
    for a in sorted(crand):
        if a in copies["dna"][0] and set(crand[a]) != set(copies["dna"][0][a]):
            viol("randbasec(%s) chooses from %r, group is %r" % (a, crand[a], copies["dna"][0][a]), {"code": a}, "C11:randbase:%s" % a)
    res.sample({"universe": "".join(universe), "copies": sorted(copies)})


def strings_oracle(res, seed, n):
    """wc(wc(s)) == s on the live functions for random strings over the code alphabet."""
    from peppercompiler import DNA_classes
    from peppercompiler.design import PIL_DNA_classes
    rng = core.rng_for(seed, "c11-strings")
    codes = sorted(DNA_classes.group)
    for i in range(n + len(codes)):
        s = "".join(rng.choice(codes) for _ in range(rng.randint(0, 40))) if i >= len(codes) else codes[i]   # every single code first
        res.evaluations += 1
        res.nontriv(("str", s))
        for fn, nm in ((DNA_classes.wc, "DNA_classes.wc"), (PIL_DNA_classes.seq_comp, "PIL_DNA_classes.seq_comp")):
            try:
                ok = fn(fn(s)) == s
            except Exception:
                ok = False
            if not ok:
                res.violations.append({"what": "%s(%s(s)) != s" % (nm, nm), "input": {"s": s}, "sig": "C11:wcwc:%s" % nm})
            # the function itself (not only the table it is supposed to use): position i of the reverse complement denotes
            # exactly the complements of the bases position len-1-i of s denotes
            try:
                r = fn(s)
                grp = DNA_classes.group
                bad = len(r) != len(s) or any(set(grp[r[len(s) - 1 - k]]) != {COMP[b] for b in grp[s[k]]} for k in range(len(s)))
            except Exception:
                bad = True
            if bad:
                k = next((k for k in range(len(s)) if fn(s[k]) not in DNA_classes.group or
                          set(DNA_classes.group[fn(s[k])]) != {COMP[b] for b in DNA_classes.group[s[k]]}), None) if len(s) else None
                res.violations.append({"what": "%s(s) does not denote the reverse complement of s%s" % (nm, "" if k is None else " (code %s -> %s)" % (s[k], fn(s[k]))),
                                       "input": {"s": s}, "sig": "C11:wc-denotation:%s" % nm,
                                       "cmd": "python3 -c 'from peppercompiler.DNA_classes import wc; print(wc(%r))'" % s})
        if i == 0:
            res.sample({"string": s, "wc": DNA_classes.wc(s)})


def intersect_oracle(res):
    """the designer front-end's intersect_groups on every ordered pair of codes: the result denotes exactly the common
    bases (an error iff there is none), agrees with the compiler's own merge, and commutes with complementing"""
    from peppercompiler.design import constraint_load
    from peppercompiler import DNA_classes
    grp = DNA_classes.group
    codes = sorted(grp)
    def inter(a, b):
        try:
            return constraint_load.intersect_groups(a, b)
        except ValueError:
            return None
        except Exception as e:
            return "raised %s" % type(e).__name__
    for a, b in itertools.product(codes, repeat=2):
        res.evaluations += 1
        want = set(grp[a]) & set(grp[b])
        r = inter(a, b)
        ok = (r is None and not want) or (r in grp and set(grp[r]) == want and bool(want))
        if ok and want:
            ca, cb = DNA_classes.complement[a], DNA_classes.complement[b]
            rc = inter(ca, cb)
            ok = rc in grp and set(grp[rc]) == {COMP[x] for x in want}
        if not ok:
            res.violations.append({"what": "intersect_groups(%s, %s) = %r does not denote the common bases %s of the two codes (or does not commute with complementing)"
                                           % (a, b, r, "".join(sorted(want)) or "(none: must be an error)"),
                                   "input": {"a": a, "b": b}, "sig": "C11:intersect-function:%s%s" % (a, b),
                                   "cmd": "python3 -c 'from peppercompiler.design.constraint_load import intersect_groups as f; print(f(%r, %r))'" % (a, b)})


def merge_oracle(res):
    """the COMPILER's merge of two codes (Sequence.fix_seq of one letter onto a one-letter template, directly and through the
    starred view): an error iff the codes share no base, otherwise the template becomes exactly the intersection code — and this
    agrees with the designer front-end's intersect_groups"""
    from peppercompiler import DNA_classes as D
    from peppercompiler.design import constraint_load
    grp = D.group
    codes = sorted(grp)
    for a, b in itertools.product(codes, repeat=2):
        want = "".join(sorted(set(grp[a]) & set(grp[b])))
        for view in ("plain", "starred"):
            res.evaluations += 1
            try:
                x = D.Sequence("x", "", [(1, a)])
                if view == "plain":
                    x.fix_seq(b)
                else:
                    (~x).fix_seq(D.complement[b])     # fixing x* to the complement of b is fixing x to b
                got = x.const
            except ValueError:
                got = None
            except Exception as e:
                got = "raised %s" % type(e).__name__
            ok = (got is None and not want) or (got in grp and "".join(sorted(grp[got])) == want and bool(want))
            if ok and want:
                try:
                    ok = constraint_load.intersect_groups(a, b) == got
                except Exception:
                    ok = False
            if not ok:
                res.violations.append({"what": "the compiler's merge of template code %s with fixed code %s (%s view) gives %r; the codes share the bases %s"
                                               % (a, b, view, got, want or "(none: must be an error)"),
                                       "input": {"template": a, "fixed": b, "view": view}, "sig": "C11:compiler-merge:%s%s" % (a, b),
                                       "cmd": "python3 -c 'from peppercompiler.DNA_classes import Sequence as S; x=S(\"x\",\"\",[(1,%r)]); x.fix_seq(%r); print(x.const)'" % (a, b)})


def frontend_pair_oracle(res):
    """the designer front-end's template merge over ONE link (Constraints.init / add_eq or add_wc / propagate /
    propagate_templates) for every ordered pair of codes: over an equality both positions end up with code(a ∩ b); over a base
    pair the first with code(a ∩ comp b) and the second with its complement; an error iff the set is empty"""
    from peppercompiler.design.constraint_load import Constraints
    from peppercompiler import DNA_classes as D
    grp = D.group
    codes = sorted(grp)
    for a, b in itertools.product(codes, repeat=2):
        for kind in ("eq", "wc"):
            res.evaluations += 1
            other = set(grp[b]) if kind == "eq" else {COMP[x] for x in grp[b]}
            want0 = "".join(sorted(set(grp[a]) & other))
            want1 = want0 if kind == "eq" else "".join(sorted(COMP[x] for x in want0))
            c = Constraints()
            c.init(0, a); c.init(1, b)
            (c.add_eq if kind == "eq" else c.add_wc)(0, 1)
            try:
                c.propagate(); c.propagate_templates()
                got = (c.st[0], c.st[1])
            except ValueError:
                got = None
            except Exception as e:
                got = "raised %s" % type(e).__name__
            ok = (got is None and not want0) or (isinstance(got, tuple) and want0 and all(g in grp for g in got) and
                                                 "".join(sorted(grp[got[0]])) == want0 and "".join(sorted(grp[got[1]])) == want1)
            if not ok:
                res.violations.append({"what": "front-end template merge of codes %s and %s over %s gives %r; the first position may carry exactly %s"
                                               % (a, b, "an equality" if kind == "eq" else "a base pair", got, want0 or "(nothing: must be an error)"),
                                       "input": {"first": a, "second": b, "link": kind}, "sig": "C11:frontend-merge:%s:%s%s" % (kind, a, b),
                                       "cmd": "Constraints(): init(0,%r); init(1,%r); add_%s(0,1); propagate(); propagate_templates(); st" % (a, b, kind)})


def correspondence(st, res, seed, n):
    """model `intersect` / `wcStr` on the generated table vs the live Python functions"""
    from peppercompiler.design import constraint_load
    from peppercompiler import DNA_classes
    if not st.driver_ok:
        return
    rng = core.rng_for(seed, "c11-corr")
    codes = sorted(DNA_classes.group)
    reqs, exp = [], []
    for a, b in itertools.product(codes, repeat=2):
        reqs.append({"op": "intersect", "table": "pil", "a": a, "b": b})
        try:
            exp.append({"ok": constraint_load.intersect_groups(a, b)})
        except ValueError:
            exp.append({"err": "empty"})
        except KeyError:
            exp.append({"err": "key"})
    for _ in range(n):
        s = "".join(rng.choice(codes + ["x"] * (rng.random() < 0.05)) for _ in range(rng.randint(0, 30)))
        reqs.append({"op": "wc", "table": "dna", "s": s})
        try:
            exp.append({"ok": DNA_classes.wc(s)})
        except KeyError:
            exp.append({"err": "key"})
    got = core.Driver().call_many(reqs)
    for r, e, g in zip(reqs, exp, got):
        res.disagreements_checked += 1
        if e != g:
            res.corr_breaks.append({"name": "Codes." + r["op"], "input": r, "model": g, "impl": e})


def run(st, tier, seed):
    res = Result("C11")
    res.rule = ("exhaustive over every code and ordered pair of codes of every copy of the tables (3 Python modules + C), "
                "plus random strings over the code alphabet for wc∘wc; a case is a (copy, code) / (copy, pair) / string; "
                "all distinct pairs and strings count as non-trivial")
    if st.tables is None:
        # the live modules cannot be extracted: fall back to nothing – the broken translator is reported
        return res
    oracle(st.tables, res)
    strings_oracle(res, seed, 300 if tier == "quick" else 20000)
    intersect_oracle(res)
    merge_oracle(res)
    frontend_pair_oracle(res)
    try:
        correspondence(st, res, seed, 200 if tier == "quick" else 5000)
    except Exception as e:
        res.corr_breaks.append({"name": "Codes.driver", "input": None, "model": repr(e), "impl": None})
    res.exhaustive = True
    res.programs = 4
    return res


def replay(path):
    with open(path) as f:
        print(json.dumps(json.load(f), indent=1))
    return 0
