"""C07 — constraint propagation computes exactly the parity closure.

Theorems: PepperProps/C07.lean (propagate_exact, order_independent, pre_of_preB) about the model
PepperModel/Closure.lean.  Correspondence: real `propagate_constraints` vs model op `closure` on the
same graphs.  Oracle: an independent BFS over (item, parity) states applied to the implementation's
output, plus re-running the implementation under shuffled key / adjacency orders, plus registering the same links one
by one through the front-end's `Constraints` store (init / add_eq / add_wc / propagate) in random order."""
import itertools
import json

import core
from core import Result

LEVEL = "proof"
LEVEL_NOTE = "theorem for every finite link graph satisfying the documented precondition (symmetric, key-closed); correspondence sampled"


def bfs_spec(keys, eq, wc):
    """{x: (evens, odds)} by plain breadth-first search; independent of the implementation."""
    out = {}
    for x in keys:
        seen = {(x, 0)}
        todo = [(x, 0)]
        while todo:
            y, p = todo.pop()
            for z in eq.get(y, ()):
                if (z, p) not in seen:
                    seen.add((z, p)); todo.append((z, p))
            for z in wc.get(y, ()):
                if (z, 1 - p) not in seen:
                    seen.add((z, 1 - p)); todo.append((z, 1 - p))
        out[x] = ({y for y, p in seen if p == 0}, {y for y, p in seen if p == 1})
    return out


def gen_graph(rng, nmax):
    n = rng.randint(0, nmax)
    style = rng.random()
    keys = []
    for i in range(n):
        keys.append(i if (style < 0.5 or rng.random() < 0.5) else (rng.randint(0, 3), i))
    rng.shuffle(keys)
    eq = {k: [] for k in keys}
    wc = {k: [] for k in keys}
    if n:
        dens = rng.choice([0.3, 0.7, 1.2, 2.0])
        m = int(dens * n * rng.random()) + rng.randint(0, 2)
        selfp = rng.choice([0, 0, 0.05, 0.15])
        bip = rng.random() < 0.5   # two-colourable: no odd cycle, equals and complements stay disjoint
        col = {k: rng.randint(0, 1) for k in keys}
        for _ in range(m):
            a, b = rng.choice(keys), rng.choice(keys)
            if rng.random() < selfp:
                b = a  # self-link
            d = eq if rng.random() < 0.55 else wc
            if bip:
                d = eq if col[a] == col[b] else wc
            d[a].append(b); d[b].append(a)
            if rng.random() < 0.1:  # duplicate link
                d[a].append(b); d[b].append(a)
    return keys, eq, wc


def encode(keys, eq, wc):
    idx = {k: i for i, k in enumerate(keys)}
    return ([[idx[k], [idx.get(z, 10 ** 6 + j) for j, z in enumerate(eq[k])]] for k in keys],
            [[idx[k], [idx.get(z, 10 ** 6 + j) for j, z in enumerate(wc[k])]] for k in keys], idx)


def run_impl(keys, eq, wc):
    from peppercompiler.design.constraints import propagate_constraints
    e = {k: list(eq[k]) for k in keys}
    w = {k: list(wc[k]) for k in keys}
    try:
        ea, wa = propagate_constraints(e, w)
    except AssertionError:
        return {"err": "assert"}
    except KeyError:
        return {"err": "keyerror"}
    return {"ok": {k: (set(ea[k]), set(wa[k])) for k in ea}}


def run_store(keys, eq, wc, rng, stages=1):
    """the same graph registered link by link through the designer front-end's store
    (Constraints.init / add_eq / add_wc / propagate), links in random order and orientation.
    With stages > 1 the store is used incrementally: whole connected components are initialised, linked and propagated stage by
    stage (a link can only be registered between items that were not propagated yet, their collections being lists), and
    `propagate()` may be called again when nothing was added: the final state must still be the parity closure of everything."""
    from peppercompiler.design.constraint_load import Constraints
    c = Constraints()
    pos = {k: i for i, k in enumerate(keys)}
    for d in (eq, wc):
        for a in keys:
            if any(b not in pos for b in d[a]):
                return None
    stage_of = {}
    if stages > 1:
        spec = bfs_spec(keys, eq, wc)
        for k in keys:
            if k not in stage_of:
                st_ = rng.randrange(stages)
                for y in spec[k][0] | spec[k][1] | {k}:
                    stage_of[y] = st_
    try:
        for st_ in range(stages):
            mine = [k for k in keys if stage_of.get(k, 0) == st_]
            for k in mine:
                c.init(k)
            links = []
            for kind, d in (("eq", eq), ("wc", wc)):
                for a in mine:
                    for b in set(d[a]):
                        if pos[a] < pos[b]:
                            links += [(kind, a, b)] * d[a].count(b)
                        elif a == b:
                            links += [(kind, a, a)] * ((d[a].count(a) + 1) // 2)
            rng.shuffle(links)
            for kind, a, b in links:
                if rng.random() < 0.5:
                    a, b = b, a
                (c.add_eq if kind == "eq" else c.add_wc)(a, b)
            c.propagate()
            if stages > 1 and rng.random() < 0.3:
                c.propagate()
    except AssertionError:
        return {"err": "assert"}
    except KeyError:
        return {"err": "keyerror"}
    return {"ok": {k: (set(c.eq[k]), set(c.wc[k])) for k in c.eq}}


def check_bulk(res, rng):
    """the bulk helpers of the store: add_eqs(x, y, n) registers x+i == y+i, add_wcs(x, y, n) registers x+i ~ y-i (a helix read
    from both ends), for i < n — in either order of x and y, overlapping, mixed with single links"""
    from peppercompiler.design.constraint_load import Constraints
    n = rng.randint(4, 40)
    c = Constraints()
    for k in range(n):
        c.init(k)
    eq = {k: [] for k in range(n)}
    wc = {k: [] for k in range(n)}
    calls = []
    for _ in range(rng.randint(1, 5)):
        num = rng.randint(1, max(1, n // 3))
        if rng.random() < 0.5:
            x, y = rng.randint(0, n - num), rng.randint(0, n - num)
            c.add_eqs(x, y, num); calls.append(["add_eqs", x, y, num])
            for i in range(num):
                eq[x + i].append(y + i); eq[y + i].append(x + i)
        else:
            x, y = rng.randint(0, n - num), rng.randint(num - 1, n - 1)
            c.add_wcs(x, y, num); calls.append(["add_wcs", x, y, num])
            for i in range(num):
                wc[x + i].append(y - i); wc[y - i].append(x + i)
    for _ in range(rng.randint(0, 3)):
        a, b = rng.randrange(n), rng.randrange(n)
        if rng.random() < 0.5:
            c.add_eq(a, b); calls.append(["add_eq", a, b]); eq[a].append(b); eq[b].append(a)
        else:
            c.add_wc(a, b); calls.append(["add_wc", a, b]); wc[a].append(b); wc[b].append(a)
    res.evaluations += 1
    res.count("store-bulk-helpers")
    spec = bfs_spec(list(range(n)), eq, wc)
    try:
        c.propagate()
        got = {k: (set(c.eq[k]), set(c.wc[k])) for k in c.eq}
    except (AssertionError, KeyError) as e:
        got = "raised %s" % type(e).__name__
    if got != spec:
        bad = next((k for k in range(n) if not isinstance(got, dict) or got.get(k) != spec[k]), None)
        res.violations.append({"what": "links registered with the bulk helpers add_eqs / add_wcs do not give the parity closure (item %r)" % (bad,),
                               "input": {"items": n, "calls": calls}, "observed": repr(got.get(bad)) if isinstance(got, dict) else got,
                               "expected": repr(spec.get(bad)), "sig": "C07:store-bulk",
                               "cmd": "from peppercompiler.design.constraint_load import Constraints  # init 0..n-1, then the listed calls, then propagate()"})


def check_case(res, keys, eq, wc, rng, tag):
    """oracle on the real code; returns the impl result for the correspondence."""
    res.evaluations += 1
    r = run_impl(keys, eq, wc)
    spec = bfs_spec(keys, eq, wc)
    inp = {"keys": [repr(k) for k in keys], "eq": {repr(k): [repr(z) for z in eq[k]] for k in keys},
           "wc": {repr(k): [repr(z) for z in wc[k]] for k in keys}}
    nontrivial = any(wc[k] for k in keys) and len(keys) >= 3
    if nontrivial:
        res.nontriv(inp)
    res.count("n=%d" % min(len(keys), 50) if len(keys) < 10 else "n>=10")
    if any(k in wc[k] for k in keys):
        res.count("self-wc-link")
    if any(spec[k][0] & spec[k][1] for k in keys):
        res.count("odd-cycle")
    cmd = "from peppercompiler.design.constraints import propagate_constraints  # call with the eq/wc dicts of this file"
    if "err" in r:
        res.violations.append({"what": "propagate_constraints raised %s on a symmetric key-closed graph" % r["err"],
                               "input": inp, "sig": "C07:raises", "cmd": cmd})
        return r
    for k in keys:
        if k not in r["ok"] or r["ok"][k] != spec[k]:
            res.violations.append({"what": "closure of item %r is not the parity closure" % (k,), "input": inp,
                                   "observed": repr(r["ok"].get(k)), "expected": repr(spec[k]), "sig": "C07:closure", "cmd": cmd})
            return r
    if set(r["ok"]) != set(keys):
        res.violations.append({"what": "result has entries for non-keys", "input": inp, "sig": "C07:junk", "cmd": cmd})
    # other representations of the same link collections (tuples, one fresh set per item, ONE shared empty set / list for all the
    # items without links): the result must be the same and the caller's collections must come back unchanged
    rep = rng.choice(["tuple", "set", "shared-empty-set", "shared-empty-list"])
    shared = set() if rep == "shared-empty-set" else []
    def conv(d):
        if rep == "tuple":
            return {k: tuple(d[k]) for k in keys}
        if rep == "set":
            return {k: set(d[k]) for k in keys}
        return {k: ((set(d[k]) if rep == "shared-empty-set" else list(d[k])) if d[k] else shared) for k in keys}
    e3, w3 = conv(eq), conv(wc)
    snap = ({k: sorted(map(repr, e3[k])) for k in keys}, {k: sorted(map(repr, w3[k])) for k in keys})
    try:
        from peppercompiler.design.constraints import propagate_constraints as _pc
        ea3, wa3 = _pc(e3, w3)
        r3 = {"ok": {k: (set(ea3[k]), set(wa3[k])) for k in ea3}}
    except (AssertionError, KeyError) as e_:
        r3 = {"err": type(e_).__name__}
    res.count("representation:" + rep)
    after = ({k: sorted(map(repr, e3[k])) for k in keys}, {k: sorted(map(repr, w3[k])) for k in keys})
    if r3 != r or (after != snap and ea3 is not e3):
        res.violations.append({"what": "with the link collections given as %s the result differs from the parity closure, or the caller's collections were changed" % rep,
                               "input": dict(inp, representation=rep), "observed": repr(r3)[:400], "expected": repr({k: spec[k] for k in keys})[:400],
                               "sig": "C07:representation:" + rep, "cmd": cmd + "  # link collections as " + rep})
    nst = rng.choice([1, 1, 2, 3])
    res.count("store-stages:%d" % nst)
    rs = run_store(keys, eq, wc, rng, stages=nst)
    if rs is not None and rs != r:
        bad = next((k for k in keys if "ok" not in rs or rs["ok"].get(k) != spec[k]), None)
        res.violations.append({"what": "links registered through the Constraints store (init / add_eq / add_wc / propagate) do not give the "
                                       "parity closure (item %r; store used in %d stage(s) of whole connected components)" % (bad, nst), "input": inp,
                               "observed": repr(rs["ok"].get(bad)) if "ok" in rs else rs, "expected": repr(spec.get(bad)),
                               "sig": "C07:store-closure", "cmd": "from peppercompiler.design.constraint_load import Constraints  # init, add_eq, add_wc, propagate"})
    # order independence on the real code
    keys2 = list(keys); rng.shuffle(keys2)
    eq2 = {k: rng.sample(eq[k], len(eq[k])) for k in keys2}
    wc2 = {k: rng.sample(wc[k], len(wc[k])) for k in keys2}
    r2 = run_impl(keys2, eq2, wc2)
    if r2 != r:
        res.violations.append({"what": "result depends on key / link order", "input": inp,
                               "observed": "order %r" % (keys2,), "sig": "C07:order", "cmd": cmd})
    if len(res.samples) < 3 and nontrivial:
        res.sample(inp)
    return r


def check_long_chain(res, rng, n):
    """one class that is a long CHAIN (item i linked to item i+1, kinds drawn at random, optionally closed by one more link): what a
    domain repeated along a long strand, or a long run of `equal` statements, gives.  Judged against the prefix parity directly."""
    kinds = [rng.random() < 0.5 for _ in range(n - 1)]          # True = complementary
    keys = list(range(n))
    order = rng.choice(["ascending", "descending", "shuffled"])
    if order == "descending":
        keys.reverse()
    elif order == "shuffled":
        rng.shuffle(keys)
    eq = {k: [] for k in keys}; wc = {k: [] for k in keys}
    for i, c in enumerate(kinds):
        d = wc if c else eq
        d[i].append(i + 1); d[i + 1].append(i)
    par = [0]
    for c in kinds:
        par.append(par[-1] ^ int(c))
    evens = {i for i in range(n) if par[i] == 0}; odds = set(range(n)) - evens
    res.evaluations += 1
    res.count("long-chain:n=%d:%s" % (n, order))
    inp = {"items": n, "chain": "item i linked to i+1; complementary where the bit is 1", "bits": "".join("1" if c else "0" for c in kinds), "key_order": order}
    cmd = "from peppercompiler.design.constraints import propagate_constraints  # eq/wc dicts of the chain described in this file"
    from peppercompiler.design.constraints import propagate_constraints
    try:
        ea, wa = propagate_constraints({k: list(eq[k]) for k in keys}, {k: list(wc[k]) for k in keys})
    except BaseException as e:
        if isinstance(e, KeyboardInterrupt):
            raise
        res.violations.append({"what": "propagate_constraints raised %s on a chain of %d items" % (type(e).__name__, n), "input": inp,
                               "sig": "C07:raises", "cmd": cmd})
        return
    for k in (0, n // 2, n - 1, rng.randrange(n)):
        want = (evens, odds) if par[k] == 0 else (odds, evens)
        if (set(ea[k]), set(wa[k])) != want:
            res.violations.append({"what": "closure of item %d of a chain of %d items is not the parity closure" % (k, n), "input": inp,
                                   "observed": "equals: %d items, complements: %d items" % (len(set(ea[k])), len(set(wa[k]))),
                                   "expected": "equals: %d items, complements: %d items" % (len(want[0]), len(want[1])), "sig": "C07:closure", "cmd": cmd})
            return


def run(st, tier, seed):
    res = Result("C07")
    res.rule = ("random symmetric link graphs (items are ints and (num,idx) tuples; eq/wc mixtures, self-links, duplicate links, "
                "odd cycles, isolated items, shuffled key order) + exhaustive small graphs; non-trivial = at least 3 items and "
                "one complementary link; distinct by canonical JSON of the graph")
    rng = core.rng_for(seed, "c07")
    cases = []
    n_rand = 300 if tier == "quick" else 6000
    nmax = 40 if tier == "quick" else 150
    for i in range(n_rand):
        cases.append(gen_graph(rng, nmax if i % 10 else 400 if tier == "thorough" else 60))
    # exhaustive: all symmetric graphs on <= 2 items (quick) / <= 3 items (thorough)
    for n in range(0, 3 if tier == "quick" else 4):
        pairs = [(a, b) for a in range(n) for b in range(a, n)]
        for bits in itertools.product([0, 1, 2, 3], repeat=len(pairs)):  # 0 none, 1 eq, 2 wc, 3 both
            keys = list(range(n))
            eq = {k: [] for k in keys}; wc = {k: [] for k in keys}
            for (a, b), t in zip(pairs, bits):
                if t & 1:
                    eq[a].append(b)
                    if a != b: eq[b].append(a)
                if t & 2:
                    wc[a].append(b)
                    if a != b: wc[b].append(a)
            cases.append((keys, eq, wc))
    res.exhaustive = False
    res.extra["exhaustive_small_graphs_up_to_items"] = 2 if tier == "quick" else 3
    for _ in range(120 if tier == "quick" else 3000):
        check_bulk(res, rng)
    for n_ in ([1500, 2500] if tier == "quick" else [1500, 2500, 4000, 6000, 1200, 3000]):
        check_long_chain(res, rng, n_)
    reqs, impls = [], []
    for keys, eq, wc in cases:
        r = check_case(res, keys, eq, wc, rng, "rand")
        e, w, idx = encode(keys, eq, wc)
        reqs.append({"op": "closure", "eq": e, "wc": w})
        if "ok" in r:
            # items the caller never gave (a result with junk entries is already a violation above) are shown as -1
            canon = sorted([idx.get(k, -1), sorted(idx.get(y, -1) for y in r["ok"][k][0]), sorted(idx.get(y, -1) for y in r["ok"][k][1])] for k in r["ok"])
            impls.append({"ok": canon})
        else:
            impls.append(r)
    # malformed stream for the correspondence only: a neighbour that is not a key -> both must fail
    for i in range(30 if tier == "quick" else 300):
        keys, eq, wc = gen_graph(rng, 8)
        if not keys:
            continue
        k = rng.choice(keys)
        (eq if rng.random() < 0.5 else wc)[k].append(("ghost", i))
        r = run_impl(keys, eq, wc)
        e, w, idx = encode(keys, eq, wc)
        reqs.append({"op": "closure", "eq": e, "wc": w})
        impls.append({"err": "assert"} if "err" in r else {"ok": "unexpected"})
        res.count("malformed:non-key-neighbour")
    res.programs = len(reqs)
    if st.driver_ok:
        got = core.Driver().call_many(reqs)
        for rq, im, g in zip(reqs, impls, got):
            res.disagreements_checked += 1
            if "ok" in g:
                if not g.get("pre", False) and "ok" in im:
                    res.corr_breaks.append({"name": "Closure.preB", "input": rq, "model": "pre=false", "impl": "generator claims symmetric"})
                g = {"ok": sorted(g["ok"])}
            if g != im:
                res.corr_breaks.append({"name": "Closure.propagate", "input": rq, "model": g, "impl": im})
                if len(res.corr_breaks) > 5:
                    break
    return res


def replay(path):
    with open(path) as f:
        print(json.dumps(json.load(f), indent=1))
    return 0
