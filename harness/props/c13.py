"""C13 — parameterised templates compile like their hand-expanded form.

Theorems: PepperProps/C13.lean over PepperModel/Subst.lean (subst_is_expansion: process_list = the hand-expanded
file for every evaluator, template and environment whose substituted lines have flat braces; duplicate_is_product,
product_order, instances_newline_terminated, duplicate_recursion, arity_binding).
Correspondence: the real `var_substitute.process_list` vs model op `subst` on the same lines + environment, the
environment `load_component`/`load_system` hand to it vs model op `bind`.
Oracle (decides violations, on the real code only): (i) process_list(lines, params) must equal an independent hand
expansion written below (str.find / itertools.product / Python's eval); (ii) end to end, a parameterised .comp / .sys
template compiled with arguments must give the same .pil as the hand-expanded parameterless file, and a wrong number
of arguments must be rejected."""
import itertools
import json
import os
import re
import shutil

import core
from core import Result, quiet

LEVEL = "proof"
LEVEL_NOTE = ("theorem for every evaluator, every template and every environment (lines whose braces are flat after expression "
              "substitution); Python's eval/str are parameters of model and specification; the concrete integer evaluator of the "
              "driver, the regex reading of the model and the arity binding are tied to the code by correspondence")


# ------------------------------------------------------------------ the independent hand expansion (the oracle)

class NotFlat(Exception):
    pass


def err_class(e):
    if isinstance(e, SyntaxError):
        return "syntax"
    if isinstance(e, (NameError, TypeError)):   # unbound name: TypeError when __builtins__ is None (CPython >= 3.?)
        return "name"
    if isinstance(e, ZeroDivisionError):
        return "zerodiv"
    return "other:" + type(e).__name__


def value_of(src, env):
    return eval(src, {"__builtins__": None}, env)


def replace_expressions(body, env):
    out, pos = [], 0
    while True:
        i = body.find("<", pos)
        if i < 0:
            out.append(body[pos:])
            break
        j = i + 1
        while j < len(body) and body[j] not in "<>":
            j += 1
        if j < len(body) and body[j] == ">":
            out.append(body[pos:i])
            out.append(str(value_of(body[i + 1:j], env)))
            pos = j + 1
        else:                      # no closing '>' before the next '<' / the end: not an expression
            out.append(body[pos:j])
            pos = j
            if j >= len(body):
                break
    return "".join(out)


def pieces_of(text):
    """literal text and brace groups of a line with flat braces"""
    pieces, pos = [], 0
    while True:
        i, k = text.find("{", pos), text.find("}", pos)
        if i < 0:
            if k >= 0:
                raise NotFlat()
            pieces.append(text[pos:])
            return pieces
        if 0 <= k < i:
            raise NotFlat()
        j = text.find("}", i + 1)
        if j < 0 or "{" in text[i + 1:j]:
            raise NotFlat()
        pieces.append(text[pos:i])
        pieces.append(text[i + 1:j].split(","))
        pos = j + 1


def is_word(s):
    return bool(s) and all(c == "_" or (c.isascii() and c.isalnum()) for c in s)


def hand_expand(lines, params):
    """the file one would write by hand; raises the evaluation error, or NotFlat"""
    env = dict(params)
    out = []
    for raw in lines:
        body = raw[:-1] if raw.endswith("\n") else raw
        assert "\n" not in body
        body = body.split("#", 1)[0]
        words = body.split(None, 1)
        if len(words) == 2 and words[0] == "length" and body.lstrip()[6:7].isspace():
            lhs, eq, rhs = words[1].partition("=")
            if eq and is_word(lhs.strip()):
                env[lhs.strip()] = value_of(rhs.lstrip(), env)
                continue
        text = replace_expressions(body, env)
        pieces = pieces_of(text)
        groups = [p for p in pieces if isinstance(p, list)]
        block = []
        for combo in itertools.product(*groups):     # lexicographic, leftmost slowest
            it = iter(combo)
            block.append("".join(p if isinstance(p, str) else next(it) for p in pieces) + "\n")
        block = "".join(block)
        if block.strip():
            out.append(block)
    return "".join(out)


def oracle(lines, params):
    try:
        return {"ok": hand_expand(lines, params)}
    except NotFlat:
        return None
    except Exception as e:
        return {"err": err_class(e)}


def is_float_case(rq):
    env = rq.get("env") or {}
    if any(isinstance(v, (float, tuple, list)) for v in (env.values() if isinstance(env, dict) else [])):
        return True
    text = "".join(rq.get("lines") or [])
    return bool(re.search(r"<[^<>]*(\d\.\d|(?<!/)/(?!/))[^<>]*>", text)) or bool(re.search(r"length[^\n]*(\d\.\d|(?<!/)/(?!/))", text))


def run_impl(lines, params):
    from peppercompiler.var_substitute import process_list
    try:
        with quiet():
            return {"ok": process_list(list(lines), dict(params))}
    except BaseException as e:
        if isinstance(e, KeyboardInterrupt):
            raise
        return {"err": err_class(e)}


# ------------------------------------------------------------------ generators

PARAMS = ["n", "m", "t", "d", "i", "toe", "len_a", "N2"]
LENGTHS = ["k", "q", "left", "right", "tot", "k2", "_w"]
ALTS = ["X", "Y", "1", "2", "3", "a", "b*", "in", "", "", " ", "x y", "A1", "_0", "-"]
STATEMENTS = [
    'sequence a@E = "@EN" : @E', 'sequence @G = "@EN" : @E', 'sequence t = "?N" : @E', 'sequence @G@G = "12N"',
    'strand @G@G = a b* : @E', 'strand @G = @G "@EN" b : @E', 'strand Q = a@E* @G',
    'structure [no-opt] @G = X + Y : U@E H@E(+) U@E', 'structure @G = inX : @E. @E( @E. @E)', 'structure [@Ent] S = @G : @E.',
    'kinetic In@G + @G -> w@G', 'kinetic [@E /M/s] A -> B@G', 'component g@G = And22(@E, @E): x@G + y -> s',
    'component c = T(@E): x -> ', 'import @G', 'equal a@G b@E',
]
TEXTS = ["sequence ", "strand ", " = ", " : ", "a", "b*", " + ", " -> ", '"', 'N"', "U", "H", "(", ")", ".", " ", "\t", "x", ", ", "1", "-"]


def sp(rng):
    return rng.choice(["", "", "", " ", " ", "  ", "\t"])


def gen_expr(rng, names, depth):
    r = rng.random()
    if depth <= 0 or r < 0.35:
        if names and rng.random() < 0.65:
            return rng.choice(names)
        return str(rng.choice([0, 1, 1, 2, 2, 3, 4, 5, 7, 10, 12, 20, 100]))
    if r < 0.43:
        return rng.choice(["-", "- ", "+", "--"]) + gen_expr(rng, names, depth - 1)
    if r < 0.55:
        return "(" + sp(rng) + gen_expr(rng, names, depth - 1) + sp(rng) + ")"
    op = rng.choice(["+", "+", "-", "*", "//", "%"])
    if rng.random() < 0.04:
        return gen_expr(rng, names, depth - 1) + sp(rng) + rng.choice(["/ 2", "/ 4", "* 0.5", "+ 0.25", "* 1.5", "/ 3"])
    right = gen_expr(rng, names, depth - 1)
    if op in ("//", "%") and rng.random() < 0.97:
        right = rng.choice(["2", "3", "5", "(%s*%s+1)" % (right, right), "-2", "-3"])
    return gen_expr(rng, names, depth - 1) + sp(rng) + op + sp(rng) + right


def gen_slot_expr(rng, names):
    r = rng.random()
    if r < 0.012:
        return rng.choice(["zz", "n +", "(n", "n n", "", " ", "2 n", ")", "1 //", "* 2", "undefined_1", "(n))", "n -", "% n"])
    if r < 0.02:
        return rng.choice(["1//0", "n % 0", "1//0 + zz", "zz + 1//0", "(1//0", "5 // (n - n)"])
    return sp(rng) + gen_expr(rng, names, rng.randint(0, 3)) + sp(rng)


def gen_group(rng, names):
    alts = []
    for _ in range(rng.randint(1, 4)):
        a = rng.choice(ALTS)
        if rng.random() < 0.08:
            a += "<" + gen_slot_expr(rng, names) + ">"
        alts.append(a)
    return "{" + ",".join(alts) + "}"


def gen_line(rng, names):
    """returns (text without newline, kind)"""
    r = rng.random()
    if r < 0.07:
        return rng.choice(["", "", "   ", "\t", " \t "]), "blank"
    if r < 0.12:
        return sp(rng) + "#" + rng.choice([" comment", "{a,b}", " <n> and {x,y}", "# sequence a = \"5N\"", " length k = 3", ""]), "comment"
    if r < 0.16:
        return rng.choice(["{ ,  }", "{,}", "{,}{ ,}", "{a,}", "{,,}x", " { } ", "{}", "{}{}", "{\t}"]), "blank-expansion"
    if r < 0.19:
        return rng.choice(["a{b{c,d}e}f", "x}y{z", "{a,b", "a}", "{{a,b}}", "{a,{b}", "}{", "s{1,2}}", "p{q{r{1,2},3},4}"]), "non-flat"
    if r < 0.23:
        e = gen_slot_expr(rng, names)
        return rng.choice(["a < b", "x -> y <%s>" % e, "<<%s>>" % e, "a<%s b<%s>" % (e, e), "<%s> > <" % e, ">%s<" % e, "1 <%s" % e]), "stray-angle"
    if r < 0.27:
        return rng.choice(["lengthy k = 3", "length k 3", "length = 3", "length", "length ", "length k", "lengths = {1,2}",
                           "length a b = 3", "xlength k = 3", "length k == 3", "length k =", "length k = ", "length 2 = 1 + 1",
                           "length\tk2=4", "   length   k = 3 + 3   "]), "near-length"
    if r < 0.33:
        # the SAME group text more than once on a line: the expansion is still the full product, leftmost slowest
        g = gen_group(rng, names)
        e = "<" + gen_slot_expr(rng, names) + ">"
        t = [rng.choice(TEXTS) for _ in range(4)]
        return rng.choice([g + g, t[0] + g + t[1] + g + t[2], g + t[0] + g + g, t[0] + g + e + g, g + t[1] + gen_group(rng, names) + t[2] + g,
                           "sequence m" + g + g + " = \"" + e + "N\""]), "repeated-group"
    if r < 0.62:
        s = rng.choice(STATEMENTS)
    else:
        parts, ne, ng = [], rng.randint(0, 3), rng.randint(0, 3)
        slots = ["@E"] * ne + ["@G"] * ng
        rng.shuffle(slots)
        for sl in slots:
            for _ in range(rng.randint(0, 2)):
                parts.append(rng.choice(TEXTS))
            parts.append(sl)
        for _ in range(rng.randint(0, 3)):
            parts.append(rng.choice(TEXTS))
        s = "".join(parts)
    out = []
    for tok in re.split(r"(@E|@G)", s):
        if tok == "@E":
            out.append("<" + gen_slot_expr(rng, names) + ">")
        elif tok == "@G":
            out.append(gen_group(rng, names))
        else:
            out.append(tok)
    return "".join(out), "statement"


def gen_case(rng):
    params = {}
    for p in rng.sample(PARAMS, rng.randint(0, 3)):
        params[p] = rng.choice([0, 1, 2, 3, 4, 5, 6, 8, 10, 15, 20, -1, -7]) if rng.random() < 0.3 else rng.randint(1, 12)
    if rng.random() < 0.12:
        # float-valued arguments and true division: the value is spliced in as str(value), e.g. 1.5, 2500.75, 4.0 (legal where a
        # decimal is, e.g. in [<tol>nt] or [k > <rate> /M/s]); the model's integer evaluator answers `unsupported` for these
        for p in rng.sample(PARAMS, rng.randint(1, 2)):
            params[p] = rng.choice([1.5, 0.25, 2500.75, 2.0, 0.04, 12.75, -0.5])
    tup = None
    if rng.random() < 0.1:
        # a tuple-valued argument, used through subscripts `<toes[0]>` (any Python expression may stand between < and >); the model's
        # integer evaluator answers `unsupported` for these, the oracle evaluates them with Python
        tup = rng.choice(["toes", "lens", "pair"])
        params[tup] = tuple(rng.randint(1, 9) for _ in range(rng.randint(2, 3)))
    names = [k_ for k_ in params if k_ != tup]
    lines, kinds = [], []
    if tup is not None:
        k_ = rng.randrange(len(params[tup]))
        lines.append(rng.choice(['sequence s%d = "<%s[%d]>N" : <%s[%d]>' % (k_, tup, k_, tup, k_),
                                 'strand Z = a "<%s[%d] + %s[0]>S"' % (tup, k_, tup),
                                 'structure [<%s[-1]>nt] Q = Z : <%s[%d]>.' % (tup, tup, k_),
                                 'length w_%s = %s[%d] * 2' % (tup, tup, k_)]) + "\n")
        kinds.append("subscript")
    for _ in range(rng.randint(1, 12)):
        if rng.random() < 0.18:
            v = rng.choice(LENGTHS + names[:1]) if rng.random() < 0.9 else rng.choice(PARAMS)
            text = sp(rng) + "length" + rng.choice([" ", "  ", "\t"]) + v + sp(rng) + "=" + sp(rng) + gen_slot_expr(rng, names).strip(" \t")
            kind = "length"
            if v not in names:
                names.append(v)
        else:
            text, kind = gen_line(rng, names)
            if rng.random() < 0.2 and kind == "statement":
                text = rng.choice(["  ", "\t", " "]) + text
        if rng.random() < 0.22 and kind not in ("comment",):
            text += sp(rng) + "#" + rng.choice([" note", " {p,q} <n>", "", "# <", " }", " length z = 1"])
            kind += "+comment"
        lines.append(text + "\n")
        kinds.append(kind)
    if rng.random() < 0.5:
        lines[-1] = lines[-1][:-1]
        kinds.append("no-final-newline")
    else:
        kinds.append("final-newline")
    return lines, params, kinds


# ------------------------------------------------------------------ end to end: valid templates

def sym_expr(rng, syms, env, lo=1, hi=12):
    """an expression over the known symbols whose value lies in lo..hi"""
    for _ in range(40):
        a = rng.choice(syms)
        b = rng.choice(syms)
        c = str(rng.randint(1, 4))
        e = rng.choice([a, a, "%s+%s" % (a, b), "%s + %s" % (a, c), "%s*%s+1" % (a, c), " %s + %s // 2 " % (a, b), "(%s + %s) %% 5 + 1" % (a, b),
                        "%s - %s" % (a, b), "2 * %s" % a, "%s-%s+%s" % (a, b, c), "-(-%s)" % a, "%s %% %s + %s" % (a, c, c)])
        v = eval(e, {}, dict(env))
        if lo <= v <= hi:
            return e, v
    a = syms[0]
    return a, env[a]


def name_group(rng, base):
    """a name pattern and the names it expands to"""
    r = rng.random()
    if r < 0.4:
        return base, [base]
    if r < 0.6:
        return base + "{1,2}", [base + "1", base + "2"]
    if r < 0.7:
        return base + "{,2,x}", [base, base + "2", base + "x"]
    if r < 0.8:
        return "{%s,%sb}{x,y}" % (base, base), [base + "x", base + "y", base + "bx", base + "by"]
    if r < 0.85:
        return base + "{1,2}{1,2}", [base + "11", base + "12", base + "21", base + "22"]
    if r < 0.9:
        return base + "{}", [base]
    return "{%s}{_1}" % base, [base + "_1"]


def decorate(rng, body):
    out = []
    for l in body:
        if rng.random() < 0.15:
            out.append(rng.choice(["", "  ", "# a comment with {x,y} and <n>", "## Section", "\t"]))
        if rng.random() < 0.2:
            l += rng.choice(["  # note", " # {a,b}", "#<n>", "   "])
        out.append(l)
    text = [l + "\n" for l in out]
    if rng.random() < 0.5:
        text[-1] = text[-1][:-1]
    return text


def gen_component(rng, name, fixed_io=False):
    """-> (declare_with_params, declare_without, body_lines, params, args)"""
    if fixed_io:
        params = ["n", "m"]
    else:
        params = rng.sample(["n", "m", "t", "d", "toe"], rng.randint(1, 3))
    args = [rng.randint(1, 7) for _ in params]
    env = dict(zip(params, args))
    syms = list(params)
    body = []

    def new_length():
        cand = [v for v in ["k", "q", "left", "tot", "k2"] if v not in env]
        if not cand:
            return
        v = rng.choice(cand)
        e, val = sym_expr(rng, syms, env)
        body.append("length %s = %s" % (v, e))
        env[v] = val
        syms.append(v)
    for _ in range(rng.randint(0, 2)):
        new_length()
    seqs = {}     # expanded name -> (value, expression)
    plain = ["a", "b"] + rng.sample(["c", "s", "r"], rng.randint(0, 2))
    for i, base in enumerate(plain):
        if fixed_io and base == "a":
            e, v = "n", env["n"]
        elif fixed_io and base == "b":
            e, v = "m", env["m"]
        else:
            e, v = sym_expr(rng, syms, env)
        pat, names = (base, [base]) if i < 2 else name_group(rng, base)
        spec = rng.choice([' : <%s>' % e, ' : <%s>' % e, '', ' : <(%s)>' % e])
        body.append('sequence %s = "<%s>N"%s' % (pat, e, spec))
        for x in names:
            seqs[x] = (v, e)
    if rng.random() < 0.6:
        new_length()
    strands = {}
    for base in ["X", "Y", "Z"][:rng.randint(1, 3)]:
        doms, total, exprs = [], 0, []
        for _ in range(rng.randint(1, 3)):
            if rng.random() < 0.25:
                e, v = sym_expr(rng, syms, env, 1, 6)
                doms.append('"<%s>N"' % e)
            else:
                x = rng.choice(list(seqs))
                v, e = seqs[x]
                doms.append(x + rng.choice(["", "", "*"]))
            total += v
            exprs.append("(%s)" % e)
        pat, names = name_group(rng, base)
        if rng.random() < 0.3:     # a one-alternative group in the body does not multiply the line
            k = rng.randrange(len(doms))
            doms[k] = "{%s}" % doms[k]
        spec = rng.choice(["", " : <%s>" % "+".join(exprs), " : <%s>" % " + ".join(exprs)])
        body.append("strand %s = %s%s" % (pat, " ".join(doms), spec))
        for x in names:
            strands[x] = (total, "+".join(exprs))
    if rng.random() < 0.5:
        v, e = seqs["a"]
        body.append('strand hp = a "3N" a*')
        strands["hp"] = None
    structs = []
    for i in range(rng.randint(1, 3)):
        ss = rng.sample([x for x in strands if strands[x]], min(len([x for x in strands if strands[x]]), rng.randint(1, 2)))
        desc = " + ".join(rng.choice(["<%s>.", "<%s> .", "<%s - 1>. ."]) % strands[x][1]
                          if strands[x][0] > 1 else "<%s>." % strands[x][1] for x in ss)
        pat, names = name_group(rng, "S%d" % i)
        body.append("structure %s%s = %s : %s" % (rng.choice(["", "[no-opt] ", "[<%d>nt] " % rng.randint(0, 3)]), pat, " + ".join(ss), desc))
        structs += names
    if "hp" in strands:
        e = seqs["a"][1]
        body.append("structure Hp = hp : <%s>( 3. <%s>)" % (e, e))
        structs.append("Hp")
    if len(structs) >= 2 and rng.random() < 0.6:
        a, b = rng.sample(structs, 2)
        body.append("kinetic %s -> %s" % (a, b))
    head = "declare component %s(%s): a -> b" % (name, rng.choice([", ", ",", " , "]).join(params))
    head0 = "declare component %s: a -> b" % name
    return head, head0, decorate(rng, body), params, args


def gen_system(rng, name, comp):
    params = rng.sample(["n", "m", "t", "d"], rng.randint(1, 3))
    args = [rng.randint(1, 6) for _ in params]
    env = dict(zip(params, args))
    syms = list(params)
    body = ["import " + comp]
    for v in rng.sample(["k", "q", "w"], rng.randint(0, 2)):
        e, val = sym_expr(rng, syms, env)
        body.append("length %s = %s" % (v, e))
        env[v] = val
        syms.append(v)
    sig = [sym_expr(rng, syms, env)[0] for _ in range(rng.randint(2, 4))]
    # an instance argument is a Python expression of the system language; after the <...> parts are replaced by their values the rest
    # of the argument text (no ',' or ')': the grammar ends an argument there) stays as written ("all other text untouched") and is evaluated like in a hand-written file: Gate(6, 6*3)
    spellings = [["<%s>"], ["<%s>"], ["<%s>+1", "1 + <%s>"], ["<%s>*2", "2*<%s>", "<%s>+<%s>"], ["+<%s>", "<%s>", "<%s> ", "0+<%s>"], ["2*<%s>-1", "<%s>*2 - 1"]]
    forms = [rng.choice(spellings) for _ in sig]
    def arg(j):
        f = rng.choice(forms[j])
        return f.replace("%s", sig[j])
    for i in range(len(sig) - 1):
        pat, _ = name_group(rng, "g%d" % i)
        body.append("component %s = %s(%s, %s): x%d -> x%d" % (pat, comp, arg(i), arg(i + 1), i, i + 1))
    head = "declare system %s(%s): -> " % (name, ", ".join(params))
    head0 = "declare system %s: -> " % name
    return head, head0, decorate(rng, body), params, args


def renumber(text):
    seen = {}

    def f(m):
        return "_Anon#%d" % seen.setdefault(m.group(0), len(seen))
    return re.sub(r"_Anon\d+", f, text)


def compile_file(directory, base, args):
    """-> {"ok": pil text without its time-stamp line, _Anon renumbered} | {"err": "reject"}"""
    from peppercompiler.compiler import compiler
    out = os.path.join(directory, base + ".pil")
    if os.path.exists(out):
        os.remove(out)
    try:
        with quiet():
            compiler(os.path.join(directory, base), list(args), out, os.path.join(directory, base + ".save"), None, True, None)
        with open(out) as f:
            text = f.read()
    except BaseException as e:   # SystemExit from error(), assertion / parse failures
        if isinstance(e, KeyboardInterrupt):
            raise
        return {"err": "reject", "detail": "%s: %s" % (type(e).__name__, str(e)[:200])}
    return {"ok": renumber(text.split("\n", 1)[1] if "\n" in text else "")}


def compile_cli(directory, base, argstrs):
    """the same compile through the command-line entry point (compiler.main: option parsing, quickargs evaluation of the
    template arguments, file-name defaults) in a subprocess; -> like compile_file"""
    import subprocess, sys
    out = os.path.join(directory, base + ".pil")
    if os.path.exists(out):
        os.remove(out)
    env = dict(os.environ, PYTHONPATH=core.REPO, PYTHONDONTWRITEBYTECODE="1")
    p_ = subprocess.run([sys.executable, "-c", "from peppercompiler.compiler import main; main()", base] + list(argstrs),
                        cwd=directory, env=env, capture_output=True, text=True, timeout=300)
    if p_.returncode != 0 or not os.path.exists(out):
        return {"err": "reject", "detail": p_.stderr[-200:]}
    with open(out) as f:
        text = f.read()
    return {"ok": renumber(text.split("\n", 1)[1] if "\n" in text else "")}


class Spy:
    """records the environment load_component / load_system hand to process_list"""
    def __init__(self):
        import peppercompiler.component_parser as cp
        import peppercompiler.system_parser as sy
        self.mods = [cp, sy]
        self.seen = []

    def __enter__(self):
        self.orig = [m.process_list for m in self.mods]

        def make(orig):
            def spy(f, params):
                self.seen.append(dict(params))
                return orig(f, params)
            return spy
        for m, o in zip(self.mods, self.orig):
            m.process_list = make(o)
        return self

    def __exit__(self, *a):
        for m, o in zip(self.mods, self.orig):
            m.process_list = o


GATE = ['declare component Gate(n, m): a -> b\n', 'sequence a = "<n>N" : <n>\n', 'sequence b = "<m>N" : <m>\n',
        'strand A{,2} = a b\n', 'structure SA = A : <n+m>.\n', 'structure SA2 = A2 : <n> . <m>.']


def cli_text_arguments(res, rng, scratch_dir, n):
    """directed: template arguments that are TEXT (a constraint spelling such as 5S or 2W3S, a name) given on the command line.  What is
    not a Python expression arrives in the template as the text itself (`pepper-compiler T 5S 5`), exactly as the function API passes a
    string; both must compile like the hand-written file."""
    for k in range(n):
        L = rng.randint(2, 9)
        code = rng.choice(["%dS" % L, "%dW%dS" % (L - 1, 1) if L > 1 else "1S", "%dN" % L, "N" * L, "%dR" % L])
        d1 = os.path.join(scratch_dir, "cli%d" % k); d2 = os.path.join(scratch_dir, "clih%d" % k)
        os.makedirs(d1); os.makedirs(d2)
        # ... and a NAME given as text, also one that happens to begin like a Python module name (`sys-1` is not an expression that
        # evaluates: it arrives as the text)
        tag = ["sys-1", "A1", "re-2", "gate", "string-x", "os-3", "x_y"][k % 7]
        body = 'sequence a = "<code>" : <n>\nsequence b = "<n>N"\nstrand <tag> = a b\nstructure S = <tag> : <2*n>.\n'
        tmpl = "declare component T(code, n, tag): -> \n" + body
        hand = "declare component T: -> \n" + body.replace("<code>", code).replace("<tag>", tag).replace("<2*n>", str(2 * L)).replace("<n>", str(L))
        with open(os.path.join(d1, "T.comp"), "w") as f:
            f.write(tmpl)
        with open(os.path.join(d2, "T.comp"), "w") as f:
            f.write(hand)
        r_api = compile_file(d1, "T", [code, L, tag])
        r_hand = compile_file(d2, "T", [])
        r_cli = compile_cli(d1, "T", [code, str(L), tag])
        res.evaluations += 1
        res.count("e2e:command-line-text-argument")
        inp = {"template.comp": tmpl, "argv": [code, str(L), tag], "hand_expanded.comp": hand}
        if "ok" not in r_hand or r_api != r_hand:
            res.violations.append({"what": "template compiled with the text argument %r differs from its hand-expanded form" % code, "input": inp,
                                   "observed": r_api, "expected": r_hand, "sig": "C13:e2e-differs", "cmd": "compiler('T', [%r, %d], ...)" % (code, L)})
        elif r_cli != r_hand:
            res.violations.append({"what": "template compiled from the command line with the text argument %r differs from its hand-expanded form" % code,
                                   "input": inp, "observed": r_cli, "expected": r_hand.get("ok"), "sig": "C13:e2e-cli-args",
                                   "cmd": "cd <dir with T.comp>; pepper-compiler T %s %d %s" % (code, L, tag)})


def end_to_end(res, rng, scratch_dir, idx, kind, reqs, impls):
    d1 = os.path.join(scratch_dir, "t%d" % idx)
    d2 = os.path.join(scratch_dir, "h%d" % idx)
    os.makedirs(d1)
    os.makedirs(d2)
    if kind == "comp":
        head, head0, body, params, args = gen_component(rng, "T")
        ext = ".comp"
    else:
        head, head0, body, params, args = gen_system(rng, "T", "Gate")
        ext = ".sys"
        for d in (d1, d2):
            with open(os.path.join(d, "Gate.comp"), "w") as f:
                f.write("".join(GATE))
    pre = rng.choice(["", "", "# template\n", "\n", "## {a,b} <n>\n\n"])
    template = pre + head + "\n" + "".join(body)
    env = dict(zip(params, args))
    inp = {"template" + ext: template, "args": args}
    cmd = ("write template%s to T%s; peppercompiler.compiler.compiler('T', args, 'T.pil', 'T.save', None, True, None); "
           "same for the hand-expanded file with args []" % (ext, ext))
    res.evaluations += 1
    res.count("e2e:" + kind)
    try:
        hand_body = hand_expand(body, env)
    except Exception as e:   # the generator only builds valid templates
        raise RuntimeError("generator produced a template the oracle cannot expand: %r %r" % (e, template))
    if kind == "sys":
        # the hand-expanded PROGRAM has no template arguments anywhere: every instance `Gate(a, b)` refers to a hand-written
        # Gate_a_b.comp (one template instantiated with different arguments in one compile must give different components)
        tuples = []
        def inst(m):
            # the arguments of the hand-written line are integer arithmetic over literals: their values
            a_, b_ = (int(eval(m.group(k), {"__builtins__": {}}, {})) for k in (1, 2))
            if (a_, b_) not in tuples:
                tuples.append((a_, b_))
            if not re.fullmatch(r"\s*-?\d+\s*", m.group(1)) or not re.fullmatch(r"\s*-?\d+\s*", m.group(2)):
                res.count("e2e:sys:instance-argument-is-arithmetic-after-substitution")
            return "= Gate_%d_%d:" % (a_, b_)
        hb2 = re.sub(r"=\s*Gate\(([-+*\d\s()]+),([-+*\d\s()]+)\)\s*:", inst, hand_body)
        if tuples and "Gate(" not in hb2:
            hand_body = re.sub(r"^(\s*)import Gate\s*$", lambda m: m.group(1) + "import " + ", ".join("Gate_%d_%d" % t for t in tuples), hb2, flags=re.M)
            for (a_, b_) in tuples:
                gtext = "declare component Gate_%d_%d: a -> b\n" % (a_, b_) + hand_expand(GATE[1:], {"n": a_, "m": b_})
                with open(os.path.join(d2, "Gate_%d_%d.comp" % (a_, b_)), "w") as f:
                    f.write(gtext)
                inp["hand_expanded Gate_%d_%d.comp" % (a_, b_)] = gtext
            res.count("e2e:sys:distinct-argument-tuples-of-one-template:%d" % min(len(tuples), 4))
    hand = pre + head0 + "\n" + hand_body
    inp["hand_expanded" + ext] = hand
    with open(os.path.join(d1, "T" + ext), "w") as f:
        f.write(template)
    with open(os.path.join(d2, "T" + ext), "w") as f:
        f.write(hand)
    with Spy() as spy:
        r1 = compile_file(d1, "T", args)
    top_env = spy.seen[0] if spy.seen else None
    r2 = compile_file(d2, "T", [])
    if idx % 10 == 3 and "ok" in r1:
        # the command line: arguments arrive as text and are evaluated (`pepper-compiler T 2*3 4`); spelled as arithmetic here
        spell = lambda v: rng.choice(["%d" % v, "%d+%d" % (v - 1, 1), "%d*1" % v, "2*%d-%d" % (v, v), " %d" % v])
        argstrs = [spell(a_) for a_ in args]
        rc_ = compile_cli(d1, "T", argstrs)
        res.evaluations += 1
        res.count("e2e:command-line-arguments")
        if rc_ != r1:
            res.violations.append({"what": "template compiled from the command line with arguments %r differs from the compile with the values %r" % (argstrs, args),
                                   "input": dict(inp, argv=argstrs), "observed": rc_, "expected": r1["ok"], "sig": "C13:e2e-cli-args",
                                   "cmd": "cd <dir with T%s>; pepper-compiler T %s" % (ext, " ".join(argstrs))})
    if "ok" in r1 and "ok" in r2:
        res.count("e2e:both-compile")
        res.nontriv(inp)
        if r1["ok"] != r2["ok"]:
            res.violations.append({"what": "template compiled with arguments differs from its hand-expanded form", "input": inp,
                                   "observed": r1["ok"], "expected": r2["ok"], "sig": "C13:e2e-differs", "cmd": cmd})
    elif "ok" in r2:
        res.violations.append({"what": "hand-expanded file compiles but the template with arguments is rejected", "input": inp,
                               "observed": r1, "expected": r2["ok"], "sig": "C13:e2e-template-rejected", "cmd": cmd})
    elif "ok" in r1:
        res.violations.append({"what": "template with arguments compiles but its hand-expanded form is rejected", "input": inp,
                               "observed": r1["ok"], "expected": r2, "sig": "C13:e2e-hand-rejected", "cmd": cmd})
    else:
        res.count("e2e:both-rejected")
        res.notes.append("both forms rejected: %s | %s" % (r1.get("detail"), template[:300])) if len(res.notes) < 5 else None
    # the environment handed to process_list is zip(params, args)
    if top_env is not None:
        reqs.append({"op": "bind", "params": params, "args": args})
        impls.append({"ok": sorted([k, v] for k, v in top_env.items())})
        if top_env != env:
            res.violations.append({"what": "parameters are not bound to the arguments in order", "input": inp, "observed": top_env,
                                   "expected": env, "sig": "C13:binding", "cmd": cmd})
    # wrong arity must be rejected (both ways)
    for wrong in (args[:-1], args + [rng.randint(1, 5)]):
        res.evaluations += 1
        res.count("e2e:wrong-arity")
        with Spy() as spy:
            rw = compile_file(d1, "T", wrong)
        if "ok" in rw or spy.seen:
            res.violations.append({"what": "template with %d parameters accepted %d arguments" % (len(params), len(wrong)),
                                   "input": dict(inp, args=wrong), "observed": rw, "sig": "C13:arity-accepted", "cmd": cmd})
        reqs.append({"op": "bind", "params": params, "args": wrong})
        impls.append({"err": "arity"} if "err" in rw else {"ok": "accepted"})
    rw = compile_file(d2, "T", [rng.randint(1, 5)])
    if "ok" in rw:
        res.violations.append({"what": "parameterless file accepted an argument", "input": dict(inp, args=[1]), "observed": rw,
                               "sig": "C13:arity-accepted", "cmd": cmd})
    # the body through the model
    reqs.append({"op": "instantiate", "params": params, "args": args, "lines": body})
    impls.append(run_impl(body, env))
    if idx < 2:
        res.sample({"template": template, "args": args, "hand_expanded": hand})
    shutil.rmtree(d1, ignore_errors=True)
    shutil.rmtree(d2, ignore_errors=True)


# ------------------------------------------------------------------ the check

def check_case(res, lines, params, kinds, reqs, impls, tag):
    res.evaluations += 1
    r = run_impl(lines, params)
    exp = oracle(lines, params)
    inp = {"lines": lines, "params": params}
    cmd = "from peppercompiler.var_substitute import process_list; process_list(list(lines), dict(params))"
    for k in set(kinds):
        res.count(k)
    res.count("flat" if exp is not None else "not-flat(no oracle)")
    if exp is not None:
        res.count("result:" + ("ok" if "ok" in exp else exp["err"]))
        if r != exp:
            what = "process_list differs from the hand expansion"
            sig = "C13:hand-expansion"
            if "ok" in r and "ok" in exp and r["ok"].replace("\n", "") == exp["ok"].replace("\n", ""):
                what += " (line breaks only)"
                sig = "C13:line-breaks"
            elif "ok" in r and "ok" in exp and sorted(r["ok"].split("\n")) == sorted(exp["ok"].split("\n")):
                what += " (order of the instances)"
                sig = "C13:order"
            res.violations.append({"what": what, "input": inp, "observed": r, "expected": exp, "sig": sig, "cmd": cmd})
        if "ok" in exp and any("<" in l for l in lines) and re.search(r"\{[^{}]*,[^{}]*\}", "".join(l.split("#")[0] for l in lines)):
            res.nontriv(inp)
            if tag < 3:
                res.sample({"lines": lines, "params": params, "hand_expansion": exp["ok"]})
    reqs.append({"op": "subst", "lines": lines, "env": params, "_flat": exp is not None, "_spec": exp})
    impls.append(r)


def run(st, tier, seed):
    import peppercompiler.system_parser  # noqa: F401  (pyparsing white space as in a real compile)
    res = Result("C13")
    res.rule = ("templates of 1-12 lines drawn from component/system statement shapes and free mixtures of text, 0-3 <expression>s "
                "(integer expressions over parameters and earlier lengths: + - * // % unary minus parentheses blanks; a few unbound names, "
                "syntax errors, divisions by zero) and 0-3 {groups} of 1-4 alternatives (empty, blank, with expressions inside) per line; "
                "length chains, shadowing, near-miss length lines, comments containing < { #, blank and all-blank expansions, stray < > "
                "and (no oracle, correspondence only) nested / stray braces; last line with and without newline; 0-3 integer parameters. "
                "End to end: valid parameterised .comp and .sys templates vs their hand-expanded parameterless files, wrong arity both "
                "ways. non-trivial = accepted template with at least one expression and one multi-alternative group; distinct by content")
    res.assumptions.append("Python's eval and str are parameters of the theorems; the model evaluator evalInt covers integer literals, "
                           "bound names, + - * // %, unary +/-, parentheses and blanks (everything else is reported as 'unsupported' and "
                           "not compared); non-ASCII white space follows str.isspace, non-ASCII letters in length names are outside the model")
    rng = core.rng_for(seed, "c13")
    reqs, impls = [], []
    n = 4000 if tier == "quick" else 120000
    for i in range(n):
        lines, params, kinds = gen_case(rng)
        check_case(res, lines, params, kinds, reqs, impls, i)
    # hand-written corner cases
    fixed = [
        (["strand {X,Y}{1,2} = a b*"], {}), (["strand {X,Y}{1,2} = a b*\n"], {}), (["{a,b}"], {}), (["{a,b}\n", "{c,d}"], {}),
        (["length k = n * 2 + 1\n", "length j = k - 1\n", "s<j> {a,b}{<k>,<n>}"], {"n": 3}), (["<n>{<n>,<n+1>}<n>"], {"n": -2}),
        (["a\n", "\n", "  \n", "b"], {}), ([], {}), ([""], {}), (["#"], {}), (["<-7//2> <-7%3> <7%-3> <7//-2> <-(2--3)*+4>"], {}),
        (["length n = n + 1\n", "<n>\n", "length n = n * n\n", "<n>"], {"n": 2}), (["{,}\n", "{ , }x"], {}),
        (["I have {two,three,four} apples worth $<(3-5+17)//4>."], {}),
    ]
    for i, (lines, params) in enumerate(fixed):
        check_case(res, lines, params, ["fixed"], reqs, impls, 10 ** 6)
    # end to end
    m_comp, m_sys = (150, 50) if tier == "quick" else (4000, 1500)
    with core.scratch("pepper_c13_") as sd:
        for i in range(m_comp):
            end_to_end(res, rng, sd, i, "comp", reqs, impls)
        for i in range(m_sys):
            end_to_end(res, rng, sd, m_comp + i, "sys", reqs, impls)
        cli_text_arguments(res, rng, sd, 6 if tier == "quick" else 60)
    res.programs = len(reqs)
    if st.driver_ok:
        send = [{k: v for k, v in r.items() if not k.startswith("_")} for r in reqs]
        spec_idx = [i for i, r in enumerate(reqs) if r.get("_flat") and (tier != "quick" or i % 3 == 0) and not is_float_case(r)]
        send += [dict(send[i], op="subst-spec") for i in spec_idx]
        got = core.Driver().call_many(send)
        for i, (rq, im, g) in enumerate(zip(reqs, impls, got)):
            res.disagreements_checked += 1
            if g.get("err") == "unsupported":
                res.count("model:unsupported(not compared)")
                continue
            if is_float_case(rq):
                # floats are outside the model's evaluator (evalInt); the oracle on the real code above still judges these cases
                res.count("model:float-case(not compared)")
                continue
            name = "Subst." + {"subst": "processList", "bind": "bindArgs", "instantiate": "instantiate"}[rq["op"]]
            g2 = {k: v for k, v in g.items() if k != "flat"}
            if rq["op"] == "bind" and "ok" in g2:
                g2 = {"ok": sorted(g2["ok"])}
            if g2 != im:
                res.corr_breaks.append({"name": name, "input": send[i], "model": g, "impl": im})
            elif rq["op"] == "subst" and "ok" in g and g.get("flat") != rq["_flat"]:
                res.corr_breaks.append({"name": "Subst.FlatBraces", "input": send[i], "model": g.get("flat"), "impl": rq["_flat"]})
            if len(res.corr_breaks) > 5:
                break
        # the Lean specification handExpand against the harness oracle (ties the specification to the oracle)
        for i, g in zip(spec_idx, got[len(reqs):]):
            res.disagreements_checked += 1
            if g.get("err") == "unsupported":
                continue
            if g != reqs[i]["_spec"]:
                res.corr_breaks.append({"name": "Subst.handExpand-vs-oracle", "input": send[i], "model": g, "impl": reqs[i]["_spec"]})
                if len(res.corr_breaks) > 5:
                    break
    return res


def replay(path):
    with open(path) as f:
        body = json.load(f)
    print(json.dumps(body, indent=1))
    inp = body.get("input") or {}
    if "lines" in inp:
        r, exp = run_impl(inp["lines"], inp["params"]), oracle(inp["lines"], inp["params"])
        print("process_list now:", json.dumps(r))
        print("hand expansion  :", json.dumps(exp))
        return 0 if (exp is None or r == exp) else 1
    return 0
