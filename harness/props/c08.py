"""C08 — all secondary-structure notations denote the same nucleotide-level structure.

Theorems: PepperProps/C08.lean over PepperModel/Notation.lean.  Correspondence: the real
parse_structure_statement / HU2dotParen / extended2dotParen / dotParen2HU / Component.add_structure
vs the model ops.  Oracle: every spelling of a generated structure tree must compile (on the real
code) to the tree's dot-paren string; balanced strings must survive dp -> HU -> dp; unbalanced or
wrongly sized descriptions must be rejected."""
import itertools
import json

import core
from core import Result, quiet

LEVEL = "proof"
LEVEL_NOTE = ("theorems at token/AST level for all structures (parser exactness, HU round trip, balance of every accepted output); "
              "text-level tokenisation proved for canonical spacing, other spacings by correspondence")


def impl_setup():
    import peppercompiler.system_parser  # establishes pyparsing's " \t" white space like a real compile
    from peppercompiler import utils
    utils.DEBUG = True


def call(fn, *a):
    try:
        with quiet():
            return {"ok": fn(*a)}
    except BaseException as e:  # SystemExit from error(), pyparsing exceptions, assertions
        if isinstance(e, KeyboardInterrupt):
            raise
        return {"err": "reject"}


# ---------------------------------------------------------------- structure trees and spellings

def gen_tree(rng, budget, depth, top=True, strands_left=None):
    """list of nodes: '.', '+', ('p', inner)"""
    out = []
    n = rng.randint(0 if not top else 1, 4)
    for _ in range(n):
        if budget[0] <= 0:
            break
        r = rng.random()
        if r < 0.45:
            k = rng.randint(1, 4)
            out += ["."] * k; budget[0] -= k
        elif r < 0.55 and strands_left[0] > 0:
            out.append("+"); strands_left[0] -= 1
        elif depth > 0:
            k = rng.randint(1, 4)  # a helix of k stacked pairs
            inner = gen_tree(rng, budget, depth - 1, False, strands_left)
            node = inner
            for _ in range(k):
                node = [("p", node)]
                budget[0] -= 2
            out += node
        else:
            out.append("."); budget[0] -= 1
    return out


def flat(t):
    s = []
    for x in t:
        if isinstance(x, tuple):
            s.append("(" + flat(x[1]) + ")")
        else:
            s.append(x)
    return "".join(s)


def sp(rng, must=False):
    r = rng.random()
    if must:
        return rng.choice([" ", "  ", "\t", " \t "])
    return "" if r < 0.4 else rng.choice([" ", "  ", "\t"])


def spell_hu(rng, t):
    toks = []
    i = 0
    while i < len(t):
        x = t[i]
        if rng.random() < 0.07:
            toks.append("U0")
        if rng.random() < 0.05:
            # H0( ... ) around the next few terms expands to just them
            j = rng.randint(i, len(t))
            toks.append("H0(" + sp(rng) + spell_hu(rng, t[i:j]) + sp(rng) + ")")
            i = j
            continue
        if x == ".":
            j = i
            while j < len(t) and t[j] == ".":
                j += 1
            run = j - i
            k = rng.randint(1, run)  # split the run
            toks.append("U" + sp(rng) * (rng.random() < 0.2) + str(k).zfill(rng.choice([1, 1, 1, 2])))
            i += k
        elif x == "+":
            toks.append("+"); i += 1
        else:
            # collapse a chain of singly nested pairs up to a random depth
            depth, inner = 1, x[1]
            while len(inner) == 1 and isinstance(inner[0], tuple) and rng.random() < 0.8:
                depth += 1; inner = inner[0][1]
            toks.append("H%d" % depth + sp(rng) + "(" + sp(rng) + spell_hu(rng, inner) + sp(rng) + ")")
            i += 1
    out = ""
    for tk in toks:
        out += tk + sp(rng)
    return out


def spell_runlength(rng, s):
    out = ""
    i = 0
    while i < len(s):
        j = i
        while j < len(s) and s[j] == s[i]:
            j += 1
        k = rng.randint(1, j - i)
        if rng.random() < 0.05:
            out += "0" + rng.choice(".()+") + sp(rng)
        if k == 1 and rng.random() < 0.6:
            out += s[i]
        else:
            out += str(k) + sp(rng) * (rng.random() < 0.3) + s[i]
        out += sp(rng)
        i += k
    return out


def spell_plain(rng, s):
    return "".join(c + (" " if rng.random() < 0.1 else "") for c in s)


def has_letters(s):
    return "U" in s or "H" in s


# ---------------------------------------------------------------- checks

def stmt(text, domain=False):
    return "structure X = A : %s%s" % ("domain " if domain else "", text)


def run(st, tier, seed):
    impl_setup()
    from peppercompiler.component_parser_regex import parse_structure_statement
    from peppercompiler.HU2dotParen import HU2dotParen, extended2dotParen, dotParen2HU
    from peppercompiler.component_class import Component
    res = Result("C08")
    res.rule = ("random balanced multi-strand trees (<=6 strands, depth<=8, <=120 nt) x {HU with random helix splitting/U0/H0, run-length "
                "with random run splitting/zero counts, plain} x random spacing; domain-level with consistent and inconsistent length "
                "assignments; exhaustive strings over .()+ up to a length bound for round trip and rejection. non-trivial = tree "
                "with at least one pair and one unpaired base; distinct by (tree, spelling)")
    rng = core.rng_for(seed, "c08")
    N = 250 if tier == "quick" else 5000
    reqs, impls = [], []

    def both(op, s, impl_fn, *extra):
        reqs.append(dict({"op": op, "s": s}, **(extra[0] if extra else {})))
        impls.append(impl_fn())

    for i in range(N):
        t = gen_tree(rng, [rng.randint(1, 120)], rng.randint(0, 8), True, [rng.randint(0, 5)])
        s = flat(t)
        if not s:
            continue
        nontriv = "(" in s and "." in s
        for kind, text in (("hu", spell_hu(rng, t)), ("rl", spell_runlength(rng, s)), ("plain", spell_plain(rng, s))):
            text = text.strip()
            if not text:
                continue
            res.evaluations += 1
            res.count("spelling:" + kind)
            r = call(lambda: parse_structure_statement(stmt(text))[3][1])
            if kind != "hu" and has_letters(text):
                continue
            if r != {"ok": s}:
                res.violations.append({"what": "%s spelling does not compile to the structure it spells" % kind,
                                       "input": {"statement": stmt(text)}, "expected": s, "observed": r, "sig": "C08:spelling:" + kind,
                                       "cmd": "peppercompiler.component_parser_regex.parse_structure_statement(statement)"})
            if nontriv:
                res.nontriv((s, kind, text))
            reqs.append({"op": "notation", "s": text}); impls.append(r)
            if i < 2:
                res.sample({"tree": s, kind: text})
        # round trip on the real code
        res.evaluations += 1
        hu = call(dotParen2HU, s)
        back = call(HU2dotParen, hu["ok"]) if "ok" in hu else hu
        if back != {"ok": s}:
            res.violations.append({"what": "HU2dotParen(dotParen2HU(s)) != s", "input": {"s": s}, "observed": [hu, back],
                                   "sig": "C08:roundtrip", "cmd": "peppercompiler.HU2dotParen"})
        reqs.append({"op": "dp2hu", "s": s}); impls.append(hu)
        # malformed HU: a surplus closing bracket / a stray token after a complete description must be rejected, not cut off
        if i % 3 == 0:
            hu_ok = spell_hu(rng, t).strip()
            if hu_ok:
                bad_hu = hu_ok + rng.choice([")", " )", ") U3", " ) + U2", "))", " ( ", ") H2(U3)"])
                rbh = call(lambda: parse_structure_statement(stmt(bad_hu))[3][1])
                res.evaluations += 1
                res.count("malformed:hu-surplus-token")
                if "ok" in rbh and ("U" in bad_hu or "H" in bad_hu):
                    res.violations.append({"what": "an HU description with a surplus bracket / token after a complete description was accepted (as %r)" % rbh["ok"],
                                           "input": {"statement": stmt(bad_hu)}, "observed": rbh, "sig": "C08:accept-hu-surplus",
                                           "cmd": "peppercompiler.component_parser_regex.parse_structure_statement(statement)"})
        # malformed: damage one parenthesis -> must be rejected
        if "(" in s:
            pos = rng.choice([k for k, c in enumerate(s) if c in "()"])
            bad = s[:pos] + rng.choice(["", ".", ")" if s[pos] == "(" else "("]) + s[pos + 1:]
            if bad:
                rb = call(lambda: parse_structure_statement(stmt(spell_runlength(rng, bad).strip() or bad))[3][1])
                res.evaluations += 1
                res.count("malformed:unbalanced")
                if "ok" in rb:
                    res.violations.append({"what": "unbalanced structure accepted", "input": {"s": bad}, "observed": rb,
                                           "sig": "C08:accept-unbalanced", "cmd": "parse_structure_statement"})

    # domain level through the real Component
    M = 150 if tier == "quick" else 3000
    for i in range(M):
        t = gen_tree(rng, [rng.randint(1, 14)], rng.randint(0, 4), True, [rng.randint(0, 3)])
        d = flat(t)
        if not d or d.startswith("+") or d.endswith("+") or "++" in d:
            continue
        # lengths: consistent on pairs, unless we deliberately break one
        lens = {}
        stack = []
        for k, c in enumerate(d):
            if c == "(":
                stack.append(k); lens[k] = rng.randint(0, 6)
            elif c == ")":
                lens[k] = lens[stack.pop()]
            elif c == ".":
                lens[k] = rng.randint(0, 6)
        broken = rng.random() < 0.4 and "(" in d
        if broken:
            closes = [k for k, c in enumerate(d) if c == ")"]
            opens = [k for k, c in enumerate(d) if c == "("]
            if rng.random() < 0.5 and len(closes) >= 2:
                # lengths that cancel overall: exchange the lengths of two closing (or two opening) domains
                ks = rng.sample(closes if rng.random() < 0.5 else opens, 2)
                if lens[ks[0]] == lens[ks[1]]:
                    lens[ks[0]] += rng.randint(1, 3)
                    lens[[k for k in (opens + closes) if k not in ks][0] if len(opens + closes) > 2 else ks[1]] += 0
                lens[ks[0]], lens[ks[1]] = lens[ks[1]], lens[ks[0]]
                res.count("domain-level:lengths-exchanged")
            else:
                k = rng.choice(opens + closes)
                lens[k] += rng.randint(1, 3)
        segs = d.split("+")
        doms, pos = [], 0
        for sg in segs:
            doms.append([lens[pos + k] for k in range(len(sg))]); pos += len(sg) + 1
        if any(sum(x) == 0 for x in doms):
            continue
        expected = "+".join("".join(c * n for c, n in zip(sg, dm)) for sg, dm in zip(segs, doms))

        # how each domain is written: a base sequence, a super-sequence of several base pieces (ONE domain symbol all the same), a
        # quoted region, or (once per strand, with the strand's length declared) a `?` region
        reps = []
        for dm in doms:
            rr, wild = [], False
            for n in dm:
                x = rng.random()
                if x < 0.55:
                    rr.append(("base",))
                elif x < 0.8:
                    cuts = sorted(rng.randint(0, n) for _ in range(rng.choice([1, 1, 2])))
                    rr.append(("sup", [b_ - a_ for a_, b_ in zip([0] + cuts, cuts + [n])]))
                elif x < 0.9 or wild or n == 0:
                    rr.append(("quoted",))
                else:
                    rr.append(("wild",)); wild = True
            reps.append(rr)

        opt_ = rng.choice([1.0, 1.0, 0, 0.0, 2.5])     # the optimisation parameter ([no-opt] = 0) has no say in what is a well-formed structure

        def build(doms=doms, reps=reps):
            comp = Component("c", "", [])
            names = []
            for si, dm in enumerate(doms):
                ds = []
                for di, n in enumerate(dm):
                    nm = "d%d_%d" % (si, di)
                    rp = reps[si][di]
                    if rp[0] == "base":
                        comp.add_sequence(nm, [[n, "N"]], None)
                        ds.append(["sequence", [nm, False]])
                    elif rp[0] == "sup":
                        for pi, pn in enumerate(rp[1]):
                            comp.add_sequence("%s_p%d" % (nm, pi), [[pn, "N"]], None)
                        comp.add_super_sequence(nm, [["sequence", ["%s_p%d" % (nm, pi), False]] for pi in range(len(rp[1]))], None)
                        ds.append(["sequence", [nm, False]])
                    elif rp[0] == "quoted":
                        ds.append(["nucleotide", [[n, "N"]]])
                    else:
                        ds.append(["nucleotide", [["?", "N"]]])
                comp.add_strand(False, "S%d" % si, ds, sum(dm) if any(r_[0] == "wild" for r_ in reps[si]) else None)
                names.append("S%d" % si)
            dp = parse_structure_statement(stmt(spell_plain(rng, d), True))[3]
            comp.add_structure(opt_, "X", names, dp)
            return comp.structs["X"].struct
        r = call(build)
        res.evaluations += 1
        res.count("domain-level:" + ("inconsistent" if broken else "consistent"))
        cmd = "Component.add_structure with domain lengths %r written as %r and 'domain %s'" % (doms, reps, d)
        if not broken and r != {"ok": expected}:
            res.violations.append({"what": "domain-level description with consistent lengths does not expand to its structure",
                                   "input": {"domain_struct": d, "domain_lengths": doms, "domains_written_as": reps}, "expected": expected, "observed": r,
                                   "sig": "C08:domain", "cmd": cmd})
        if "ok" in r:
            s2 = r["ok"]
            depth, ok = 0, True
            for c in s2:
                depth += (c == "(") - (c == ")")
                ok = ok and depth >= 0
            ok = ok and depth == 0 and [len(x) for x in s2.split("+")] == [sum(x) for x in doms]
            if not ok:
                res.violations.append({"what": "accepted domain-level structure is unbalanced or wrongly sized",
                                       "input": {"domain_struct": d, "domain_lengths": doms}, "observed": r, "sig": "C08:domain-unbalanced", "cmd": cmd})
        res.nontriv(("dom", d, str(doms)))
        reqs.append({"op": "domain-expand", "s": d, "doms": doms}); impls.append(r)
        if i < 2:
            res.sample({"domain_struct": d, "domain_lengths": doms, "impl": r})
        # the same description over the same strands (same component / strand names, same strand lengths) with the domain boundaries
        # moved: what was expanded before in this process must not matter
        if not broken:
            cand = [(si, [k for k, c in enumerate(sg) if c == "."]) for si, sg in enumerate(segs)]
            cand = [(si, ks) for si, ks in cand if len(ks) >= 2 and sum(doms[si][k] for k in ks) >= 1]
            if cand:
                si, ks = rng.choice(cand)
                doms2 = [list(x) for x in doms]
                for _ in range(8):
                    a_, b_ = rng.sample(ks, 2)
                    if doms2[si][a_] > 0:
                        mv = rng.randint(1, doms2[si][a_])
                        doms2[si][a_] -= mv; doms2[si][b_] += mv
                        break
                if doms2 != doms:
                    reps2 = [[("base",) if rng.random() < 0.7 else ("quoted",) for _ in dm] for dm in doms2]
                    expected2 = "+".join("".join(c * n for c, n in zip(sg, dm)) for sg, dm in zip(segs, doms2))
                    r2 = call(lambda: build(doms2, reps2))
                    res.evaluations += 1
                    res.count("domain-level:same-strands-other-domain-boundaries")
                    if r2 != {"ok": expected2}:
                        res.violations.append({"what": "domain-level description does not expand to its structure when the same strands were "
                                                       "expanded with other domain boundaries earlier in the process",
                                               "input": {"domain_struct": d, "first_domain_lengths": doms, "then_domain_lengths": doms2},
                                               "expected": expected2, "observed": r2, "sig": "C08:domain-history",
                                               "cmd": "Component('c').add_structure(... 'domain %s') with domain lengths %r, then a new Component('c') with %r" % (d, doms, doms2)})
                    reqs.append({"op": "domain-expand", "s": d, "doms": doms2}); impls.append(r2)

    # wrongly sized: a strand of the wrong length must be rejected (Structure.__init__)
    for i in range(40 if tier == "quick" else 400):
        n = rng.randint(1, 12); delta = rng.choice([-1, 1, 2])
        if n + delta <= 0:
            continue

        def build2():
            comp = Component("c", "", [])
            comp.add_sequence("a", [[n + delta, "N"]], None)
            comp.add_strand(False, "A", [["sequence", ["a", False]]], None)
            comp.add_structure(1.0, "X", ["A"], parse_structure_statement(stmt("." * n))[3])
            return comp.structs["X"].struct
        r = call(build2)
        res.evaluations += 1
        res.count("malformed:wrong-size")
        if "ok" in r:
            res.violations.append({"what": "structure of length %d accepted for a strand of length %d" % (n, n + delta),
                                   "input": {"n": n, "strand": n + delta}, "sig": "C08:wrong-size", "cmd": "Component.add_structure"})

    # wrongly sized, multi-strand: a description with one strand break too many / too few / moved (in any spelling), compiled
    # against strands of the ORIGINAL lengths, must be rejected — or, if it is accepted, what comes out must be balanced with
    # exactly one segment per strand of that strand's length
    for i in range(60 if tier == "quick" else 1200):
        t = gen_tree(rng, [rng.randint(2, 40)], rng.randint(0, 4), True, [rng.randint(1, 3)])
        s0 = flat(t)
        lens0 = [len(x) for x in s0.split("+")]
        if not s0 or 0 in lens0:
            continue
        kind = rng.choice(["plain", "rl", "hu"])
        text = {"plain": spell_plain, "rl": spell_runlength}[kind](rng, s0).strip() if kind != "hu" else spell_hu(rng, t).strip()
        how = rng.choice(["double-break", "leading-break", "trailing-break", "extra-break", "drop-break", "move-break"])
        plus = [k for k, c in enumerate(text) if c == "+"]
        if how == "double-break" and plus:
            k = rng.choice(plus); bad = text[:k] + "+ +" + text[k + 1:]
        elif how == "leading-break":
            bad = "+ " + text
        elif how == "trailing-break":
            bad = text + " +"
        elif how == "extra-break":
            k = rng.randint(0, len(text)); bad = text[:k] + " + " + text[k:]
        elif how == "drop-break" and plus:
            k = rng.choice(plus); bad = text[:k] + " " + text[k + 1:]
        elif how == "move-break" and plus and kind == "plain":
            k = rng.choice(plus); t2 = text[:k] + text[k + 1:]; k2 = max(0, min(len(t2), k + rng.choice([-2, -1, 1, 2]))); bad = t2[:k2] + "+" + t2[k2:]
        else:
            continue

        def build3():
            comp = Component("c", "", [])
            names = []
            for si, n in enumerate(lens0):
                comp.add_sequence("a%d" % si, [[n, "N"]], None)
                comp.add_strand(False, "A%d" % si, [["sequence", ["a%d" % si, False]]], None)
                names.append("A%d" % si)
            comp.add_structure(1.0, "X", names, parse_structure_statement(stmt(bad))[3])
            return comp.structs["X"].struct
        r = call(build3)
        res.evaluations += 1
        res.count("malformed:strand-breaks:" + how)
        if "ok" in r:
            s2 = r["ok"]
            depth, ok = 0, True
            for c in s2:
                depth += (c == "(") - (c == ")")
                ok = ok and depth >= 0
            if not (ok and depth == 0 and [len(x) for x in s2.split("+")] == lens0):
                res.violations.append({"what": "a description whose strand breaks do not fit the strands (%s) was accepted as %r for strands of lengths %r" % (how, s2, lens0),
                                       "input": {"statement": stmt(bad), "strand_lengths": lens0}, "observed": r, "sig": "C08:strand-breaks",
                                       "cmd": "Component.add_structure(…, parse_structure_statement(statement)) on strands of these lengths"})

    # exhaustive strings over .()+
    L = 7 if tier == "quick" else 9
    nb = 0
    for l in range(1, L + 1):
        for tup in itertools.product(".()+", repeat=l):
            s = "".join(tup)
            depth, ok = 0, True
            for c in s:
                depth += (c == "(") - (c == ")")
                ok = ok and depth >= 0
            ok = ok and depth == 0
            res.evaluations += 1
            r = call(extended2dotParen, s)
            if ok:
                nb += 1
                hu = call(dotParen2HU, s)
                back = call(HU2dotParen, hu["ok"]) if "ok" in hu else hu
                if r != {"ok": s} or back != {"ok": s}:
                    res.violations.append({"what": "balanced string rejected or not round-tripped", "input": {"s": s},
                                           "observed": [r, hu, back], "sig": "C08:exhaustive-balanced", "cmd": "peppercompiler.HU2dotParen"})
                if l <= 6:
                    reqs.append({"op": "dp2hu", "s": s}); impls.append(hu)
            else:
                if "ok" in r:
                    res.violations.append({"what": "unbalanced string accepted", "input": {"s": s}, "observed": r,
                                           "sig": "C08:exhaustive-unbalanced", "cmd": "extended2dotParen"})
            if l <= 5:
                reqs.append({"op": "ext2dp", "s": s}); impls.append(r)
    # unbalanced descriptions behind a helix of well over a hundred base pairs (where the recursive grammar that checks balance meets
    # the interpreter's recursion limit: a BALANCED one may be refused there - a resource limit, not judged - but an unbalanced one must
    # never come back as a structure), plain and run-length spellings
    for k in range(8 if tier == "quick" else 120):
        n_, l_ = rng.randint(110, 260), rng.randint(3, 6)
        d_ = rng.randint(1, 4)
        kind_ = k % 4
        if kind_ == 0:
            parts = [(n_, "("), (l_, "."), (n_ - d_, ")"), (d_, ".")]                       # closers missing
        elif kind_ == 1:
            parts = [(n_, "("), (l_, "."), (n_, ")"), (d_, ")"), (d_, "(")]                # a closing run before its opening run
        elif kind_ == 2:
            parts = [(n_, "("), (l_, "."), (n_ - d_, ")"), (d_ + 2, "("), (l_, "."), (2, ")"), (d_ + d_, ")")][:6] + [(d_, ")")]
            parts = [(n_, "("), (l_, "."), (n_ + d_, ")"), (d_, "("), (l_, "."), (0, ")")]  # one helix closes more than it opened, a later one opens
        else:
            parts = [(d_, "."), (n_, "("), (l_, "."), (n_, ")"), (1, "("), (l_, ".")]       # an opener never closed
        plain = "".join(c_ * m_ for m_, c_ in parts)
        depth, okb = 0, True
        for c_ in plain:
            depth += (c_ == "(") - (c_ == ")")
            okb = okb and depth >= 0
        if okb and depth == 0:
            continue
        for spelled, how in ((plain, "plain"), (" ".join("%d%s" % (m_, c_) for m_, c_ in parts if m_), "run-length")):
            r = call(extended2dotParen, spelled)
            res.evaluations += 1
            res.count("unbalanced-behind-a-long-helix:" + how)
            if "ok" in r:
                res.violations.append({"what": "unbalanced string accepted", "input": {"s": spelled if len(spelled) < 200 else "%s (%d characters)" % (" ".join("%d%s" % (m_, c_) for m_, c_ in parts if m_), len(spelled))},
                                       "observed": {"ok": (r["ok"][:60] + "...") if isinstance(r["ok"], str) else r["ok"]},
                                       "sig": "C08:long-unbalanced", "cmd": "extended2dotParen"})
    res.extra["exhaustive_strings_up_to_length"] = L
    res.extra["balanced_strings_enumerated"] = nb
    res.count("exhaustive-balanced", nb)

    res.programs = len(reqs)
    if st.driver_ok:
        got = core.Driver().call_many(reqs)
        for rq, im, g in zip(reqs, impls, got):
            res.disagreements_checked += 1
            if g != im:
                res.corr_breaks.append({"name": "Notation." + rq["op"], "input": rq, "model": g, "impl": im})
                if len(res.corr_breaks) > 5:
                    break
    return res


def replay(path):
    with open(path) as f:
        print(json.dumps(json.load(f), indent=1))
    return 0
