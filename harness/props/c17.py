"""C17 — finish refuses designs that are inconsistent with the saved system.

Fault enumeration: for valid (.save, .mfe) pairs produced by the real tool chain, EVERY single corruption of the
.mfe from the classes below is applied and the real `finish.finish` is run on it.
Oracle (decides violations): the run either stops with an error, or its outputs (.seqs, strands file) are
byte-identical to those of the uncorrupted design; whatever it writes must keep the complementarity /
concatenation / structure-sequence relations (pipeline.sat_src relations part).
Correspondence: model op `finish` (reader model + apply model) must fall in the same class
(error / same-output) and, when both succeed, produce the same lines."""
import json
import os

import core
from core import Result, quiet
import progen
import pipeline

LEVEL = "proof"
LEVEL_NOTE = "theorems about the model of the .mfe reader and apply_design; the corruption space explored per pair is enumerated exhaustively within the listed classes"


def replay(path):
    with open(path) as f:
        print(json.dumps(json.load(f), indent=1))
    return 0


def corruptions(text, rng, budget):
    """all single corruptions of the listed classes (capped at `budget` by uniform sampling)"""
    lines = text.split("\n")
    out = []
    nrec = (len(lines) - 1) // 4
    alphabet = "ACGTN" + "".join(rng.sample("URYWSMKBDHV+", 3))    # every letter the .mfe grammar admits gets its turn
    # letters the reader admits that the finisher's complement table does not tell apart from another letter (none when the
    # table is injective, which is what the detection theorems assume: PepperProps/C17 `finisher_table_lawful`): a
    # substitution between them is invisible to the x / x* comparison, so these corruptions are always tried, never sampled
    from peppercompiler.DNA_classes import complement as _compl
    from peppercompiler import nupack_out_grammar as _g
    try:
        admitted = "".join(sorted(set(_g.seq.initCharsOrig)))
    except AttributeError:
        admitted = "ATUCG+NRYWSMKBDHV"
    collide = {c: [a for a in admitted if a != c and a in _compl and _compl.get(a) == _compl.get(c)] for c in admitted if c in _compl}
    forced = []
    for r in range(nrec):
        h, s, t, m = lines[4 * r:4 * r + 4]
        def put(idx, new, what):
            l2 = list(lines); l2[4 * r + idx] = new
            out.append((what, "\n".join(l2)))
        name = h.split(":", 1)[1]
        seq, rest = s.split(" ", 1)
        # every position x every replacement base
        for i, c in enumerate(seq):
            for a in alphabet:
                if a != c:
                    put(1, seq[:i] + a + seq[i + 1:] + " " + rest, "base %s[%d] %s->%s" % (name, i, c, a))
            for a in collide.get(c, ()):
                put(1, seq[:i] + a + seq[i + 1:] + " " + rest, "base %s[%d] %s->%s (letters with one complement)" % (name, i, c, a))
                forced.append(out.pop())
            put(1, seq[:i] + seq[i + 1:] + " " + rest, "delete base %s[%d]" % (name, i))
        put(1, seq + "A " + rest, "append base to %s" % name)
        put(1, "A" + seq + " " + rest, "prepend base to %s" % name)
        if len(seq) > 1:
            put(1, seq[::-1] + " " + rest, "reverse %s" % name)
        # header damage / renaming
        put(0, h.replace(":", " ", 1), "header of %s without colon" % name)
        put(0, ":" + name, "header of %s without number" % name)
        put(0, h + "x", "rename %s to %sx" % (name, name))
        put(0, h.rstrip("*") if name.endswith("*") else h + "*", "toggle star of %s" % name)
        for r2 in range(nrec):
            if r2 != r:
                other = lines[4 * r2].split(":", 1)[1]
                put(0, h.split(":", 1)[0] + ":" + other, "rename %s to %s" % (name, other))
        # numeric fields / structure lines
        put(1, seq + " " + rest.replace(" ", "  x ", 1), "garbage in numeric fields of %s" % name)
        put(1, seq, "numeric fields of %s removed" % name)
        put(2, t + "(", "target structure of %s damaged" % name)
        put(3, "", "mfe structure line of %s emptied" % name)
        # record deletion / duplication
        l2 = lines[:4 * r] + lines[4 * r + 4:]
        out.append(("delete record %s" % name, "\n".join(l2)))
        l2 = lines[:4 * r + 4] + [h, s, t, m] + lines[4 * r + 4:]
        out.append(("duplicate record %s" % name, "\n".join(l2)))
        l2 = lines[:4 * r + 1] + lines[4 * r + 2:]
        out.append(("delete sequence line of %s" % name, "\n".join(l2)))
    out.append(("trailer removed", "\n".join(lines[:-1])))
    out.append(("trailer damaged", "\n".join(lines[:-1] + ["Total n(s) = 0"])))
    out.append(("empty file", ""))
    out.append(("blank line inserted", "\n".join(lines[:4] + [""] + lines[4:])))
    total = len(out)
    if len(out) > budget:
        # base substitutions dominate the count: sample THEM; header / renaming / star / field / record damage is kept (capped)
        subst = [c for c in out if c[0].startswith("base ")]
        other = [c for c in out if not c[0].startswith("base ")]
        if len(other) > budget // 2:
            other = rng.sample(other, budget // 2)
        out = other + rng.sample(subst, min(len(subst), max(0, budget - len(other))))
    return forced[:budget] + out, total + len(forced)


def run(st, tier, seed):
    from peppercompiler import finish as pf
    res = Result("C17")
    res.rule = ("for each valid (.save,.mfe) pair: every record x {every position x every replacement base, deletion, insertion, reversal, "
                "header damage, renaming to every other record name, star toggle, numeric/structure field damage, record deletion, "
                "duplication, line deletion} + trailer/blank-line/empty-file damage (sampled uniformly when above the per-pair budget); "
                "non-trivial = a corruption of a record that influences the results; distinct by corrupted text")
    rng = core.rng_for(seed, "c17")
    npairs = 6 if tier == "quick" else 120
    budget = 250 if tier == "quick" else 1500
    drv = core.Driver() if st.driver_ok else None
    reqs, meta = [], []
    pairs = 0
    attempts = 0
    while pairs < npairs and attempts < npairs * 6:
        attempts += 1
        if rng.random() < 0.6:
            b = progen.gen_component_bundle(rng, size=rng.choice([3, 5]), satisfiable=True)
        else:
            b = progen.gen_system_bundle(rng, depth=rng.randint(1, 2), size=3, n_templates=2, satisfiable=True)
        if b is None:
            continue
        with core.scratch("pepper_c17_") as d:
            try:
                base = pipeline.run_pipeline(b, rng, d)
            except pipeline.Stage:
                continue
            pairs += 1
            cors, total = corruptions(base["mfe"], rng, budget)
            res.count("corruptions-possible", total)
            cwd = os.getcwd(); os.chdir(d)
            try:
                for what, text in cors:
                    res.evaluations += 1
                    with open("cor.mfe", "w") as f:
                        f.write(text)
                    for fn in ("cor.seqs", "cor.strands"):
                        if os.path.exists(fn):
                            os.remove(fn)
                    try:
                        with quiet():
                            pf.finish("out.save", "cor.mfe", "cor.seqs", "cor.strands", False, False, 0, 0, 0, 0, False, 0)
                        seqs = open("cor.seqs").read(); strands = open("cor.strands").read()
                        cls = "same" if (seqs == base["seqs"] and strands == base["strands"]) else "different"
                    except BaseException as e:
                        if isinstance(e, KeyboardInterrupt): raise
                        cls = "error"
                        seqs = strands = None
                    res.count("class:" + cls)
                    res.count("kind:" + what.split(" ")[0])
                    inp = {"files": b.texts, "entry": b.entry, "includes": b.includes, "corruption": what, "mfe": text if len(text) < 4000 else text[:4000]}
                    if cls == "different":
                        res.violations.append({"what": "finish accepted a corrupted design (%s) and wrote different sequences" % what, "input": inp,
                                               "observed": seqs[:800], "expected": "an error, or output identical to the uncorrupted run",
                                               "sig": "C17:slipped:" + what.split(" ")[0], "cmd": "pepper-finish --design cor.mfe"})
                    if cls != "same":
                        res.nontriv(text)
                    if drv is not None:
                        rq = progen.compile_request(b, "pil", anon=base["anon_before"]); rq["op"] = "finish"; rq["mfe"] = text
                        reqs.append(rq); meta.append((inp, cls, seqs, strands))
            finally:
                os.chdir(cwd)
        if len(res.samples) < 1:
            res.sample({"source": b.texts, "mfe": base["mfe"][:500], "corruptions": [c[0] for c in cors[:8]]})
    res.extra["valid_pairs"] = pairs
    res.programs = pairs
    if drv is not None and reqs:
        got = drv.call_many(reqs)
        for (inp, cls, seqs, strands), g in zip(meta, got):
            res.disagreements_checked += 1
            if "ok" in g:
                mseqs = "\n".join(g["ok"]["seqs"]) + "\n"
                mstr = "".join(l + "\n" for l in g["ok"]["strands"])
                mcls = "ok"
            else:
                mcls = "error"
            if (cls == "error") != (mcls == "error") or (mcls == "ok" and (mseqs != seqs or mstr != strands)):
                res.corr_breaks.append({"name": "Finish.read+apply", "input": inp, "model": g if mcls == "error" else "ok", "impl": cls})
                if len(res.corr_breaks) > 5:
                    break
    return res
