"""Shared check logic for the compile path (C01 components, C02 systems, C03 DES handled in c03.py):
correspondence compile(model) vs compiler(impl) and the denotational oracle
    canon(denote-pil(impl's .pil)) == canon(denote-src(source AST))."""
import json

import core
import impl
import pilio
import progen


def example_bundles(rng, n, kind=None):
    """bundles built from the repository's own examples through the independent source reader (srcparse.py)"""
    import os
    import srcparse
    ex = json.load(open(os.path.join(core.CORPUS, "examples.json")))
    if kind:
        ex = [e for e in ex if e[0].endswith("." + kind)]
    rng.shuffle(ex)
    out = []
    for rel, args in ex[:n]:
        root = os.path.join(core.REPO, "examples", os.path.dirname(rel))
        entry = os.path.basename(rel).rsplit(".", 1)[0]
        try:
            out.append(("example:" + rel, srcparse.bundle_from_dir(root, entry, args)))
        except Exception:   # an example the independent reader cannot read is skipped (none at the pinned commit)
            continue
    return out


def stats_of_bundle(b, res):
    n_stmts = 0
    for key, ast in b.files.items():
        if ast["kind"] == "comp":
            n_stmts += len(ast["stmts"])
            for s in ast["stmts"]:
                res.count("stmt:" + s["k"])
                if s["k"] in ("seq", "strand"):
                    for it in s["items"]:
                        res.count("item:" + it["t"] + ("*" if it.get("star") else ""))
                        if it["t"] == "nuc" and "?" in it["text"]:
                            res.count("wildcard")
                if s["k"] == "struct":
                    t = s["text"]
                    res.count("notation:" + ("domain" if s["domain"] else "HU" if ("U" in t or "H" in t) else
                                             "run-length" if any(c.isdigit() for c in t) else "plain"))
        else:
            res.count("system-file")
            for s in ast["stmts"]:
                if s["k"] == "component":
                    res.count("instance")
                    for g in s["ins"] + s["outs"]:
                        res.count("binding" + ("*" if g["star"] else ""))
    res.count("size:%s" % ("<=5" if n_stmts <= 5 else "<=12" if n_stmts <= 12 else ">12"))
    return n_stmts


def run_bundles(st, res, bundles, pid, what="component", check_model=True, fmt="pil", must_accept=False):
    """bundles: list of (tag, Bundle). Appends violations / correspondence breaks to res."""
    drv = core.Driver() if st.driver_ok else None
    reqs, meta = [], []
    for tag, b in bundles:
        res.evaluations += 1
        n = stats_of_bundle(b, res)
        r = impl.compile_bundle(b, fmt)
        res.count("impl:" + ("accepted" if r["ok"] else "rejected"))
        inp = {"files": b.texts, "entry": b.entry, "includes": b.includes, "tag": tag}
        if n >= 3:
            res.nontriv(b.texts)
        if len(res.samples) < 2 and r["ok"] and n >= 4:
            res.sample({"source": b.texts, "pil": r["text"]})
        if drv is None:
            continue
        reqs.append(progen.compile_request(b, fmt, anon=r["anon_before"]))
        meta.append(("compile", tag, b, r, inp))
        if (r["ok"] or must_accept) and fmt == "pil":
            rq = progen.compile_request(b, fmt, anon=0)
            rq["op"] = "src-denote"
            reqs.append(rq)
            meta.append(("src", tag, b, r, inp))
            if not r["ok"]:
                continue
            try:
                stmts = pilio.read_pil(r["text"])
            except pilio.PilSyntax as e:
                res.violations.append({"what": "emitted .pil is not valid PIL: %s" % e, "input": inp, "observed": r["text"],
                                       "sig": pid + ":invalid-pil", "cmd": "pepper-compiler " + b.entry})
                continue
            reqs.append({"op": "pil-design", "stmts": [s for s in stmts if s["k"] != "kinetic"] })
            meta.append(("pil", tag, b, r, (inp, stmts)))
    if drv is None:
        return
    got = drv.call_many(reqs)
    src_d = {}
    for (kind, tag, b, r, extra), g in zip(meta, got):
        if kind == "compile":
            res.disagreements_checked += 1
            ml = impl.model_lines(g)
            if r["ok"]:
                if ml != r["lines"]:
                    res.corr_breaks.append({"name": "Comp/Sys.compile", "input": extra, "model": g, "impl": r["text"]})
                elif fmt == "pil" and _stmts_of(r["text"]) != [x for x in g["ok"]["stmts"]]:
                    res.corr_breaks.append({"name": "Emit.pilStmts", "input": extra, "model": g["ok"]["stmts"], "impl": _stmts_of(r["text"])})
                elif g["ok"]["anon"] != r["anon_after"]:
                    res.corr_breaks.append({"name": "Comp.anon-counter", "input": extra, "model": g["ok"]["anon"], "impl": r["anon_after"]})
            elif ml is not None:
                if r.get("exc") in ("RecursionError", "MemoryError"):
                    # a resource limit of the interpreter (pickling the object graph of a very large program), not a verdict on
                    # the program: the model has no such limit; counted, not compared
                    res.count("impl:resource-limit(%s, not compared)" % r.get("exc"))
                    continue
                res.corr_breaks.append({"name": "Comp/Sys.compile(accept)", "input": extra, "model": "accepts", "impl": r.get("exc")})
        elif kind == "src":
            src_d[tag] = g
            if must_accept and not r["ok"] and "ok" in g and r.get("exc") not in ("RecursionError", "MemoryError"):
                res.violations.append({"what": "the compiler rejects a program that is well formed according to the specification "
                                               "(imports resolve, ports and lengths match): %s %s" % (r.get("exc"), r.get("stderr", "")[-300:]),
                                       "input": extra, "sig": pid + ":rejects-wellformed",
                                       "cmd": "cd <dir with these files>; pepper-compiler %s %s" % (b.entry, " ".join("-I " + i for i in b.includes))})
        elif kind == "pil":
            inp, stmts = extra
            sd = src_d.get(tag)
            if sd is None or "ok" not in sd:
                res.corr_breaks.append({"name": "Denote.accept", "input": inp, "model": sd, "impl": "accepted"})
                continue
            if "ok" not in g:
                res.violations.append({"what": "emitted .pil cannot be loaded as a specification (undefined / duplicate name, length mismatch)",
                                       "input": inp, "observed": r["text"], "sig": pid + ":pil-unloadable", "cmd": "pepper-compiler " + b.entry})
                continue
            want = pilio.canon_design(sd["ok"])
            have = pilio.canon_design(g["ok"])
            have["kinetics"] = pilio.pil_kinetics(stmts)
            diff = pilio.design_diff(want, have)
            if diff is not None:
                res.violations.append({"what": "the emitted .pil does not denote the design the %s source describes (%s #%d)" % (what, diff["field"], diff["index"]),
                                       "input": inp, "expected": diff["source_denotes"], "observed": diff["output_denotes"],
                                       "pil": r["text"], "sig": "%s:denotation:%s" % (pid, diff["field"]),
                                       "cmd": "cd <dir with these files>; pepper-compiler %s %s" % (b.entry, " ".join("-I " + i for i in b.includes))})


def _stmts_of(text):
    try:
        return [x for x in pilio.read_pil(text) if x["k"] != "kinetic"]
    except pilio.PilSyntax:
        return None


def replay(path):
    with open(path) as f:
        print(json.dumps(json.load(f), indent=1))
    return 0
