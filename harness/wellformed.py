"""Independent well-formedness check of an emitted PIL specification (the conclusion of C09)."""
import re


def check(text, alphabet=False):
    """returns a list of problems (empty = well formed)"""
    problems = []
    seqs, strands, structs = {}, {}, set()
    for raw in text.split("\n"):
        line = re.sub(r"#.*", "", raw).strip()
        if not line:
            continue
        t = line.split()
        cmd = t[0]
        def declared(tokens):
            if ":" in tokens:
                i = len(tokens) - 1 - tokens[::-1].index(":")
                try:
                    return tokens[:i], int(tokens[i + 1])
                except (ValueError, IndexError):
                    problems.append("unreadable declared length: %r" % raw)
                    return tokens[:i], None
            return tokens, None
        def item_len(x):
            nm = x[:-1] if x.endswith("*") else x
            if nm.endswith("*"):
                problems.append("doubly starred reference %s" % x); return None
            if nm not in seqs:
                problems.append("reference to undefined or later-defined sequence %s" % nm); return None
            return seqs[nm]
        if cmd == "sequence":
            if len(t) < 4 or t[2] != "=":
                problems.append("unreadable line %r" % raw); continue
            body, d = declared(t[3:])
            tmpl = body[0] if body else ""
            if t[1] in seqs:
                problems.append("sequence %s defined twice" % t[1])
            if d is not None and d != len(tmpl):
                problems.append("sequence %s: declared length %d, template has %d" % (t[1], d, len(tmpl)))
            if alphabet and not set(tmpl) <= set("ACGTRYWSMKBDHVN"):   # not one of C09's clauses: off by default
                problems.append("sequence %s: template %s outside the code alphabet" % (t[1], tmpl))
            seqs[t[1]] = len(tmpl)
        elif cmd in ("sup-sequence", "super-sequence", "strand"):
            tt = t[1:]
            if cmd == "strand" and tt and tt[0] == "[dummy]":
                tt = tt[1:]
            if len(tt) < 2 or tt[1] != "=":
                problems.append("unreadable line %r" % raw); continue
            body, d = declared(tt[2:])
            lens = [item_len(x) for x in body]
            total = None if None in lens else sum(lens)
            if d is not None and total is not None and d != total:
                problems.append("%s %s: declared length %d, domains sum to %d" % (cmd, tt[0], d, total))
            if cmd == "strand":
                if tt[0] in strands:
                    problems.append("strand %s defined twice" % tt[0])
                strands[tt[0]] = total if total is not None else d
            else:
                if tt[0] in seqs:
                    problems.append("sequence %s defined twice" % tt[0])
                seqs[tt[0]] = total if total is not None else (d or 0)
        elif cmd == "structure":
            tt = t[1:]
            if tt and tt[0].startswith("["):
                tt = tt[1:]
            if len(tt) < 4 or tt[1] != "=" or ":" not in tt:
                problems.append("unreadable line %r" % raw); continue
            c = tt.index(":")
            names = " ".join(tt[2:c]).replace("+", " ").split()
            dp = "".join(tt[c + 1:])
            if tt[0] in structs:
                problems.append("structure %s defined twice" % tt[0])
            structs.add(tt[0])
            segs = dp.split("+")
            if len(segs) != len(names):
                problems.append("structure %s: %d segments for %d strands" % (tt[0], len(segs), len(names)))
            for nm, sg in zip(names, segs):
                if nm not in strands:
                    problems.append("structure %s: undefined strand %s" % (tt[0], nm))
                elif strands[nm] is not None and strands[nm] != len(sg):
                    problems.append("structure %s: segment of length %d for strand %s of length %d" % (tt[0], len(sg), nm, strands[nm]))
            depth = 0
            for ch in dp:
                depth += (ch == "(") - (ch == ")")
                if depth < 0:
                    break
                if ch not in ".()+":
                    problems.append("structure %s: bad character %r" % (tt[0], ch)); break
            if depth != 0:
                problems.append("structure %s is unbalanced: %s" % (tt[0], dp))
        elif cmd == "equal":
            lens = [item_len(x) for x in t[1:]]
            if len({l for l in lens if l is not None}) > 1:
                problems.append("equal line with members of different lengths: %r" % raw)
        elif cmd == "kinetic":
            m = re.match(r"kinetic\s+\[.*?\]\s+(.*?)\s+->\s+(.*)\Z", line)
            if m:
                for nm in (m.group(1) + " + " + m.group(2)).replace("+", " ").split():
                    if nm not in structs:
                        problems.append("kinetic refers to undefined structure %s" % nm)
        else:
            problems.append("unknown statement %r" % raw)
    return problems


def check_des(text):
    """well-formedness of a NUPACK-style .des specification: every line readable, names unique per kind, every structure
    balanced and assigned exactly once, every assigned sequence defined, as many nucleotides assigned as the structure has positions"""
    import semantics
    problems = []
    try:
        lines = semantics.read_des(text)
    except ValueError as e:
        return ["unreadable: %s" % e]
    for kind in ("structure", "sequence"):
        names = [n for k, n, x in lines if k == kind]
        for n in sorted(set(names)):
            if names.count(n) > 1:
                problems.append("%s %s defined twice" % (kind, n))
    defined = set()
    for k, n, x in lines:
        if k in ("structure", "sequence"):
            defined.add((k, n))
        elif k == "assign":
            if ("structure", n) not in defined:
                problems.append("assignment to undefined or later-defined structure %s" % n)
            for it in x:
                nm = it[:-1] if it.endswith("*") else it
                if ("sequence", nm) not in defined:
                    problems.append("reference to undefined or later-defined sequence %s" % nm)
        elif k == "bound" and ("structure", n) not in defined:
            problems.append("bound on undefined structure %s" % n)
    # sizes and balance (the code alphabet of templates is not one of C09's clauses: letters are not interpreted here)
    seqlen = {n: len(x) for k, n, x in lines if k == "sequence"}
    structs = {n: x for k, n, x in lines if k == "structure"}
    assigned = {}
    for k, n, x in lines:
        if k == "assign":
            assigned.setdefault(n, []).append(x)
    for n, dp in structs.items():
        depth, ok = 0, set(dp) <= set(".()+")
        for c in dp:
            depth += (c == "(") - (c == ")")
            ok = ok and depth >= 0
        if not ok or depth != 0:
            problems.append("structure %s is not a balanced dot-paren string" % n)
        if len(assigned.get(n, [])) != 1:
            problems.append("structure %s has %d sequence assignments" % (n, len(assigned.get(n, []))))
            continue
        items = assigned[n][0]
        if all((it[:-1] if it.endswith("*") else it) in seqlen for it in items):
            total = sum(seqlen[it[:-1] if it.endswith("*") else it] for it in items)
            if total != len(dp.replace("+", "")):
                problems.append("structure %s has %d positions but %d nucleotides assigned" % (n, len(dp.replace("+", "")), total))
    return problems
