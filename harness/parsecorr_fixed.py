"""Correspondence between the Lean model of the `--fixed` file reader (`lean/PepperModel/ParseFixed.lean`, driver ops
`parse-fixed-line`, `parse-fixed-file`, `fixed-kind`) and the REAL code of `peppercompiler/compiler.py`:
`parse_fixed`, the skip regex and the line iteration of `load_fixed`, and the dispatch
`if type_ in "sequence": … elif type_ in "signal": … elif type_ == "strand": … elif type_ == "structure": …` of `compiler()`.

    check_lines(res, drv, lines, tag)   every line through the real `parse_fixed` (any exception = reject) and through the
                                        skip regex taken out of the source of the real `load_fixed`, and through the model
    check_files(res, drv, texts, tag)   every text (a) written to a file and read by the real `load_fixed`, compared with
                                        the model's triples, and (b) used as the `--fixed` file of a real compile of two
                                        small fixed programs (a component, a system of two instances of it); the emitted
                                        .pil (WHICH objects were narrowed, to what), the failure, and the number of
                                        "not found" warnings are compared with what the model's `fixedEntries` followed by
                                        the existing `compile` operation (with "fixed": entries) produce
    check_kinds(res, drv, words, tag)   the dispatch alone: one real compile with a line `<word> nosuch<i> = A` per word;
                                        the branch the real loop took is read off the warning it printed
                                        (`Sequence|Signal|Strand|Structure nosuch<i> in fixed sequences not found`, none =
                                        ignored) and compared with the model's `kindOf`
    gen_lines(rng, n) / gen_files(rng, n)   generators (valid lines of all four kinds with free spacing, tabs, `+` around
                                        `=`, trailing comments, CR / CRLF; kind words that are substrings or superstrings
                                        of the keywords; malformed streams)

Nothing of /repo is edited or re-implemented: the real functions run in-process, `utils.DEBUG` stays False (warnings are
read from the captured stderr).  Non-ASCII input is outside the model: counted (`non-ascii-skipped`), not compared.
"""
import inspect
import json
import os
import re
import sys

HERE = os.path.dirname(os.path.abspath(__file__))
if HERE not in sys.path:
    sys.path.insert(0, HERE)

import core      # noqa: E402
import impl      # noqa: E402
import progen    # noqa: E402
import srcparse  # noqa: E402


def is_ascii(s):
    return all(ord(c) < 128 for c in s)


# ------------------------------------------------------------------------------------------ the real code

_SKIP = {}


def real_skip_regex():
    """the regex literal of `load_fixed`, read out of the real function's source"""
    if "re" not in _SKIP:
        from peppercompiler import compiler as pc
        src = inspect.getsource(pc.load_fixed)
        m = re.search(r're\.match\(r"((?:[^"\\]|\\.)*)",\s*line\)', src)
        # None: `load_fixed` no longer has the shape `re.match(r"…", line)`; skipping is then only observed through the
        # real `load_fixed` itself (check_files, incl. the one-line files), not line by line
        _SKIP["re"] = m.group(1) if m else None
    return _SKIP["re"]


def real_parse(line):
    from peppercompiler import compiler as pc
    try:
        with core.quiet():
            r = pc.parse_fixed(line)
        return list(r)
    except BaseException as e:  # noqa
        if isinstance(e, KeyboardInterrupt):
            raise
        return None


def real_load(text, d):
    """the real `load_fixed` on a file with exactly these (ASCII) bytes"""
    from peppercompiler import compiler as pc
    p = os.path.join(d, "probe.fix")
    with open(p, "wb") as f:
        f.write(text.encode("ascii"))
    try:
        with core.quiet():
            return [list(t) for t in pc.load_fixed(p)]
    except BaseException as e:  # noqa
        if isinstance(e, KeyboardInterrupt):
            raise
        return None


# ------------------------------------------------------------------------------------------ lines

def check_lines(res, drv, lines, tag):
    todo = []
    for l in lines:
        if not is_ascii(l):
            res.count("%s:non-ascii-skipped" % tag)
        else:
            todo.append(l)
    resps = drv.call_many([{"op": "parse-fixed-line", "line": l} for l in todo])
    skip_re = real_skip_regex()
    bad = 0
    for l, g in zip(todo, resps):
        real = real_parse(l)
        if skip_re is None:
            res.count("%s:line:skip-regex-not-found-in-source" % tag)
            rskip = g.get("skip")
        else:
            rskip = re.match(skip_re, l) is not None
        model = g.get("ok") if "ok" in g else None
        res.disagreements_checked += 1
        res.count("%s:line:%s%s" % (tag, "accepted" if real is not None else "rejected", ":skipped" if rskip else ""))
        if real is not None:
            res.count("%s:line:kind-word:%s" % (tag, real[0] if len(real[0]) < 12 else "<long>"))
        if real != model or rskip != g.get("skip"):
            bad += 1
            res.corr_breaks.append({"name": "ParseFixed.line", "input": {"line": l, "tag": tag},
                                    "model": {"parse": model, "skip": g.get("skip")}, "impl": {"parse": real, "skip": rskip}})
    return bad


# ------------------------------------------------------------------------------------------ the two fixed programs

GATE = """declare component gate: a -> b
sequence a = "4N"
sequence b = "4S"
sequence x = a b*
sequence q = "3N"
strand S = x a*
strand T = b
strand q = a b
structure G = S : U12
structure H = S + T : U12 + U4
structure q = T : U4
"""
TOP = """declare system top: s1 -> s2
import gate
component g1 = gate: s1 -> m
component g2 = gate: m -> s2
"""

_PROGS = {}


def programs():
    """(component bundle, system bundle); sequence / strand / structure `q` share one name on purpose: only the kind word
    decides which of them a line narrows"""
    if not _PROGS:
        with core.scratch("pepper_pf_") as d:
            for fn, txt in (("gate.comp", GATE), ("top.sys", TOP)):
                with open(os.path.join(d, fn), "w") as f:
                    f.write(txt)
            _PROGS["comp"] = srcparse.bundle_from_dir(d, "gate", [])
            _PROGS["sys"] = srcparse.bundle_from_dir(d, "top", [])
    return _PROGS["comp"], _PROGS["sys"]


def baseline(which):
    """the unfixed output of a program (token lists)"""
    key = "base-" + which
    if key not in _PROGS:
        b = dict(zip(("comp", "sys"), programs()))[which]
        _PROGS[key] = impl.compile_bundle(b, "pil")["lines"]
    return _PROGS[key]


WARN = re.compile(r"Warning: (Sequence|Signal|Strand|Structure) (\S+) in fixed sequences not found/used in system\.")


def real_compile(b, text):
    r = impl.compile_bundle(b, "pil", fixed_text=text)
    r["fix_warnings"] = WARN.findall(r.get("stderr", ""))
    return r


def check_files(res, drv, texts, tag):
    todo = []
    for t in texts:
        if not is_ascii(t):
            res.count("%s:file:non-ascii-skipped" % tag)
        else:
            todo.append(t)
    parsed = drv.call_many([{"op": "parse-fixed-file", "text": t} for t in todo])
    bundles = programs()
    bad = 0
    reqs, meta = [], []
    with core.scratch("pepper_pf_") as d:
        for t, g in zip(todo, parsed):
            real = real_load(t, d)
            model = g.get("raw") if "ok" in g else None
            res.disagreements_checked += 1
            res.count("%s:file:%s" % (tag, "accepted" if real is not None else "rejected"))
            if real is not None:
                res.count("%s:file:lines-parsed" % tag, len(real))
            if real != model:
                bad += 1
                res.corr_breaks.append({"name": "ParseFixed.file", "input": {"text": t, "tag": tag, "stage": "load_fixed"},
                                        "model": model, "impl": real})
                continue
            for which, b in zip(("comp", "sys"), bundles):
                before = impl.anon_counter()
                r = real_compile(b, t)
                res.programs += 1
                if "ok" not in g:
                    res.disagreements_checked += 1
                    res.count("%s:compile:%s:file-rejected" % (tag, which))
                    if r["ok"] or r.get("exc") != "ValueError":
                        bad += 1
                        res.corr_breaks.append({"name": "ParseFixed.file", "input": {"text": t, "tag": tag, "stage": "compile", "program": which},
                                                "model": "reject", "impl": "compiled" if r["ok"] else r.get("exc")})
                    continue
                reqs.append(progen.compile_request(b, "pil", anon=before, fixed=g["ok"]))
                meta.append((t, which, r, g))
    got = []
    for k in range(0, len(reqs), 1500):
        got += drv.call_many(reqs[k:k + 1500])
    for (t, which, r, g), m in zip(meta, got):
        res.disagreements_checked += 1
        inp = {"text": t, "tag": tag, "stage": "compile", "program": which, "entries": g["ok"], "ignored": g.get("ignored")}
        if r["ok"]:
            narrowed = r["lines"] != baseline(which)
            res.count("%s:compile:%s:%s" % (tag, which, "narrowed" if narrowed else "compiled"))
            if g.get("ignored"):
                res.count("%s:compile:lines-of-ignored-kind" % tag, g["ignored"])
            if "ok" not in m:
                bad += 1
                res.corr_breaks.append({"name": "ParseFixed.file", "input": inp, "model": m, "impl": "compiled"})
            elif [l.split() for l in m["ok"]["lines"]] != r["lines"]:
                bad += 1
                res.corr_breaks.append({"name": "ParseFixed.file", "input": inp, "model": m["ok"]["lines"], "impl": r["text"]})
            elif m["ok"].get("fix_warnings") != len(r["fix_warnings"]):
                bad += 1
                res.corr_breaks.append({"name": "ParseFixed.file", "input": inp, "model": {"warnings": m["ok"].get("fix_warnings")},
                                        "impl": {"warnings": r["fix_warnings"]}})
        else:
            res.count("%s:compile:%s:fix-error(%s)" % (tag, which, r.get("exc")))
            if m.get("err") != "fix-error":
                bad += 1
                res.corr_breaks.append({"name": "ParseFixed.file", "input": inp, "model": m if "err" in m else "compiles", "impl": r.get("exc")})
    return bad


# ------------------------------------------------------------------------------------------ the dispatch alone

def check_kinds(res, drv, words, tag):
    """words must match `\\w+` (anything else never reaches the dispatch)"""
    words = [w for w in words if re.fullmatch(r"\w+", w) and is_ascii(w)]
    got = drv.call_many([{"op": "fixed-kind", "word": w} for w in words])
    bad = 0
    for which, b in zip(("comp", "sys"), programs()):
        for k in range(0, len(words), 400):
            chunk = words[k:k + 400]
            text = "".join("%s nosuch%d = A\n" % (w, i) for i, w in enumerate(chunk))
            r = real_compile(b, text)
            if not r["ok"]:
                # the model accepts every probe line (`parse_render`); the real compile failed
                bad += 1
                res.disagreements_checked += 1
                res.corr_breaks.append({"name": "ParseFixed.file", "input": {"text": text[:400], "tag": tag, "stage": "dispatch", "program": which},
                                        "model": "every line parses, unknown names only warn", "impl": r.get("exc")})
                continue
            branch = {name: kind.lower() for kind, name in r["fix_warnings"]}
            for i, w in enumerate(chunk):
                real = branch.get("nosuch%d" % i)
                if real is not None:
                    real = {"sequence": "sequence", "signal": "signal", "strand": "strand", "structure": "structure"}[real]
                model = got[k + i].get("ok")
                res.disagreements_checked += 1
                res.count("%s:kind:%s" % (tag, real or "ignored"))
                if real != model:
                    bad += 1
                    res.corr_breaks.append({"name": "ParseFixed.file", "input": {"word": w, "tag": tag, "stage": "dispatch", "program": which},
                                            "model": model, "impl": real})
    return bad


def kind_words():
    """every word of length <= 3 over a small alphabet, every substring of the four keywords, and their one-letter
    extensions"""
    out = []
    alpha = "seqauncigltrdSx_1"
    out += list(alpha)
    out += [a + b for a in alpha for b in alpha]
    out += [a + b + c for a in alpha for b in alpha for c in alpha]
    for kw in ("sequence", "signal", "strand", "structure"):
        subs = {kw[i:j] for i in range(len(kw)) for j in range(i + 1, len(kw) + 1)}
        out += sorted(subs)
        for s in sorted(subs):
            if len(s) >= 3:
                out += [s + "s", "s" + s, s + "e", s.upper(), s.capitalize(), s + "_"]
    seen, res = set(), []
    for w in out:
        if w not in seen:
            seen.add(w); res.append(w)
    return res


# ------------------------------------------------------------------------------------------ generators

KEYWORDS = ["sequence"] * 8 + ["strand"] * 4 + ["structure"] * 4 + ["signal"] * 4
ABBREV = ["seq", "sig", "s", "e", "nce", "a", "l", "n", "si", "gn", "uen", "sign", "ign", "al", "sequenc", "equence", "igna", "q", "c", "u", "g", "i"]
OTHERS = ["sequences", "str", "struct", "st", "Sequence", "SEQUENCE", "signals", "strands", "structures", "domain", "d", "ture", "5", "_", "seq_", "x",
          "stran", "trand", "structur", "tructure", "t", "r", "sq", "sg", "ee", "ss", "strandstrand", "sequencesignal"]
KINDS = KEYWORDS + ABBREV + OTHERS
SEP1 = [" "] * 10 + ["  ", "\t", " \t", "   ", "\t\t", "\x0c", "\x0b", "\x1c", "\x1d", "\x1e", "\x1f", " \x1f "]
EQ = [" = "] * 6 + ["=", " =", "= ", "\t=\t", "  =  ", " \t= ", "+=", "=+", " + = + ", "\x1f=\x1c", " =\x0c", "++=++", " = +", " = ++"]
TAILS = [""] * 12 + [" ", "  ", "\t", " # note", " # note", "\t# c", " #", "  # a # b", " #\t", "\x0c# ff", "#c", " # c ", " \x1f#", " ## x"]
EOLS = ["\n"] * 8 + ["\r\n", "\r\n", "\r", "\n\n", "\r\r\n", "\n\r"]
FILLERS = ["", "   ", "# c", "\t# c", "#", " \x0c", "#\x0c", "\x1c", "# sequence a = ACGT", " # x", "\t", "#\t#"]
JUNK = ["x", "sequence", "sequence a", "sequence a =", "= ACGT", "a = ACGT", "sequence a == ACGT", " sequence a = ACGT", "\tsequence a = ACGT",
        "sequence a = ACGU", "sequence a = acgt", "sequence a = ACGTR", "sequence a = ACGT x", "sequence a = AC GT", "sequence a b = ACGT",
        "sequence a = ", "sequence a ACGT", "sequence a* = ACGT", "sequence a.b = ACGT", "sequence: a = ACGT", "-seq a = ACGT", "sequence = = A",
        "sequence a = A = C", "sequence a = \"ACGT\"", "sequence a = 4N", "sequence a = A#c", "sequence a = A #c\x0b", "seq\x0ba = A", "!", "sequence a = +",
        "sequence + = A", "sequence a+b = A", "sequence a + = A", "sequence - = A", "sequence -- = +", "s _ = S", "sequence a = A # c # d", "sequence a=A",
        "sequence a =A #", "sequence a = ++A++", "sequence a = + A", "sequence a = A +", "sequence a = A+ +", "sequence a += A", "sequence a =+= A"]
ALPHA = list(" \t=+#-_") + list("ACGTNSacgtURx01") + ["\x0c", "\x1c", "\r", "\n", "  ", " = ", " # "]

COMP_NAMES = {"sequence": ["a", "b", "x", "q"], "strand": ["S", "T", "q"], "structure": ["G", "H", "q"], "signal": ["s1", "m", "s2"]}
GOOD = {   # the first two strings of every list are mutually consistent (a within NCGN, b within CCGC): files of such lines narrow
    "a": ["NCNN", "NNGN", "ANNN", "NNNN", "ACGT", "NNNT", "SNNS", "NNN", "NNNNN"],
    "b": ["CNNC", "NCGN", "SSSS", "CGCG", "GSSN", "NNNN", "ANNN", "S"],
    "x": ["NCNNNNNN", "NNGNGGCG", "NNNNNNNN", "ANNNSSSS", "ACGTNNNN", "NNNNCGCG", "NNNN+NNN", "NNNNNNN"],
    "q/sequence": ["NNA", "TNN", "NNN", "ACG", "TNS", "NNNN"],
    "S": ["NCNNNNNNNCGN", "NNGNGGCGNNNN", "NNNNNNNNNNNN", "ANNNNNNNNNNT", "NNNNSSSSNNNN", "ANNNNNNNNNNA", "NNNNNNNNNNN"],
    "T": ["CNNC", "NCGN", "SSSS", "NNNN", "GSSN", "NNN"],
    "q/strand": ["NCGNCNNC", "NNNNNCGN", "NNNNNNNN", "NNNNNNNC", "ANNNSSSS", "NNNNNNNA", "NNNNNNN"],
    "G": ["NCNNNNNNNCGN", "+NNGNGGCGNNNN", "NNNNNNNNNNNN", "ANNNNNNNNNNT", "NNNNNNNNNNNN+", "NNNNNN+NNNNNN"],
    "H": ["NCNNNNNNNCGN+CNNC", "+NNNNNNNNNNNN+NCGN", "NNNNNNNNNNNN+SSSS", "ANNNNNNNNNNT+CNNC", "NNNNNNNNNNNN", "NNNNNNNNNNNN+SSSS+",
          "NNNNNNNNNNNN++SSSS", "NNNNNNNNNNNN+SSS"],
    "q/structure": ["CNNC", "+NCGN", "NNSS", "SSSS+", "CSSC", "++", "+"],
    "signal": ["NCGN", "NNGN", "NNNN", "CNNC", "SNNS", "ANNN", "NNN", "SSSS", "NN+N"],
}


def branch_of(word):
    """the branch a kind word is MEANT to select by this generator (only used to choose a fitting name and string; the
    comparison never uses it)"""
    for kw in ("sequence", "signal"):
        if word in kw:
            return kw
    return word if word in ("strand", "structure") else None


def gen_entry(rng, prefixes=("", "", "g1-", "g1-", "g2-", "g3-", "g1-g1-")):
    """(kind word as written, name, sequence text)"""
    r = rng.random()
    kind = rng.choice(KEYWORDS) if r < 0.6 else rng.choice(ABBREV) if r < 0.8 else rng.choice(OTHERS)
    r = rng.random()
    target = branch_of(kind) or rng.choice(list(COMP_NAMES))
    if r < 0.78:
        base = rng.choice(COMP_NAMES[target])
    elif r < 0.9:
        base = rng.choice(COMP_NAMES[rng.choice(list(COMP_NAMES))])      # a name of (possibly) another kind
    else:
        base = rng.choice(["nosuch", "g9-x", "x_1", "-", "a-b", "g1", "_", "1", "g1-", "-a"])
    key = "signal" if base in COMP_NAMES["signal"] else base + "/" + target if base == "q" else base
    if key in GOOD and rng.random() < 0.9:
        seq = rng.choice(GOOD[key][:2]) if rng.random() < 0.7 else rng.choice(GOOD[key])
    else:
        seq = "".join(rng.choice("ATCGNS+" if rng.random() < 0.2 else "ATCGNS") for _ in range(rng.randint(1, 13)))
    if base in COMP_NAMES["signal"] or base in ("nosuch", "g9-x", "x_1", "-", "a-b", "g1", "_", "1", "g1-", "-a"):
        name = base
    else:
        name = rng.choice(prefixes) + base
    return kind, name, seq


def render_entry(rng, e, plain=False):
    kind, name, seq = e
    if plain:
        return kind + " " + name + " = " + seq
    return kind + rng.choice(SEP1) + name + rng.choice(EQ) + seq + rng.choice(TAILS)


def mutate(rng, line):
    r = rng.random()
    if r < 0.3 and line:
        i = rng.randrange(len(line))
        return line[:i] + line[i + 1:]
    if r < 0.65:
        i = rng.randrange(len(line) + 1)
        return line[:i] + rng.choice(ALPHA) + line[i:]
    if r < 0.9 and line:
        i = rng.randrange(len(line))
        return line[:i] + rng.choice(ALPHA) + line[i + 1:]
    toks = re.findall(r"\s+|[^\s]+", line)
    if toks:
        i = rng.randrange(len(toks))
        return "".join(toks[:i] + toks[i + 1:])
    return line


def gen_lines(rng, n):
    """single lines as `parse_fixed` and the skip regex may see them (and stranger ones: inner newlines)"""
    out = []
    while len(out) < n:
        r = rng.random()
        if r < 0.45:
            l = render_entry(rng, gen_entry(rng), plain=rng.random() < 0.15)
        elif r < 0.55:
            l = rng.choice(FILLERS)
        elif r < 0.65:
            l = rng.choice(JUNK)
        else:
            l = render_entry(rng, gen_entry(rng)) if rng.random() < 0.8 else rng.choice(JUNK + FILLERS)
            for _ in range(rng.choice([1, 1, 1, 2, 3])):
                l = mutate(rng, l)
        e = rng.random()
        if e < 0.55:
            l += "\n"
        elif e < 0.6:
            l += rng.choice(["\r\n", "\r", "\n\n", "\n \n", "\n#\n", "\nx"])
        out.append(l)
    return out


def gen_file(rng):
    k = rng.choice([0, 1, 1, 2, 2, 3, 3, 4, 5, 6, 8])
    # the share of files with a malformed line is kept small: one such line rejects the whole file
    p_bad = rng.choice([0.0, 0.0, 0.0, 0.0, 0.03, 0.1, 0.3])
    parts = []
    prefixes = rng.choice([("",) * 9 + ("g1-",), ("g1-", "g2-") * 5 + ("", "g3-"), ("", "", "g1-", "g1-", "g2-", "g3-", "g1-g1-")])
    for _ in range(k):
        if rng.random() < 0.2:
            parts.append(rng.choice(FILLERS) + rng.choice(EOLS))
        r = rng.random()
        if r < p_bad:
            l = rng.choice(JUNK) if rng.random() < 0.5 else mutate(rng, render_entry(rng, gen_entry(rng)))
        else:
            l = render_entry(rng, gen_entry(rng, prefixes), plain=rng.random() < 0.2)
        parts.append(l + rng.choice(EOLS))
    text = "".join(parts)
    if text and rng.random() < 0.25:
        text = text.rstrip("\r\n")               # last line without terminator
    if rng.random() < 0.05:
        text = rng.choice(["\n", "\r", "\r\n", "  ", "#"]) + text
    return text


def gen_files(rng, n):
    return [gen_file(rng) for _ in range(n)]


# ------------------------------------------------------------------------------------------ own use

def main(argv):
    n = int(argv[1]) if len(argv) > 1 else 20000
    nf = int(argv[2]) if len(argv) > 2 else max(200, n // 30)
    seed = int(argv[3]) if len(argv) > 3 else 0
    res = core.Result("ParseFixed")
    drv = core.Driver()
    rng = core.rng_for(seed, "parsefixed")
    bad = check_kinds(res, drv, kind_words(), "kinds")
    print("dispatch: %d words x 2 programs, %d disagreements" % (len(kind_words()), bad), flush=True)
    done = 0
    while done < n:
        m = min(20000, n - done)
        lines = gen_lines(rng, m)
        bad += check_lines(res, drv, lines, "gen")
        done += m
        print("… %d lines, %d disagreements" % (done, bad), flush=True)
    done = 0
    while done < nf:
        m = min(500, nf - done)
        bad += check_files(res, drv, gen_files(rng, m), "gen")
        # single generated lines as one-line files (through the real file iteration)
        bad += check_files(res, drv, gen_lines(rng, m // 5), "one-line")
        done += m
        print("… %d files, %d disagreements" % (done, bad), flush=True)
    for k in sorted(res.distribution):
        if ":kind-word:" not in k:
            print("  %-55s %d" % (k, res.distribution[k]))
    print("compared: %d   compiles: %d   disagreements: %d" % (res.disagreements_checked, res.programs, bad))
    for b in res.corr_breaks[:25]:
        print(json.dumps(b, default=str))
    return 0 if bad == 0 else 1


if __name__ == "__main__":
    sys.exit(main(sys.argv))
