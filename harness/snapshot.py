"""Canonical snapshot of the real compiler state (the object graph that compiler.save pickles), with identity
checks for the sharing of domain objects and the complement links.  Importable in a fresh subprocess:
    python snapshot.py <file.save>   prints the snapshot JSON of the reloaded state."""
import json
import sys


def snap(system):
    from peppercompiler.component_class import Component
    from peppercompiler.system_class import System
    from peppercompiler import DNA_classes as D
    problems = []
    wiring = []

    def sname(x):
        return getattr(x, "full_name", None) or getattr(x, "name", repr(x))

    def base(b):
        return [b.name.rstrip("*") if b.reversed else b.name, bool(b.reversed), b.length]

    def item(i):
        return [i.name[:-1] if i.reversed else i.name, bool(i.reversed)]

    def comp(c):
        for name, s in c.seqs.items():
            if s.wc.wc is not s:
                problems.append("wc link of %s broken" % s.full_name)
        def owned(objs, where):
            for b in objs:
                fwd = b.wc if b.reversed else b
                if c.seqs.get(fwd.name) is not fwd:
                    problems.append("%s: %s is not the shared object of the component table" % (where, fwd.full_name))
        seqs = []
        for name, s in c.seqs.items():
            sup = isinstance(s, D.SuperSequence)
            if sup:
                owned(s.base_seqs, s.full_name); owned([x for x in s.seqs if not isinstance(x, D.SuperSequence)], s.full_name)
                if [base(b) for b in s.wc.base_seqs] != [[n, not r, l] for n, r, l in reversed([base(b) for b in s.base_seqs])]:
                    problems.append("reversed view of %s inconsistent" % s.full_name)
            seqs.append({"name": name, "sup": sup, "len": s.length, "const": "" if sup else s.const,
                         "items": [item(i) for i in s.seqs] if sup else [],
                         "bases": [base(b) for b in s.base_seqs] if sup else [[name, False, s.length]]})
            if (name in c.base_seqs) == sup or (name in c.sup_seqs) != sup:
                problems.append("%s filed in the wrong table" % name)
        strands = []
        for name, s in c.strands.items():
            owned(s.base_seqs, s.full_name)
            strands.append({"name": name, "dummy": bool(s.dummy), "len": s.length, "items": [item(i) for i in s.seqs],
                            "bases": [base(b) for b in s.base_seqs]})
        structs = []
        for name, s in c.structs.items():
            for x in s.strands:
                if c.strands.get(x.name) is not x:
                    problems.append("structure %s: strand %s not shared" % (name, x.name))
            structs.append({"name": name, "strands": [x.name for x in s.strands], "struct": s.struct, "opt": "%f" % s.opt,
                            "bases": [base(b) for b in s.base_seqs]})
        kin = [{"name": n, "ins": [x.name for x in k.inputs], "outs": [x.name for x in k.outputs]} for n, k in c.kinetics.items()]
        # what the enclosing system installed on the structures after they were built: the real upstream structures that stand in
        # for a declared input structure (read by kinetic finishing), and the component's own port structures
        for name, s in c.structs.items():
            act = getattr(s, "actual_structs", None)
            wiring.append([c.prefix + name, None if act is None else [sname(x) for x in act]])
        wiring.append([c.prefix + "<ports>", [[(sname(x) if x is not None and x is not False else None) for x in getattr(c, k_, [])]
                                                for k_ in ("input_structs", "output_structs")]])
        return {"pfx": c.prefix, "seqs": seqs, "strands": strands, "structs": structs, "kinetics": kin}

    def inst(o):
        if isinstance(o, Component):
            return {"kind": "comp", "comp": comp(o)}
        sigs = []
        for n, es in o.signals.items():
            row = []
            for port, cname, wc in es:
                row.append([("@" + port) if isinstance(port, str) else port.name, cname, bool(wc)])
            sigs.append([n, row])
        # the merged tables must point at the components' own objects
        for cname, sub in o.components.items():
            for kind in ("seqs", "base_seqs", "sup_seqs", "strands", "structs", "kinetics"):
                for name, obj in getattr(sub, kind).items():
                    if getattr(o, kind).get(cname + "-" + name) is not obj:
                        problems.append("system table %s[%s-%s] is not the component's object" % (kind, cname, name))
        return {"kind": "sys", "pfx": o.prefix, "signals": sigs, "lengths": [[n, l] for n, l in o.lengths.items()],
                "components": [[n, inst(s)] for n, s in o.components.items()]}
    tree = inst(system)
    return {"tree": tree, "problems": problems, "wiring": wiring}


if __name__ == "__main__":
    import os
    sys.path.insert(0, os.environ.get("PEPPER_REPO", "/repo"))
    import warnings
    warnings.filterwarnings("ignore")
    from peppercompiler import compiler
    print(json.dumps(snap(compiler.load(sys.argv[1]))))
