"""Shared machinery of all checks: locking, table regeneration, lake build, axiom audit, the model
driver, evidence / replay files, known findings and the final verdict."""
import contextlib
import fcntl
import hashlib
import io
import json
import os
import random
import re
import shutil
import subprocess
import sys
import tempfile
import time
import warnings
warnings.filterwarnings("ignore")

HERE = os.path.dirname(os.path.abspath(__file__))
VERIF = os.path.dirname(HERE)
LEAN = os.path.join(VERIF, "lean")
BUILD = os.path.join(VERIF, "build")
REPO = os.environ.get("PEPPER_REPO", "/repo")
# evidence describes runs against /repo itself; a run against a scratch copy (mutation experiments, PEPPER_REPO set elsewhere) keeps its
# evidence apart so that the committed files are never overwritten by it
EVIDENCE = os.path.join(VERIF, "evidence") if os.path.realpath(REPO) == "/repo" else os.path.join(VERIF, "build", "evidence-scratch")
REPLAYS = os.path.join(VERIF, "replays")
CORPUS = os.path.join(VERIF, "corpus")
PEPPERD = os.path.join(LEAN, ".lake", "build", "bin", "pepperd")
GUARD = "PEPPERCOMPILER_VERIF"

ALLOWED_AXIOMS = {"propext", "Classical.choice", "Quot.sound"}
FORBIDDEN = re.compile(r"\b(sorry|admit|native_decide|bv_decide|implemented_by|unsafe)\b|^\s*axiom\s|maxHeartbeats\s+0",
                       re.M)

TRUSTED_BASE = [
    "Lean 4.33.0 kernel (leanchecker re-check in the thorough tier)",
    "axioms allowed in property theorems: propext, Classical.choice, Quot.sound (audited with #print axioms on every run); no sorry/admit/native_decide/bv_decide/own axioms (grep on every run)",
    "Lean compiler/runtime for the model driver `pepperd` (plays the model in the correspondence; cannot make a theorem true)",
    "harness/extract_tables.py (translator for the finite tables, by executing the real code) and the Python correspondence harness: generators, canonicalisers, text<->JSON readers",
    "the specification layer (Reach / Sat / denotations) says what the property means",
    "sampled agreement between model and implementation is assumed to extend to unsampled inputs (input distribution printed in evidence)",
]


def log(*a):
    print(*a, file=sys.stderr, flush=True)


os.makedirs(BUILD, exist_ok=True)
if REPO not in sys.path:
    sys.path.insert(0, REPO)
os.environ[GUARD] = "1"


@contextlib.contextmanager
def locked(name="lake"):
    path = os.path.join(BUILD, ".lake.lock")
    with open(path, "w") as f:
        fcntl.flock(f, fcntl.LOCK_EX)
        try:
            yield
        finally:
            fcntl.flock(f, fcntl.LOCK_UN)


@contextlib.contextmanager
def quiet():
    """Silence the chatter of the implementation (prints, coloured warnings)."""
    so, se = io.StringIO(), io.StringIO()
    with contextlib.redirect_stdout(so), contextlib.redirect_stderr(se):
        yield (so, se)


@contextlib.contextmanager
def scratch(prefix="pepper_"):
    d = tempfile.mkdtemp(prefix=prefix)
    try:
        yield d
    finally:
        shutil.rmtree(d, ignore_errors=True)


# ----------------------------------------------------------------------------------------------
# Lean side
# ----------------------------------------------------------------------------------------------

class LeanState:
    """Result of step 1 of the check flow: tables regenerated, targets built, axioms audited."""
    def __init__(self):
        self.tables_changed = False
        self.broken = []        # list of dicts {kind, name, detail}
        self.theorems = []      # names in PepperProps.<pid>
        self.discharged = []    # subset that built and passed the axiom audit
        self.axioms = {}        # theorem -> list of axioms
        self.driver_ok = False
        self.checker_cmd = ""
        self.log = ""


def strip_comments(src):
    src = re.sub(r"/-.*?-/", "", src, flags=re.S)
    src = re.sub(r"--.*", "", src)
    return src


def import_closure(roots):
    """project files transitively imported by the given modules (only modules of this lake project)"""
    seen, todo = {}, list(roots)
    while todo:
        m = todo.pop()
        if m in seen:
            continue
        p = os.path.join(LEAN, *m.split(".")) + ".lean"
        if not os.path.exists(p):
            continue
        with open(p) as f:
            src = f.read()
        seen[m] = p
        for imp in re.findall(r"^\s*import\s+([\w.]+)", src, flags=re.M):
            if imp.split(".")[0] in ("PepperModel", "PepperProofs", "PepperProps", "Driver"):
                todo.append(imp)
    return seen


def forbidden_tokens(pid=None):
    """sorry / admit / own axioms / native_decide … in the files the property's theorems and the driver depend on"""
    hits = []
    roots = ["Driver.Main"] + (["PepperProps." + pid] + ["PepperProps." + n for n in extra_modules(pid)] if pid else [])
    files = import_closure(roots)
    for m, p in sorted(files.items()):
        with open(p) as f:
            src = strip_comments(f.read())
        for mm in FORBIDDEN.finditer(src):
            hits.append("%s: %s" % (os.path.relpath(p, LEAN), mm.group(0).strip()))
    return hits


# supporting theorem modules (text-level parser models) that are re-checked and audited together with a property:
# PepperProps/<Name>.lean, namespace Pepper.<Name>.Props
EXTRA_MODULES = {"C01": ["ParseComp"], "C02": ["ParseSys"], "C09": ["ParseComp", "ParseSys"], "C04": ["ParsePil"], "C06": ["ParsePil", "C06Text", "C06Gc"],
                 "C12": ["ParseFixed"], "C16": ["C16Pickle"], "C19": ["C19Safe"]}
# namespace of the theorems of a supporting module (default Pepper.<Name>.Props)
EXTRA_NAMESPACE = {"C06Text": "Pepper.C06.Text"}


def extra_modules(pid):
    return [n for n in EXTRA_MODULES.get(pid, []) if os.path.exists(os.path.join(LEAN, "PepperProps", n + ".lean"))]


def prop_theorems(pid):
    p = os.path.join(LEAN, "PepperProps", pid + ".lean")
    if not os.path.exists(p):
        return []
    with open(p) as f:
        src = strip_comments(f.read())
    return re.findall(r"^\s*theorem\s+([A-Za-z_][\w.']*)", src, flags=re.M)


def run(cmd, cwd=None, timeout=3600, env=None, input=None):
    try:
        p = subprocess.run(cmd, cwd=cwd, capture_output=True, text=True, timeout=timeout, env=env, input=input)
        return p.returncode, p.stdout, p.stderr
    except subprocess.TimeoutExpired as e:
        return 124, (e.stdout or b"").decode() if isinstance(e.stdout, bytes) else (e.stdout or ""), "timeout"


def lean_prepare(pid, need_driver=True, leanchecker=False):
    """Regenerate tables, build PepperProps.<pid> (+ driver), audit axioms."""
    from extract_tables import regenerate, ExtractError
    st = LeanState()
    with locked():
        try:
            st.tables_changed, st.tables = regenerate()
        except ExtractError as e:
            st.tables = None
            st.broken.append({"kind": "translator", "name": "extract_tables", "detail": str(e)[-1500:]})
        except Exception as e:  # the live modules do not even import
            st.tables = None
            st.broken.append({"kind": "translator", "name": "extract_tables", "detail": repr(e)[-1500:]})
        targets = []
        prop_mod = "PepperProps." + pid
        st.theorems = prop_theorems(pid)
        full_name = {t: "Pepper.%s.%s" % (pid, t) for t in st.theorems}
        extras = extra_modules(pid)
        for n in extras:
            for t in prop_theorems(n):
                st.theorems.append(n + "." + t)
                full_name[n + "." + t] = "%s.%s" % (EXTRA_NAMESPACE.get(n, "Pepper.%s.Props" % n), t)
        prop_ok = True
        for mod in [prop_mod] + ["PepperProps." + n for n in extras]:
            rc, out, err = run(["lake", "build", mod], cwd=LEAN, timeout=3000)
            st.log += out + err
            if rc != 0:
                prop_ok = False
                errs = re.findall(r"error: (\S+?\.lean):(\d+):\d+: (.*)", out + err)
                detail = "; ".join("%s:%s %s" % e for e in errs[:6]) or (out + err)[-1200:]
                st.broken.append({"kind": "theorem", "name": mod, "detail": detail,
                                  "failed_at": sorted({"%s:%s" % (e[0], e[1]) for e in errs})[:20]})
        if need_driver:
            rc, out, err = run(["lake", "build", "pepperd"], cwd=LEAN, timeout=3000)
            st.log += out + err
            st.driver_ok = (rc == 0 and os.path.exists(PEPPERD))
            if not st.driver_ok:
                st.broken.append({"kind": "model", "name": "pepperd", "detail": (out + err)[-1200:]})
        bad = forbidden_tokens(pid)
        if bad:
            st.broken.append({"kind": "audit", "name": "forbidden-tokens", "detail": "; ".join(bad[:10])})
        if prop_ok and st.theorems:
            af = os.path.join(BUILD, "audit_%s.lean" % pid)
            with open(af, "w") as f:
                f.write("import %s\n" % prop_mod)
                for n in extras:
                    f.write("import PepperProps.%s\n" % n)
                for t in st.theorems:
                    f.write("#print axioms %s\n" % full_name[t])
            rc, out, err = run(["lake", "env", "lean", af], cwd=LEAN, timeout=900)
            for t in st.theorems:
                full = full_name[t]
                m = re.search(r"'%s' depends on axioms: \[(.*?)\]" % re.escape(full), out, flags=re.S)
                if m:
                    ax = [a.strip() for a in m.group(1).replace("\n", " ").split(",") if a.strip()]
                elif re.search(r"'%s' does not depend on any axioms" % re.escape(full), out):
                    ax = []
                else:
                    st.broken.append({"kind": "audit", "name": full, "detail": "no #print axioms output: " + (out + err)[-400:]})
                    continue
                st.axioms[t] = ax
                if set(ax) <= ALLOWED_AXIOMS and not bad:
                    st.discharged.append(t)
                else:
                    st.broken.append({"kind": "audit", "name": full, "detail": "axioms %r" % ax})
        st.checker_cmd = "cd lean && lake build %s && lake env lean ../build/audit_%s.lean" % (prop_mod, pid)
        if leanchecker and prop_ok:
            rc, out, err = run(["lake", "env", "leanchecker", prop_mod], cwd=LEAN, timeout=3000)
            st.checker_cmd += " && lake env leanchecker %s" % prop_mod
            if rc != 0:
                st.broken.append({"kind": "audit", "name": "leanchecker " + prop_mod, "detail": (out + err)[-800:]})
    return st


class Driver:
    """Line protocol to the compiled Lean model. One JSON request per line, one response per line."""
    def __init__(self):
        # private copy taken under the build lock: a concurrent `lake build pepperd` replaces the file
        self.exe = os.path.join(BUILD, "pepperd-%d" % os.getpid())
        with locked():
            if not os.path.exists(self.exe) or os.path.getmtime(self.exe) < os.path.getmtime(PEPPERD):
                shutil.copy2(PEPPERD, self.exe + ".tmp")
                os.replace(self.exe + ".tmp", self.exe)
        import atexit
        atexit.register(lambda p=self.exe: os.path.exists(p) and os.remove(p))

    def call_many(self, reqs, timeout=1800):
        if not reqs:
            return []
        data = "\n".join(json.dumps(r, separators=(",", ":")) for r in reqs) + "\n"
        p = subprocess.run([self.exe], input=data, capture_output=True, text=True, timeout=timeout)
        lines = p.stdout.split("\n")
        if lines and lines[-1] == "":
            lines.pop()
        if p.returncode != 0 or len(lines) != len(reqs):
            raise RuntimeError("driver failed rc=%s, %d responses for %d requests: %s" % (
                p.returncode, len(lines), len(reqs), p.stderr[-500:]))
        return [json.loads(l) for l in lines]

    def call(self, req):
        return self.call_many([req])[0]


# ----------------------------------------------------------------------------------------------
# Results, evidence, verdict
# ----------------------------------------------------------------------------------------------

class Result:
    def __init__(self, pid):
        self.pid = pid
        self.evaluations = 0
        self.nontrivial = set()
        self.rule = ""
        self.samples = []
        self.violations = []        # {"what":…, "input":…, "observed":…, "expected":…, "cmd":…, "sig":…}
        self.corr_breaks = []       # {"name":…, "input":…, "model":…, "impl":…}
        self.programs = 0
        self.disagreements_checked = 0
        self.distribution = {}
        self.assumptions = []
        self.extra = {}
        self.exhaustive = False
        self.notes = []

    def count(self, key, n=1):
        self.distribution[key] = self.distribution.get(key, 0) + n

    def sample(self, x, limit=4):
        if len(self.samples) < limit:
            self.samples.append(x)

    def nontriv(self, x):
        self.nontrivial.add(hashlib.sha1(json.dumps(x, sort_keys=True, default=str).encode()).hexdigest())


def load_known():
    p = os.path.join(VERIF, "known_findings.json")
    if not os.path.exists(p):
        return []
    with open(p) as f:
        return json.load(f).get("findings", [])


def seed_from_env():
    try:
        return int(os.environ.get("VERIF_SEED", "0"))
    except ValueError:
        return 0


def write_replay(pid, kind, payload):
    os.makedirs(REPLAYS, exist_ok=True)
    body = {"property": pid, "kind": kind}
    body.update(payload)
    h = hashlib.sha1(json.dumps(body, sort_keys=True, default=str).encode()).hexdigest()[:12]
    path = os.path.join(REPLAYS, "%s-%s-%s.json" % (pid, kind, h))
    with open(path, "w") as f:
        json.dump(body, f, indent=1, default=str)
    return path


def finish(pid, tier, seed, t0, st, res, level="proof", level_note=""):
    """Write evidence, print verdict lines, return exit code."""
    known = [k for k in load_known() if k.get("property") == pid and k.get("status") == "known"]
    new_viol = []
    known_hit = {}
    for v in res.violations:
        hit = None
        for k in known:
            if k.get("signature") and k["signature"] == v.get("sig"):
                hit = k
        if hit:
            known_hit[hit["id"]] = hit
        else:
            new_viol.append(v)
    for k in known_hit.values():
        print("KNOWN-FINDING: property=%s %s" % (pid, k.get("what", k["id"])))
    broken = list(st.broken) if st else []
    for b in res.corr_breaks:
        broken.append({"kind": "correspondence", "name": b["name"], "detail": json.dumps(b, default=str)[:1500]})
    exit_code = 0
    lines = []
    seen = set()
    for v in new_viol:
        key = v.get("sig") or json.dumps(v.get("input"), sort_keys=True, default=str)
        if key in seen:
            continue
        seen.add(key)
        if len(seen) > 5:
            break
        path = write_replay(pid, "failing-input", v)
        lines.append("VIOLATION property=%s replay=%s" % (pid, path))
        exit_code = 1
    if not new_viol and broken:
        path = write_replay(pid, "broken-obligation", {"broken": broken,
                            "note": "a theorem / the translator / the correspondence no longer checks and the "
                                    "failing-input search found no input on which the property fails"})
        lines.append("VIOLATION property=%s replay=%s no-failing-input-found" % (pid, path))
        exit_code = 1
    obligations = len(st.theorems) if st else 0
    discharged = len(st.discharged) if st else 0
    cov = {
        "obligations": max(obligations, 1),
        "discharged": discharged,
        "checker_cmd": st.checker_cmd if st else "",
        "trusted_base": TRUSTED_BASE,
        "theorems": {t: st.axioms.get(t) for t in (st.theorems if st else [])},
        "evaluations": res.evaluations,
        "distinct_nontrivial": len(res.nontrivial),
        "rule": res.rule,
        "samples": res.samples[:6] or ["(no generated cases in this run)"],
        "programs": res.programs,
        "disagreements_checked": res.disagreements_checked,
        "distribution": res.distribution,
        "broken_obligations": broken,
        "tables_changed_this_run": bool(st and st.tables_changed),
        "exhaustive": res.exhaustive,
        "known_findings_hit": sorted(known_hit),
        "notes": res.notes,
    }
    cov.update(res.extra)
    if discharged == 0:
        # no theorem was discharged on this run (the build of the property module is broken): the proof keys would
        # claim nothing; keep the exploration counts and say so
        for k in ("obligations", "discharged"):
            cov.pop(k, None)
        cov["proof_obligations_discharged_on_this_run"] = 0
    ev = {
        "property_id": pid, "tier": tier, "seed": seed, "level": level,
        "coverage": cov,
        "assumptions": res.assumptions + ([level_note] if level_note else []),
        "wall_s": round(time.time() - t0, 2),
        "violations": len(new_viol) + (1 if (not new_viol and broken) else 0),
    }
    os.makedirs(EVIDENCE, exist_ok=True)
    with open(os.path.join(EVIDENCE, pid + ".json"), "w") as f:
        json.dump(ev, f, indent=1, default=str)
    for l in lines:
        print(l)
    if exit_code == 0:
        print("OK property=%s tier=%s seed=%d theorems=%d/%d evaluations=%d nontrivial=%d wall=%.1fs" % (
            pid, tier, seed, discharged, obligations, res.evaluations, len(res.nontrivial), time.time() - t0))
    sys.stdout.flush()
    return exit_code


def rng_for(seed, *tags):
    h = hashlib.sha256(("%d|" % seed + "|".join(map(str, tags))).encode()).digest()
    return random.Random(int.from_bytes(h[:8], "big"))
