"""Small independent reader of PIL text (doc/PIL_Spec.tex: line oriented, white-space separated tokens) into the
statement JSON the Lean model consumes, and the canonicaliser for designs (renaming of anonymous domains)."""
import re


class PilSyntax(Exception):
    pass


def read_pil(text):
    stmts = []
    for raw in text.split("\n"):
        line = re.sub(r"#.*", "", raw).strip()
        if not line:
            continue
        toks = line.split()
        cmd = toks[0]
        if cmd == "sequence":
            # sequence NAME = TEMPLATE [: LEN]
            if len(toks) < 4 or toks[2] != "=":
                if len(toks) >= 3 and toks[2] == "=":   # empty template
                    stmts.append({"k": "seq", "name": toks[1], "tmpl": ""}); continue
                raise PilSyntax(raw)
            tmpl = toks[3] if toks[3] != ":" else ""
            stmts.append({"k": "seq", "name": toks[1], "tmpl": tmpl})
        elif cmd in ("sup-sequence", "super-sequence"):
            if len(toks) < 3 or toks[2] != "=":
                raise PilSyntax(raw)
            rest = toks[3:]
            if ":" in rest:
                rest = rest[:rest.index(":")]
            stmts.append({"k": "sup", "name": toks[1], "items": rest})
        elif cmd == "strand":
            t = toks[1:]
            dummy = False
            if t and t[0] == "[dummy]":
                dummy = True; t = t[1:]
            if len(t) < 2 or t[1] != "=":
                raise PilSyntax(raw)
            rest = t[2:]
            if ":" in rest:
                rest = rest[:rest.index(":")]
            stmts.append({"k": "strand", "name": t[0], "dummy": dummy, "items": rest})
        elif cmd == "structure":
            t = toks[1:]
            params = None
            if t and t[0].startswith("["):
                m = re.match(r"\[([^\[\]]+)\]\Z", t[0])
                if not m:
                    raise PilSyntax(raw)
                params = m.group(1); t = t[1:]
            if len(t) < 4 or t[1] != "=" or ":" not in t:
                raise PilSyntax(raw)
            c = t.index(":")
            strands = [x for x in " ".join(t[2:c]).replace("+", " ").split()]
            struct = "".join(t[c + 1:])
            stmts.append({"k": "struct", "name": t[0], "params": params, "strands": strands, "struct": struct})
        elif cmd == "equal":
            stmts.append({"k": "equal", "items": toks[1:]})
        elif cmd == "kinetic":
            m = re.match(r"kinetic\s+\[\s*(\S+)\s+/M/s\s+<\s+k\s+<\s+(\S+)\s+/M/s\s*\]\s+(.*?)\s+->\s+(.*)\Z", line)
            if not m:
                raise PilSyntax(raw)
            stmts.append({"k": "kinetic", "low": m.group(1), "high": m.group(2),
                          "ins": [x.strip() for x in m.group(3).split("+") if x.strip()],
                          "outs": [x.strip() for x in m.group(4).split("+") if x.strip()]})
        else:
            raise PilSyntax(raw)
    return stmts


ANON = re.compile(r"^(.*?)_Anon(\d+)$")


def canon_design(d):
    """rename anonymous domains `<prefix>_Anon<k>` by order of first occurrence in `domains`"""
    ren = {}
    count = {}
    for name, _ in d["domains"]:
        m = ANON.match(name)
        if m and name not in ren:
            k = count.get(m.group(1), 0)
            count[m.group(1)] = k + 1
            ren[name] = "%s_Anon#%d" % (m.group(1), k)

    def rn(name):
        return ren.get(name, name)

    def rnuc(s):
        body, star = (s[:-1], "*") if s.endswith("*") else (s, "")
        dom, idx = body.rsplit(":", 1)
        return "%s:%s%s" % (rn(dom), idx, star)
    return {
        "domains": [[rn(n), t] for n, t in d["domains"]],
        "seqs": [[rn(n), [rnuc(x) for x in l]] for n, l in d["seqs"]],
        "strands": [[n, dm, [rnuc(x) for x in l]] for n, dm, l in d["strands"]],
        "structs": d["structs"],
        "kinetics": d.get("kinetics", []),
        "equals": [[[rnuc(x) for x in reg] for reg in e] for e in d["equals"]],
    }


def pil_kinetics(stmts):
    return [[s["ins"], s["outs"], s["low"], s["high"]] for s in stmts if s["k"] == "kinetic"]


def design_diff(a, b):
    """first difference between two canonical designs (None if equal)"""
    for key in ("domains", "seqs", "strands", "structs", "kinetics", "equals"):
        if a.get(key) != b.get(key):
            la, lb = a.get(key, []), b.get(key, [])
            for i in range(max(len(la), len(lb))):
                x = la[i] if i < len(la) else None
                y = lb[i] if i < len(lb) else None
                if x != y:
                    return {"field": key, "index": i, "source_denotes": x, "output_denotes": y}
    return None
