"""Runs the real compiler in-process on a generated bundle and canonicalises what it wrote."""
import os
import re

import core
from core import quiet
import progen


def anon_counter():
    from peppercompiler import DNA_classes
    return DNA_classes.AnonymousSequence.num


def canon_lines(text):
    """non-comment lines as token lists"""
    out = []
    for line in text.split("\n"):
        line = re.sub(r"#.*", "", line).strip()
        if line:
            out.append(line.split())
    return out


def compile_bundle(b, fmt="pil", fixed_text=None, root=None, keep=None):
    """returns dict(ok=bool, lines=[token lists], text=str, anon_before, anon_after, exc=str, save=bytes)"""
    from peppercompiler import compiler as pc
    import peppercompiler.utils as utils
    utils.DEBUG = False
    own = root is None
    ctx = core.scratch("pepper_c_") if own else None
    d = ctx.__enter__() if own else root
    cwd = os.getcwd()
    res = {"anon_before": anon_counter()}
    try:
        progen.write_bundle(b, d)
        fixed = None
        if fixed_text is not None:
            fixed = os.path.join(d, "fixed.fix")
            with open(fixed, "w") as f:
                f.write(fixed_text)
        out = os.path.join(d, "out." + fmt)
        save = os.path.join(d, "out.save")
        os.chdir(d)
        try:
            with quiet() as (so, se):
                pc.compiler(b.entry, list(getattr(b, "args", [])), out, save, fixed, fmt == "pil", list(b.includes) if b.includes else None)
            res["ok"] = True
            res["stderr"] = se.getvalue()
            with open(out) as f:
                res["text"] = f.read()
            res["lines"] = canon_lines(res["text"])
            with open(save, "rb") as f:
                res["save"] = f.read()
        except BaseException as e:  # noqa
            if isinstance(e, KeyboardInterrupt):
                raise
            res["ok"] = False
            res["exc"] = type(e).__name__
            try:
                res["stderr"] = se.getvalue()
            except Exception:
                res["stderr"] = ""
    finally:
        os.chdir(cwd)
        res["anon_after"] = anon_counter()
        if keep is not None and res.get("ok"):
            keep(d)
        if own:
            ctx.__exit__(None, None, None)
    return res


def model_lines(resp):
    if "ok" in resp:
        return [l.split() for l in resp["ok"]["lines"]]
    return None
