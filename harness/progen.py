"""Typed generator of .comp / .sys programs (shared by C01-C03, C06, C09, C10, C12, C14, C16, C18).

A program is generated as an AST (the JSON the Lean model consumes), rendered to source text for the
real compiler, and — for bundles — laid out as a directory tree.  Designs are satisfiable by
construction: structures only pair an occurrence of a domain with an occurrence of its complement.
"""
import json
import os
import re

CODES = "ACGTRYWSMKBDHVN"
COMPL = dict(zip("ACGTRYWSMKBDHVN", "TGCAYRWSKMVHDBN"))


def ident(rng, used, base):
    while True:
        n = base + rng.choice(["", "", str(rng.randint(0, 9)), "_" + rng.choice("xyz"), "-" + rng.choice("abc") + str(rng.randint(0, 9))])
        if rng.random() < 0.06:
            n = rng.choice("35") + rng.choice(["", "_"]) + n      # names are [\w-]+ in the component language: `5p`, `3_toe` are legal
        if n not in used and not re.match(r"_Anon\d+\Z", n):
            used.add(n)
            return n


# ------------------------------------------------------------------ quoted regions

def gen_parts(rng, total=None, allow_wild=False, codes_bias=0.7):
    """list of [mult, code]; mult int or '?'"""
    n = rng.randint(1, 4)
    parts = []
    for _ in range(n):
        c = "N" if rng.random() < codes_bias else rng.choice(CODES)
        m = rng.choice([0, 1, 1, 2, 3, 5, 8]) if rng.random() < 0.8 else rng.randint(0, 12)
        parts.append([m, c])
    if allow_wild and rng.random() < 0.5:
        parts[rng.randrange(len(parts))][0] = "?"
    return parts


def spell_parts(rng, parts):
    """text of a quoted region body (without the quotes)"""
    out = []
    for m, c in parts:
        gap = rng.choice([" ", "\t", "  "]) if rng.random() < 0.12 else ""   # white space inside a part: "3 S", "? N" (all of it is ignored)
        if m == "?":
            out.append("?" + gap + c)
        elif gap and not (m == 1 and rng.random() < 0.5):
            out.append(str(m) + gap + c)
        elif m == 1 and rng.random() < 0.6:
            out.append(c)
        elif isinstance(m, int) and 1 < m <= 3 and rng.random() < 0.2:
            out.append(c * m)
        else:
            out.append(str(m) + c)
    sep = rng.choice([" ", " ", "", "  ", "\t", " \t"])     # any white space may separate the parts of a quoted region
    s = sep.join(out)
    # adjacent tokens without separator are only safe if the next token does not start with a digit
    if sep == "":
        s = ""
        for t in out:
            if s and t[0].isdigit() and s[-1].isdigit():
                s += " "
            s += t
    return s


def parts_len(parts, wild=0):
    return sum((wild if m == "?" else m) for m, _ in parts)


def parts_const(parts, wild=0):
    return "".join(c * (wild if m == "?" else m) for m, c in parts)


def parse_spelled(text):
    """what parse_constraint makes of a quoted body (independent re-implementation for the generator's own bookkeeping)"""
    s = re.sub(r"\s", "", text)
    out, f, i = [], 1, 0
    while i < len(s):
        if s[i].isdigit():
            j = i
            while j < len(s) and s[j].isdigit():
                j += 1
            f = int(s[i:j]); i = j
        elif s[i] == "?":
            f = "?"; i += 1
        else:
            out.append([f, s[i]]); f = 1; i += 1
    return out


# ------------------------------------------------------------------ components

class CompGen:
    def __init__(self, rng, name="C", size=8, port_lens=(4, 6), nports=(1, 1), zero_prob=0.12, max_depth=4,
                 satisfiable=True, allow_kinetic=True, fancy_names=True, wild_prob=0.25, cover_strands=False, allow_domain=True):
        self.rng = rng
        self.name = name
        self.size = size
        self.port_lens = port_lens
        self.nports = nports
        self.zero_prob = zero_prob
        self.max_depth = max_depth
        self.satisfiable = satisfiable
        self.allow_kinetic = allow_kinetic
        self.fancy = fancy_names
        self.wild_prob = wild_prob
        self.cover_strands = cover_strands
        self.allow_domain = allow_domain
        self.used = set()
        self.seqs = {}      # name -> dict(len, sup(bool), items(list of (name, rev) for sup), nucs(list of (dom, idx, comp)), segs)
        self.order = []
        self.strands = {}
        self.structs = {}
        self.stmts = []
        self.anon = 0

    def nm(self, base):
        if self.fancy:
            return ident(self.rng, self.used, base)
        k = 0
        while base + str(k) in self.used:
            k += 1
        self.used.add(base + str(k))
        return base + str(k)

    @staticmethod
    def rc(nucs):
        return [(d, i, not c) for d, i, c in reversed(nucs)]

    def add_base(self, name=None, length=None, plain=False):
        rng = self.rng
        name = name or self.nm(rng.choice(["a", "b", "t", "d", "toe", "s"]))
        if length is None:
            length = 0 if rng.random() < self.zero_prob else rng.choice([1, 2, 3, 4, 5, 6, 8, 10])
        # parts summing to length
        parts = []
        left = length
        while True:
            m = left if rng.random() < 0.5 else rng.randint(0, left)
            parts.append([m, "N" if (plain or rng.random() < 0.6) else rng.choice(CODES)])
            left -= m
            if left == 0 and rng.random() < 0.7:
                break
            if len(parts) > 4:
                parts.append([left, "N"]); left = 0
                break
        declared = None
        r = rng.random()
        if r < self.wild_prob:
            k = rng.randrange(len(parts))
            parts[k][0] = "?"; declared = length
        elif r < 0.6:
            declared = length
        text = spell_parts(rng, parts)
        parts2 = parse_spelled(text)
        wild = length - sum(m for m, _ in parts2 if m != "?") if any(m == "?" for m, _ in parts2) else 0
        const = parts_const(parts2, wild)
        assert len(const) == length, (parts, text, parts2, length)
        self.stmts.append({"k": "seq", "name": name, "items": [{"t": "nuc", "text": text}], "len": declared})
        self.seqs[name] = {"len": length, "sup": False, "const": const,
                           "nucs": [(name, i, False) for i in range(length)], "segs": None}
        self.order.append(name)
        return name

    def view(self, name, rev):
        e = self.seqs[name]
        nucs = self.rc(e["nucs"]) if rev else list(e["nucs"])
        return nucs

    def segs_of(self, name, rev):
        e = self.seqs[name]
        segs = e["segs"]
        if rev:
            return [self.rc(s) for s in reversed(segs)]
        return [list(s) for s in segs]

    def gen_items(self, want_nonzero=False, depth_ok=True):
        """random item list for a super-sequence / strand: returns (items_ast, nucs, segs, declared_len)"""
        rng = self.rng
        for _attempt in range(20):
            n = rng.randint(1, 4)
            items, nucs, segs = [], [], []
            wild_at = None
            for _ in range(n):
                r = rng.random()
                names = list(self.seqs)
                sups = [x for x in names if self.seqs[x]["sup"]]
                after_sup = any(it["t"] != "nuc" and self.seqs[it["name"]]["sup"] and self.seqs[it["name"]]["len"] > 0 for it in items)
                if r < (0.3 if after_sup else 0.14):
                    # anonymous quoted region
                    L = 0 if rng.random() < 0.1 else rng.randint(1, 5)
                    parts = [[L, "N" if rng.random() < 0.7 else rng.choice(CODES)]]
                    if rng.random() < 0.3 and L > 1:
                        k = rng.randint(0, L)
                        parts = [[k, parts[0][1]], [L - k, rng.choice(CODES)]]
                    if wild_at is None and rng.random() < (0.6 if after_sup else self.wild_prob):
                        parts[rng.randrange(len(parts))][0] = "?"
                        wild_at = len(items)
                    text = spell_parts(rng, parts)
                    items.append({"t": "nuc", "text": text, "_len": L})
                    an = ("_anon", len(self.stmts), len(items))
                    seg = [(an, i, False) for i in range(L)]
                    nucs += seg; segs.append(seg)
                elif r < 0.24 and sups:
                    x = rng.choice(sups); rev = rng.random() < 0.4
                    items.append({"t": "dom", "name": x, "star": rev})
                    for sg in self.segs_of(x, rev):
                        nucs += sg; segs.append(sg)
                else:
                    x = rng.choice(names); rev = rng.random() < 0.35
                    items.append({"t": "ref", "name": x, "star": rev})
                    v = self.view(x, rev)
                    nucs += v; segs.append(v)
            if want_nonzero and not nucs:
                continue
            declared = len(nucs) if (wild_at is not None or rng.random() < 0.4) else None
            return items, nucs, segs, declared
        # fallback: a fresh non-empty base sequence
        x = self.add_base(length=self.rng.randint(1, 5))
        v = self.view(x, False)
        return [{"t": "ref", "name": x, "star": False}], v, [v], None

    def add_sup(self, name=None):
        name = name or self.nm(self.rng.choice(["x", "y", "sig", "dom", "u"]))
        for _ in range(50):
            items, nucs, segs, declared = self.gen_items()
            if not (len(items) == 1 and items[0]["t"] == "nuc"):   # a lone quoted region is an atomic sequence
                break
        else:
            x = self.add_base(); v = self.view(x, False)
            items, nucs, segs, declared = [{"t": "ref", "name": x, "star": False}], v, [v], None
        # the idiom of naming a concatenation after its parts: `sequence toe-br = toe br` (a name whose hyphen-separated pieces are
        # themselves defined names)
        if (len(items) in (2, 3) and all(it["t"] == "ref" and not it["star"] and "-" not in it["name"] for it in items)
                and self.rng.random() < 0.5 and "-".join(it["name"] for it in items) not in self.seqs):
            name = "-".join(it["name"] for it in items)
        self.stmts.append({"k": "seq", "name": name, "items": [{k: v for k, v in it.items() if not k.startswith("_")} for it in items], "len": declared})
        self.seqs[name] = {"len": len(nucs), "sup": True, "nucs": nucs, "segs": segs}
        self.order.append(name)
        return name

    def add_strand(self, name=None):
        rng = self.rng
        name = name or self.nm(rng.choice(["A", "B", "S", "Gate", "Out", "In"]))
        items, nucs, segs, declared = self.gen_items(want_nonzero=True)
        dummy = rng.random() < 0.15
        self.stmts.append({"k": "strand", "dummy": dummy, "name": name,
                           "items": [{k: v for k, v in it.items() if not k.startswith("_")} for it in items], "len": declared})
        self.strands[name] = {"len": len(nucs), "nucs": nucs, "segs": segs, "dummy": dummy}
        return name

    def pair_structure(self, snames):
        """random non-crossing pairing of complementary domain occurrences -> per-strand dot-paren lists"""
        rng = self.rng
        allnucs = []
        for s in snames:
            allnucs += self.strands[s]["nucs"]
        n = len(allnucs)
        sym = ["."] * n
        if self.satisfiable:
            # maximal runs that read one base domain contiguously
            occ = []
            i = 0
            while i < n:
                d, k, c = allnucs[i]
                j = i
                while j + 1 < n and allnucs[j + 1][0] == d and allnucs[j + 1][2] == c and \
                        allnucs[j + 1][1] == (allnucs[j][1] - 1 if c else allnucs[j][1] + 1):
                    j += 1
                occ.append((i, j))
                i = j + 1
            cands = []
            for a in range(len(occ)):
                for b in range(a + 1, len(occ)):
                    (i0, i1), (j0, j1) = occ[a], occ[b]
                    da, ka, ca = allnucs[i0]; db, kb, cb = allnucs[j1]
                    if da == db and ca != cb and isinstance(da, str):
                        # align: position i0+t pairs with j1-t while indices agree
                        t = 0
                        if allnucs[i0][1] != allnucs[j1][1]:
                            continue
                        while i0 + t <= i1 and j1 - t >= j0 and allnucs[i0 + t][1] == allnucs[j1 - t][1] and i0 + t < j1 - t:
                            t += 1
                        if t > 0:
                            cands.append((i0, j1, t))
            rng.shuffle(cands)
            taken = []
            for (i0, j1, t) in cands:
                if rng.random() > getattr(self, "_pair_prob", 0.7):
                    continue
                ok = True
                for (a0, b1, u) in taken:
                    # intervals [i0,i0+t) & (j1-t,j1] must nest or be disjoint with [a0,a0+u) (b1-u,b1]
                    lo1, hi1 = i0 + t - 1, j1 - t + 1
                    lo2, hi2 = a0 + u - 1, b1 - u + 1
                    inside = a0 + u - 1 < i0 and j1 < b1 - u + 1           # new inside old
                    outside = i0 + t - 1 < a0 and b1 < j1 - t + 1          # old inside new
                    before = j1 < a0 or b1 < i0                             # disjoint
                    if not (inside or outside or before):
                        ok = False; break
                if ok:
                    taken.append((i0, j1, t))
            for (i0, j1, t) in taken:
                for k in range(t):
                    sym[i0 + k] = "("; sym[j1 - k] = ")"
        else:
            # arbitrary balanced pairing
            stack = []
            for i in range(n):
                r = rng.random()
                if r < 0.3:
                    stack.append(i); sym[i] = "("
                elif r < 0.55 and stack:
                    stack.pop(); sym[i] = ")"
            for i in stack:
                sym[i] = "."
        out, pos = [], 0
        for s in snames:
            L = self.strands[s]["len"]
            out.append(sym[pos:pos + L]); pos += L
        return out

    def add_foreign_duplex(self):
        """a helix between two DIFFERENT fresh domains u and v (plain templates, equal length): their complementarity exists only
        because the structure pairs them — also when the structure is [no-opt]"""
        rng = self.rng
        L = rng.randint(2, 5)
        u, v = self.add_base(length=L, plain=True), self.add_base(length=L, plain=True)
        others = [y for y in self.seqs if self.seqs[y]["len"] > 0 and y not in (u, v)]
        def strand_with(items):
            name = self.nm(rng.choice(["F", "Fa", "Fb"]))
            nucs, segs = [], []
            for it in items:
                w = self.view(it["name"], it["star"])
                nucs += w; segs.append(w)
            self.stmts.append({"k": "strand", "dummy": False, "name": name, "items": items, "len": None})
            self.strands[name] = {"len": len(nucs), "nucs": nucs, "segs": segs, "dummy": False}
            return name
        pad = lambda: [{"t": "ref", "name": rng.choice(others), "star": rng.random() < 0.3}] if others and rng.random() < 0.5 else []
        su, sv = rng.random() < 0.3, rng.random() < 0.3
        p1, p2, p3, p4 = pad(), pad(), pad(), pad()
        n = lambda ps: sum(len(self.view(it["name"], it["star"])) for it in ps)
        if rng.random() < 0.3:
            loop = self.add_base(length=rng.randint(3, 5))
            items = p1 + [{"t": "ref", "name": u, "star": su}, {"t": "ref", "name": loop, "star": False}, {"t": "ref", "name": v, "star": sv}] + p2
            snames = [strand_with(items)]
            dp = "." * n(p1) + "(" * L + "." * self.seqs[loop]["len"] + ")" * L + "." * n(p2)
        else:
            snames = [strand_with(p1 + [{"t": "ref", "name": u, "star": su}] + p2), strand_with(p3 + [{"t": "ref", "name": v, "star": sv}] + p4)]
            dp = "." * n(p1) + "(" * L + "." * n(p2) + "+" + "." * n(p3) + ")" * L + "." * n(p4)
        from props.c08 import spell_runlength, spell_plain
        name = self.nm(rng.choice(["FD", "Hx"]))
        text = (spell_runlength(rng, dp).strip() if rng.random() < 0.5 else spell_plain(rng, dp).strip()) or dp
        opt = rng.choice([None, "no-opt", "no-opt", "2", "0.5"])
        self.stmts.append({"k": "struct", "opt": opt, "name": name, "strands": snames, "domain": False, "text": text})
        self.structs[name] = {"strands": snames, "dp": dp, "opt": opt}
        return name

    def add_duplex(self):
        """two strands containing x and x* (or a hairpin x .. x*) and a structure pairing them"""
        rng = self.rng
        cands = [x for x in self.seqs if self.seqs[x]["len"] > 0]
        if not cands:
            return
        x = rng.choice(cands)
        def strand_with(items):
            name = self.nm(rng.choice(["D", "Top", "Bot", "Hp"]))
            nucs, segs = [], []
            for it in items:
                v = self.view(it["name"], it["star"])
                nucs += v; segs.append(v)
            self.stmts.append({"k": "strand", "dummy": False, "name": name, "items": items, "len": None})
            self.strands[name] = {"len": len(nucs), "nucs": nucs, "segs": segs, "dummy": False}
            return name
        others = [y for y in self.seqs if self.seqs[y]["len"] > 0]
        pad = lambda: [{"t": "ref", "name": rng.choice(others), "star": rng.random() < 0.3}] if rng.random() < 0.5 else []
        if rng.random() < 0.3:
            loop = self.add_base(length=rng.randint(3, 5))
            s1 = strand_with(pad() + [{"t": "ref", "name": x, "star": False}, {"t": "ref", "name": loop, "star": False},
                                      {"t": "ref", "name": x, "star": True}] + pad())
            self.add_struct(snames=[s1], pair_prob=1.0)
        else:
            s1 = strand_with(pad() + [{"t": "ref", "name": x, "star": False}] + pad())
            s2 = strand_with(pad() + [{"t": "ref", "name": x, "star": True}] + pad())
            self.add_struct(snames=[s1, s2], pair_prob=1.0)

    def add_struct(self, name=None, snames=None, pair_prob=0.7):
        rng = self.rng
        if not self.strands:
            return None
        name = name or self.nm(rng.choice(["G", "Cx", "St", "Waste", "Sig"]))
        k = rng.choice([1, 1, 2, 2, 3])
        self._pair_prob = pair_prob
        snames = snames or [rng.choice(list(self.strands)) for _ in range(k)]
        per = self.pair_structure(snames)
        dp = "+".join("".join(p) for p in per)
        # choose a notation
        from props.c08 import spell_hu, spell_runlength, spell_plain  # spelling helpers shared with C08
        choice = rng.random()
        domain = False
        text = None
        if choice < 0.2 and getattr(self, "allow_domain", True):
            # domain-level if every item of every strand has a uniform symbol
            dom = []
            ok = True
            for s, p in zip(snames, per):
                pos, row = 0, []
                for seg in self.strands[s]["segs"]:
                    syms = set(p[pos:pos + len(seg)])
                    if len(syms) > 1:
                        ok = False
                    row.append(next(iter(syms)) if syms else rng.choice(".."))
                    pos += len(seg)
                dom.append("".join(row))
            ddp = "+".join(dom)
            depth, bal = 0, True
            for c in ddp:
                depth += (c == "(") - (c == ")")
                bal = bal and depth >= 0
            if ok and bal and depth == 0:
                domain = True
                text = spell_plain(rng, ddp) if rng.random() < 0.7 else spell_runlength(rng, ddp).strip()
        if text is None:
            if choice < 0.5:
                text = spell_hu(rng, self.tree_of(dp)).strip()
            elif choice < 0.8:
                text = spell_runlength(rng, dp).strip()
            else:
                text = spell_plain(rng, dp).strip()
        if not text or (not domain and ("U" in text or "H" in text) and "." in text):
            text = dp
        r = rng.random()
        opt = None if r < 0.4 else "no-opt" if r < 0.55 else str(rng.choice([1, 2, 5, 10, 3, "0.5", "2.5", "0.25", "1.5", "0.04", "12.75", "7.0"]))
        self.stmts.append({"k": "struct", "opt": opt, "name": name, "strands": snames, "domain": domain, "text": text})
        # other spellings of the same number that float() reads (the bracket holds whatever float() accepts before `nt`)
        # (the bracket's character class is [\w.]: no sign, hence no negative exponent)
        alt = {"0.5": [".5", "0.50", "00.5"], "10": ["1e1", "10.", "1E1", "010"], "2.5": ["2.50", "02.5"], "1": ["1E0", "1.", "001"], "2": ["2.", "2e0"],
               "5": ["5.0", "0.5e1"], "0.25": [".25", "0.250"]}
        if opt in alt and rng.random() < 0.3:
            self.stmts[-1]["_opt_text"] = rng.choice(alt[opt])
        self.structs[name] = {"strands": snames, "dp": dp, "opt": opt}
        return name

    @staticmethod
    def tree_of(dp):
        stack, cur = [], []
        for c in dp:
            if c == "(":
                stack.append(cur); cur = []
            elif c == ")":
                inner = cur; cur = stack.pop(); cur.append(("p", inner))
            else:
                cur.append(c)
        return cur

    def add_kinetic(self):
        rng = self.rng
        if not self.structs:
            return
        names = list(self.structs)
        ins = [rng.choice(names) for _ in range(rng.randint(1, 2))]
        outs = [rng.choice(names) for _ in range(rng.randint(1, 2))]
        low = None if rng.random() < 0.5 else rng.choice(["100", "1000.5", "0", "25000", "0.25"])
        self.stmts.append({"k": "kinetic", "low": low, "high": None, "ins": ins, "outs": outs})

    def build(self):
        rng = self.rng
        nb = rng.randint(1, max(1, self.size // 2))
        for _ in range(nb):
            self.add_base()
        if not any(self.seqs[x]["len"] > 0 for x in self.seqs):
            self.add_base(length=rng.randint(1, 6))
        # port sequences with controlled lengths
        n_in = rng.randint(*self.nports); n_out = rng.randint(*self.nports)
        ports = []
        for k in range(n_in + n_out):
            if k >= n_in and ports and rng.random() < 0.1:
                # the declaration lists one sequence twice (as an input and as an output, like David_CRN/rxn_ab_2b; with
                # independent stars): bound to one signal it gives one connector, or two of different names
                ports.append(rng.choice(ports)); continue
            L = rng.choice(self.port_lens)
            plain = rng.random() < 0.8      # ports with plain N templates keep most systems satisfiable
            if rng.random() < 0.5:
                p = self.add_base(length=L, plain=plain)
            else:
                # a super-sequence port made of fresh pieces with total length L
                a = rng.randint(0, L)
                x = self.add_base(length=a, plain=plain); y = self.add_base(length=L - a, plain=plain)
                p = self.nm("p")
                rx, ry = rng.random() < 0.3, rng.random() < 0.3
                self.stmts.append({"k": "seq", "name": p, "items": [{"t": "ref", "name": x, "star": rx}, {"t": "ref", "name": y, "star": ry}],
                                   "len": L if rng.random() < 0.5 else None})
                vx, vy = self.view(x, rx), self.view(y, ry)
                self.seqs[p] = {"len": L, "sup": True, "nucs": vx + vy, "segs": [vx, vy]}
                self.order.append(p)
                if rng.random() < 0.35:
                    # a port whose member is itself a super-sequence (`toe = a b`, `inp = toe c`): the port proper is `q`
                    z = self.add_base(length=rng.choice([0, 0, 1, 2, 3]), plain=plain)
                    q = self.nm("q")
                    rp, rz = rng.random() < 0.3, rng.random() < 0.3
                    vp, vz = self.view(p, rp), self.view(z, rz)
                    its = [({"t": "ref", "name": p, "star": rp}, vp), ({"t": "ref", "name": z, "star": rz}, vz)]
                    if rng.random() < 0.4:
                        its.reverse()
                    self.stmts.append({"k": "seq", "name": q, "items": [i for i, _ in its], "len": None})
                    self.seqs[q] = {"len": len(vp) + len(vz), "sup": True, "nucs": its[0][1] + its[1][1], "segs": [its[0][1], its[1][1]]}
                    self.order.append(q)
                    p = q
            ports.append(p)
        todo = ["sup"] * rng.randint(0, max(1, self.size // 3)) + ["strand"] * rng.randint(1, max(1, self.size // 3))
        rng.shuffle(todo)
        for t in todo:
            (self.add_sup if t == "sup" else self.add_strand)()
        # make sure every port occurs in some strand (so that it is designed)
        for p in list(dict.fromkeys(ports)):
            name = self.nm("P")
            rev = rng.random() < 0.4
            v = self.view(p, rev)
            self.stmts.append({"k": "strand", "dummy": False, "name": name, "items": [{"t": "ref", "name": p, "star": rev}], "len": None})
            self.strands[name] = {"len": len(v), "nucs": v, "segs": [v], "dummy": False}
        for _ in range(rng.randint(1, max(1, self.size // 3))):
            self.add_struct()
        for _ in range(rng.choice([0, 1, 1, 2])):
            self.add_duplex()
        if rng.random() < 0.35:
            self.add_foreign_duplex()
        if getattr(self, "cover_strands", False):
            used = {s for st_ in self.structs.values() for s in st_["strands"]}
            for sname in list(self.strands):
                if sname not in used:
                    self.add_struct(snames=[sname], pair_prob=0.5)
        if self.allow_kinetic and rng.random() < 0.3:
            self.add_kinetic()
        # a few late definitions after structures (order of statements is free)
        if rng.random() < 0.3:
            self.add_base()
        def port(p):
            st = rng.choice(list(self.structs)) if self.structs and rng.random() < 0.3 else None
            return {"seq": p, "star": rng.random() < 0.4, "struct": st}
        ast = {"kind": "comp", "name": self.name, "params": [], "inputs": [port(p) for p in ports[:n_in]],
               "outputs": [port(p) for p in ports[n_in:]], "stmts": self.stmts}
        return ast


def ws(rng):
    return rng.choice([" ", " ", " ", "  ", "\t", " \t"])


def render_item(it):
    if it["t"] == "nuc":
        return '"%s"' % it["text"]
    s = it["name"] + ("*" if it["star"] else "")
    return "domains(%s)" % s if it["t"] == "dom" else s


def render_comp(ast, rng, params_text=None):
    L = []
    def portt(p):
        return p["seq"] + ("*" if p["star"] else "") + ("(%s)" % p["struct"] if p["struct"] else "")
    ptxt = "(%s)" % ", ".join(ast["params"]) if ast["params"] else ""
    L.append("declare component %s%s: %s -> %s" % (ast["name"], ptxt, " + ".join(map(portt, ast["inputs"])), " + ".join(map(portt, ast["outputs"]))))
    for s in ast["stmts"]:
        if rng.random() < 0.1:
            L.append("# comment %d" % rng.randint(0, 99))
        if rng.random() < 0.05:
            L.append("")
        k = s["k"]
        if k == "seq" or k == "strand":
            head = "sequence" if k == "seq" else "strand" + (ws(rng) + "[dummy]" if s["dummy"] else "")
            line = head + ws(rng) + s["name"] + ws(rng) + "=" + ws(rng) + ws(rng).join(render_item(i) for i in s["items"])
            if s["len"] is not None:
                line += ws(rng) + ":" + ws(rng) + str(s["len"])
        elif k == "struct":
            opt = "" if s["opt"] is None else ws(rng) + ("[no-opt]" if s["opt"] == "no-opt" else "[%snt]" % s.get("_opt_text", s["opt"]))
            line = "structure" + opt + ws(rng) + s["name"] + ws(rng) + "=" + ws(rng) + (ws(rng) + "+" + ws(rng)).join(s["strands"]) + \
                   ws(rng) + ":" + (ws(rng) + "domain" if s["domain"] else "") + ws(rng) + s["text"]
        else:
            g_ = lambda: rng.choice([" ", " ", " ", "  ", "\t", " \t "])     # any white space may stand where the pattern has a blank
            par = "" if s["low"] is None else " [k%s>%s%s%s/M/s]" % (g_(), g_(), s["low"], g_())
            line = "kinetic" + par + " " + " + ".join(s["ins"]) + " -> " + " + ".join(s["outs"])
        if rng.random() < 0.1:
            line += "  # trailing comment"
        L.append(line)
    return "\n".join(L) + "\n"


def strip_private(ast):
    if isinstance(ast, dict):
        return {k: strip_private(v) for k, v in ast.items() if not k.startswith("_")}
    if isinstance(ast, list):
        return [strip_private(x) for x in ast]
    return ast


# ------------------------------------------------------------------ systems

class Bundle:
    """a directory tree of sources + the model's view of it"""
    def __init__(self):
        self.texts = {}      # relative path -> text
        self.files = {}      # "normpath@instpath" -> ast
        self.entry = None
        self.includes = []
        self.nargs = 0
        self.templates = {}  # relative path (without ext) -> generator info
        self.asts = {}       # relative path (with ext) -> AST as generated (component files only)
        self.inst_keys = {}  # relative path (with ext) -> keys of self.files instantiating it


def gen_component_bundle(rng, size=8, **kw):
    g = CompGen(rng, name="Top", size=size, **kw)
    ast = g.build()
    b = Bundle()
    b.texts["top.comp"] = render_comp(ast, rng)
    b.files["top.comp@"] = strip_private(ast)
    b.asts["top.comp"] = ast
    b.inst_keys["top.comp"] = ["top.comp@"]
    b.entry = "top"
    b.gen = g
    return b


def gen_system_bundle(rng, depth=1, size=6, n_templates=2, **kw):
    """a system of component instances (and, for depth>1, sub-systems), signals wired by port length"""
    b = Bundle()
    lib = []   # (import path, kind, ast, in/out port lengths+stars)
    subdirs = ["", "", "lib/", "parts/"] if rng.random() < 0.7 else ["", "lib/", "parts/", "parts/deep/", "lib/x/"]
    used_names = set()
    needed = set()

    def new_comp_template(i):
        g = CompGen(rng, name="T%d" % i, size=size, nports=(1, 2), **kw)
        ast = g.build()
        d = rng.choice(subdirs)
        path = d + "tmpl%d" % i
        info = {"path": path, "kind": "comp", "ast": ast,
                "ins": [(g.seqs[p["seq"]]["len"], p["star"]) for p in ast["inputs"]],
                "outs": [(g.seqs[p["seq"]]["len"], p["star"]) for p in ast["outputs"]]}
        b.texts[path + ".comp"] = render_comp(ast, rng)
        b.asts[path + ".comp"] = ast
        return info

    for i in range(n_templates):
        lib.append(new_comp_template(i))

    counter = [n_templates]

    def new_system(level, name):
        """returns info of a system template placed in the bundle"""
        insts = []
        n_inst = rng.randint(1, 4)
        avail = list(lib)
        stmts = []
        imports = {}
        signals = {}   # name -> length
        sig_names = []
        sysports = []
        d = rng.choice(subdirs)      # directory of this system file
        for k in range(n_inst):
            t = rng.choice(avail)
            alias = None
            base = t["path"].split("/")[-1]
            tname = base
            if rng.random() < 0.3:
                alias = "Al%d" % rng.randint(0, 99)
                tname = alias
            # imports are searched in the importing file's directory first: spell a sibling by its bare name
            ipath = t["path"]
            if d and t["path"].startswith(d) and rng.random() < 0.7:
                ipath = t["path"][len(d):]
            elif "/" in t["path"] and rng.random() < 0.35:
                ipath = base          # lives elsewhere: only the include path can find it
            # which include directory this spelling really needs (the importer's own directory d is searched first)
            if os.path.normpath(os.path.join(d, ipath)) != os.path.normpath(t["path"]):
                needed.add(os.path.normpath(t["path"][:len(t["path"]) - len(ipath)] or "."))
            if tname in imports and imports[tname] != ipath:
                continue
            if tname not in imports:
                imports[tname] = ipath
                stmts.append({"k": "import", "items": [[ipath, alias]]})
            iname = "g%d" % k if rng.random() < 0.7 else "Gate_%d" % k
            def bind(plist):
                out = []
                for (L, pstar) in plist:
                    cands = [s for s in sig_names if signals[s] == L]
                    if cands and rng.random() < 0.6:
                        s = rng.choice(cands)
                    else:
                        s = "s%d" % len(sig_names)
                        sig_names.append(s); signals[s] = L
                    out.append({"name": s, "star": rng.random() < 0.4})
                return out
            ins, outs = bind(t["ins"]), bind(t["outs"])
            stmts.append({"k": "component", "name": iname, "templ": tname, "nargs": 0, "ins": ins, "outs": outs, "_t": t})
            insts.append(iname)
        if not sig_names:
            return None
        n_in = rng.randint(0, min(2, len(sig_names))); n_out = rng.randint(0 if n_in else 1, min(2, len(sig_names)))
        chosen = rng.sample(sig_names, min(len(sig_names), n_in + n_out))
        inputs = [{"name": s, "star": rng.random() < 0.3} for s in chosen[:n_in]]
        outputs = [{"name": s, "star": rng.random() < 0.3} for s in chosen[n_in:]]
        ast = {"kind": "sys", "name": name, "params": [], "inputs": inputs, "outputs": outputs, "stmts": stmts}
        path = d + "sys%d" % counter[0]
        counter[0] += 1
        info = {"path": path, "kind": "sys", "ast": ast,
                "ins": [(signals[s["name"]], s["star"]) for s in inputs],
                "outs": [(signals[s["name"]], s["star"]) for s in outputs]}
        b.texts[path + ".sys"] = render_sys(ast, rng)
        return info

    top = None
    for level in range(depth):
        for _ in range(5):
            info = new_system(level, "S%d" % level)
            if info:
                break
        if info is None:
            continue
        top = info
        if level + 1 < depth:
            lib.append(info)
    if top is None:
        return None
    b.entry = top["path"]
    # imports are relative to the importing file's directory, then the include path: put every
    # directory that holds a template on the include list (in random order) unless it is the importer's own
    dirs = sorted({os.path.dirname(p) for p in b.texts})
    rng.shuffle(dirs)
    b.includes = [d if d else "." for d in dirs]
    if "." not in b.includes:
        b.includes.insert(rng.randint(0, len(b.includes)), ".")
    if rng.random() < 0.5:
        # only the directories some import spelling cannot do without: everything else must be found relative to the
        # importing file's own directory
        b.includes = [x for x in b.includes if x in needed]
    # model view: instantiate the tree
    def inst(info, instpath):
        key = os.path.normpath(info["path"] + (".sys" if info["kind"] == "sys" else ".comp")) + "@" + instpath
        b.files[key] = strip_private(info["ast"])
        if info["kind"] == "sys":
            for s in info["ast"]["stmts"]:
                if s["k"] == "component":
                    inst(s["_t"], instpath + s["name"] if not instpath else instpath + "-" + s["name"])
    # instance path keys: "@" + pfx + cname where pfx is "a-b-" ; top is "@"
    def inst2(info, pfx, top_level):
        key = os.path.normpath(info["path"] + (".sys" if info["kind"] == "sys" else ".comp")) + "@" + ("" if top_level else pfx[:-1])
        b.files[key] = strip_private(info["ast"])
        if info["kind"] == "comp":
            b.inst_keys.setdefault(info["path"] + ".comp", []).append(key)
        if info["kind"] == "sys":
            for s in info["ast"]["stmts"]:
                if s["k"] == "component":
                    inst2(s["_t"], pfx + s["name"] + "-", False)
    inst2(top, "", True)
    b.top = top
    return b


def render_sys(ast, rng):
    def sg(s):
        return s["name"] + ("*" if s["star"] else "")
    L = ["declare system %s: %s -> %s" % (ast["name"], " + ".join(map(sg, ast["inputs"])), " + ".join(map(sg, ast["outputs"])))]
    for s in ast["stmts"]:
        if rng.random() < 0.1:
            L.append("# a comment")
        if s["k"] == "import":
            L.append("import " + ", ".join(p + (" as " + a if a else "") for p, a in s["items"]))
        else:
            L.append("component %s = %s: %s -> %s" % (s["name"], s["templ"], " + ".join(map(sg, s["ins"])), " + ".join(map(sg, s["outs"]))))
    return "\n".join(L) + "\n"


def exists_list(b):
    return sorted(os.path.normpath(p) for p in b.texts)


def write_bundle(b, root):
    for rel, text in b.texts.items():
        p = os.path.join(root, rel)
        os.makedirs(os.path.dirname(p), exist_ok=True)
        with open(p, "w") as f:
            f.write(text)


def compile_request(b, fmt="pil", anon=0, fixed=None):
    return {"op": "compile", "files": b.files, "exists": exists_list(b), "entry": b.entry, "nargs": b.nargs,
            "includes": b.includes, "anon": anon, "format": fmt, "fixed": fixed or []}


def set_component(b, relpath, ast, rng):
    """replace one component file of a bundle by a new AST (text re-rendered, every instance updated)"""
    import copy
    b2 = copy.copy(b)
    b2.texts = dict(b.texts); b2.files = dict(b.files); b2.asts = dict(b.asts)
    b2.texts[relpath] = render_comp(ast, rng)
    b2.asts[relpath] = ast
    for k in b.inst_keys.get(relpath, []):
        b2.files[k] = strip_private(ast)
    return b2


def both_orientation_bundle(rng):
    """a template that lists one sequence as input and as starred output (`x -> x*`), instantiated with ONE signal on both sides
    (`s* -> s*`: the port is bound to the signal once complementary and once equal), inside a system that is itself used as a
    component (1-2 levels).  Texts only (`directed`): judged by oracles on the real output, not sent to the model."""
    t = CompGen(rng, name="T", size=3, nports=(1, 1), port_lens=(6,)).build()
    t["outputs"] = [dict(t["inputs"][0], star=not t["inputs"][0]["star"], struct=None)]
    b = Bundle()
    b.texts["T.comp"] = render_comp(t, rng)
    s1 = rng.choice(["", "*"])
    b.texts["G.sys"] = "declare system G: s%s -> \nimport T\ncomponent g = T: s* -> s*\ncomponent h = T: s -> u\n" % s1
    depth = rng.randint(1, 2)
    if depth == 1:
        b.texts["Top.sys"] = "declare system Top:  -> \nimport G\ncomponent a = G: w -> \ncomponent b = G: w%s -> \n" % rng.choice(["", "*"])
    else:
        b.texts["Mid.sys"] = "declare system Mid: p -> \nimport G\ncomponent i = G: p%s -> \n" % rng.choice(["", "*"])
        b.texts["Top.sys"] = "declare system Top:  -> \nimport Mid\ncomponent m = Mid: w -> \ncomponent n = Mid: w -> \n"
    b.entry = "Top"
    b.includes = []
    b.directed = True
    return b
