"""Building and running the bundled spuriousSSM binary for the checks (C19, C05).

Two builds of $PEPPER_REPO/peppercompiler/SpuriousDesign/spuriousSSM.c are kept under /verif/build/,
named after the hash of the source so that a changed source (or a mutated copy of the repo) is rebuilt
and never confused with another tree's binary:
  ssm_plain_<hash>  -O2
  ssm_san_<hash>    -fsanitize=address,undefined -g -O1   (clang if present, else gcc)
The sanitizer build runs with ASAN_OPTIONS=detect_leaks=0:abort_on_error=1 (the program leaks its work
arrays at exit by design) and UBSAN_OPTIONS=halt_on_error=1:print_stacktrace=1.
"""
import fcntl
import hashlib
import os
import shutil
import subprocess

import core

SRC_REL = os.path.join("peppercompiler", "SpuriousDesign", "spuriousSSM.c")
SAN_ENV = {"ASAN_OPTIONS": "detect_leaks=0:abort_on_error=1",
           "UBSAN_OPTIONS": "halt_on_error=1:print_stacktrace=1"}
SAN_MARKERS = ("AddressSanitizer", "runtime error:", "UndefinedBehaviorSanitizer", "LeakSanitizer",
               "MemorySanitizer", "SUMMARY: ")


class BuildError(Exception):
    pass


def source_path():
    return os.path.join(core.REPO, SRC_REL)


def source_hash():
    with open(source_path(), "rb") as f:
        return hashlib.sha1(f.read()).hexdigest()[:12]


def _compilers(sanitize):
    cands = ["clang", "gcc"] if sanitize else ["gcc", "clang"]
    return [c for c in cands if shutil.which(c)]


_built = {}


def build(sanitize=False):
    """path of the binary for the current source; compiles when missing (atomic rename, file lock)."""
    h = source_hash()
    key = (sanitize, h)
    if key in _built and os.path.exists(_built[key]):
        return _built[key]
    kind = "san" if sanitize else "plain"
    exe = os.path.join(core.BUILD, "ssm_%s_%s" % (kind, h))
    if not os.path.exists(exe):
        with open(os.path.join(core.BUILD, ".ssm.lock"), "w") as lk:
            fcntl.flock(lk, fcntl.LOCK_EX)
            try:
                if not os.path.exists(exe):
                    flags = (["-fsanitize=address,undefined", "-fno-sanitize-recover=undefined", "-g", "-O1",
                              "-fno-omit-frame-pointer"] if sanitize else ["-O2"])
                    err = ""
                    for cc in _compilers(sanitize):
                        tmp = exe + ".tmp%d" % os.getpid()
                        p = subprocess.run([cc, "-w"] + flags + ["-o", tmp, source_path(), "-lm"],
                                           capture_output=True, text=True, timeout=600)
                        if p.returncode == 0 and os.path.exists(tmp):
                            os.rename(tmp, exe)
                            break
                        err += "%s: %s\n" % (cc, p.stderr[-1500:])
                    else:
                        raise BuildError("cannot compile %s (%s):\n%s" % (source_path(), kind, err))
                    # drop binaries of older sources of the same kind (keep the directory small)
                    olds = sorted((f for f in os.listdir(core.BUILD)
                                   if f.startswith("ssm_%s_" % kind) and ".tmp" not in f),
                                  key=lambda f: os.path.getmtime(os.path.join(core.BUILD, f)))
                    for f in olds[:-6]:
                        try:
                            os.unlink(os.path.join(core.BUILD, f))
                        except OSError:
                            pass
            finally:
                fcntl.flock(lk, fcntl.LOCK_UN)
    _built[key] = exe
    return exe


NUMBER_SPELLINGS = {"int": "%d ", "point": "%.1f ", "exp": "%.7e ", "wide": "%6d "}   # the loader reads the entries with %lf


def write_inputs(d, st, eq, wc, start=None, spelling="int", trail=0):
    """the three files exactly as design/spurious_design.py writes them ("%d " per entry, raw template
    characters, no newline); `start` (optional) is an initial sequence file for `sequence=`."""
    paths = {"st": os.path.join(d, "x.st"), "eq": os.path.join(d, "x.eq"), "wc": os.path.join(d, "x.wc")}
    fmt = NUMBER_SPELLINGS[spelling]
    if trail:
        # entries for trailing blanks in all three files (template ends in ' ', eq in 0, wc in -1): the loader documents that it drops
        # them, so this is the same triple
        st, eq, wc = list(st) + [" "] * trail, list(eq) + [0] * trail, list(wc) + [-1] * trail
    with open(paths["eq"], "w") as f:
        for x in eq:
            f.write(fmt % x)
    with open(paths["wc"], "w") as f:
        for x in wc:
            f.write(fmt % x)
    with open(paths["st"], "w") as f:
        for x in st:
            f.write("%c" % x)
    if start is not None:
        paths["seq"] = os.path.join(d, "x.seq")
        with open(paths["seq"], "w") as f:
            f.write(start)
    return paths


def command_line(exe, paths, opts, no_template=False):
    cmd = [exe] + ([] if no_template else ["template=" + paths["st"]]) + ["wc=" + paths["wc"], "eq=" + paths["eq"]]
    if "seq" in paths:
        cmd.append("sequence=" + paths["seq"])
    return cmd + list(opts)


def run_ssm(st, eq, wc, opts, seed, sanitize=False, start=None, timeout=20.0, spelling="int", trail=0, no_template=False):
    """-> (rc, stdout, stderr, trace_lines, timed_out).  rc is None when the run was killed."""
    exe = build(sanitize)
    with core.scratch("pepper_ssm_") as d:
        paths = write_inputs(d, st, eq, wc, start, spelling, trail)
        trace = os.path.join(d, "trace.txt")
        env = dict(os.environ)
        env[core.GUARD] = "1"
        env["PEPPERCOMPILER_VERIF_SEED"] = str(seed)
        env["PEPPERCOMPILER_VERIF_TRACE"] = trace
        if sanitize:
            env.update(SAN_ENV)
        timed_out = False
        proc = subprocess.Popen(command_line(exe, paths, opts, no_template), stdout=subprocess.PIPE, stderr=subprocess.PIPE,
                                env=env, cwd=d)
        try:
            out, err = proc.communicate(timeout=timeout)
            rc = proc.returncode
        except subprocess.TimeoutExpired:
            proc.kill()
            out, err = proc.communicate()
            rc, timed_out = None, True
        lines = []
        if os.path.exists(trace):
            with open(trace, errors="replace") as f:
                lines = f.read().split("\n")
            if lines and lines[-1] == "":
                lines.pop()
        return rc, out.decode(errors="replace"), err.decode(errors="replace"), lines, timed_out


def sanitizer_report(stderr):
    return any(m in stderr for m in SAN_MARKERS)


def parse_trace(lines):
    """-> dict(params=(N,Nfree,bmax,imax,tmax) | None, start=str | None, events=[(i, base, cmp)],
               states=[(step, cmp, bored, S)], final=str | None, complete=bool)"""
    out = {"params": None, "start": None, "events": [], "states": [], "final": None, "complete": False}
    pend = None
    for ln in lines:
        try:
            if ln.startswith("p "):
                vals = tuple(int(x) for x in ln[2:].split())
                if len(vals) != 5:
                    break
                out["params"] = vals
            elif ln.startswith("c "):
                out["start"] = ln[2:]
            elif ln.startswith("m "):
                parts = ln.split(" ")
                if len(parts) != 3 or len(parts[2]) != 1:
                    break   # truncated line of a killed run
                pend = (int(parts[1]), parts[2])
            elif ln.startswith("s "):
                parts = ln.split(" ", 4)
                if len(parts) < 5 or pend is None:
                    break
                step, cmp_, bored, S = int(parts[1]), int(parts[2]), int(parts[3]), parts[4]
                out["events"].append((pend[0], pend[1], cmp_))
                out["states"].append((step, cmp_, bored, S))
                pend = None
            elif ln.startswith("f "):
                out["final"] = ln[2:]
                out["complete"] = True
        except ValueError:
            break
    return out
