"""Independent constraint semantics used by oracles (C03, C06, C14): union-find with parity over nucleotide
variables, allowed-base sets, and the 'what is forced on the structures' canonical form.
Shares no code with peppercompiler."""
import re

BASES = "ACGT"
GROUP = {"A": "A", "C": "C", "G": "G", "T": "T", "R": "AG", "Y": "CT", "W": "AT", "S": "CG", "M": "AC", "K": "GT",
         "B": "CGT", "D": "AGT", "H": "ACT", "V": "ACG", "N": "ACGT"}
COMP = {"A": "T", "T": "A", "C": "G", "G": "C"}


def compl_set(s):
    return frozenset(COMP[b] for b in s)


class UF:
    """union-find with parity: find(x) -> (root, parity of x relative to root)"""
    def __init__(self):
        self.p = {}
        self.q = {}

    def add(self, x):
        if x not in self.p:
            self.p[x] = x; self.q[x] = 0

    def find(self, x):
        self.add(x)
        path = []
        while self.p[x] != x:
            path.append(x); x = self.p[x]
        root = x
        # compress with parity
        acc = 0
        for y in reversed(path):
            acc ^= self.q[y]
            self.p[y] = root; self.q[y] = acc
        return root, (self.q[path[0]] if path else 0)

    def union(self, x, y, parity):
        """force parity(x) xor parity(y) == parity. Returns False on an odd cycle (x forced complementary to itself)."""
        rx, px = self.find(x)
        ry, py = self.find(y)
        if rx == ry:
            return (px ^ py) == parity
        self.p[rx] = ry
        self.q[rx] = px ^ py ^ parity
        return True


def parse_nuc(s):
    comp = s.endswith("*")
    body = s[:-1] if comp else s
    dom, idx = body.rsplit(":", 1)
    return (dom, int(idx)), comp


def bonds(dp):
    st, out, pos = [], [], 0
    for c in dp:
        if c == "+":
            continue
        if c == "(":
            st.append(pos)
        elif c == ")":
            out.append((st.pop(), pos))
        pos += 1
    return out


class System:
    """variables with templates, links, and named structure position lists"""
    def __init__(self):
        self.templates = {}     # var -> frozenset of bases
        self.uf = UF()
        self.conflict = False
        self.structs = {}       # name -> list of (var, comp)

    def var(self, v, allowed="ACGT"):
        self.uf.add(v)
        self.templates[v] = self.templates.get(v, frozenset(BASES)) & frozenset(allowed)

    def link(self, a, b, odd):
        (va, ca), (vb, cb) = a, b
        if not self.uf.union(va, vb, (1 if odd else 0) ^ ca ^ cb):
            self.conflict = True

    def forced(self, names=None):
        """canonical description of what is forced on the named structures' positions"""
        classes = {}
        allowed = {}
        # allowed set per root (in root orientation)
        root_allowed = {}
        for v, t in self.templates.items():
            r, p = self.uf.find(v)
            s = compl_set(t) if p else t
            root_allowed[r] = root_allowed.get(r, frozenset(BASES)) & s
        members = {}
        for sname, plist in self.structs.items():
            if names is not None and sname not in names:
                continue
            for k, (v, c) in enumerate(plist):
                r, p = self.uf.find(v)
                par = p ^ (1 if c else 0)
                members.setdefault(r, []).append((sname, k, par))
                a = root_allowed.get(r, frozenset(BASES))
                allowed[(sname, k)] = "".join(sorted(compl_set(a) if par else a))
        canon = set()
        for r, ms in members.items():
            ms.sort()
            flip = ms[0][2]
            canon.add(tuple((s, k, p ^ flip) for s, k, p in ms))
        selfcomp = any(True for r, ms in members.items() if len({(s, k) for s, k, p in ms}) < len(ms) and False)
        return {"classes": canon, "allowed": allowed, "conflict": self.conflict or any(not a for a in allowed.values())}


def system_of_design(d, rename=lambda x: x):
    """design JSON (from src-denote / pil-design, canonicalised) -> System"""
    S = System()
    for name, tmpl in d["domains"]:
        for i, c in enumerate(tmpl):
            S.var((name, i), GROUP[c])
    strands = {n: [parse_nuc(x) for x in l] for n, dm, l in d["strands"]}
    for name, snames, dp, opt in d["structs"]:
        pl = []
        for s in snames:
            pl += strands[s]
        S.structs[name] = pl
        for i, j in bonds(dp):
            S.link(pl[i], pl[j], True)
    for e in d["equals"]:
        regs = [[parse_nuc(x) for x in reg] for reg in e]
        for reg in regs[1:]:
            for a, b in zip(regs[0], reg):
                S.link(a, b, False)
    return S


def read_des(text):
    """NUPACK-style .des text -> ordered list of lines (kind, name, payload):
    ("structure", n, dotparen) / ("sequence", n, template) / ("assign", n, [items]) / ("bound", n, decimal text)"""
    out = []
    for raw in text.split("\n"):
        line = re.sub(r"#.*", "", raw).strip()
        if not line:
            continue
        m = re.match(r"structure\s+(\S+)\s*=\s*(\S+)\Z", line)
        if m:
            out.append(("structure", m.group(1), m.group(2))); continue
        m = re.match(r"sequence\s+(\S+)\s*=\s*(\S+)\Z", line)
        if m:
            out.append(("sequence", m.group(1), m.group(2))); continue
        m = re.match(r"(\S+)\s*:\s*(.*)\Z", line)
        if m:
            out.append(("assign", m.group(1), m.group(2).split())); continue
        m = re.match(r"(\S+)\s*<\s*(\S+)\Z", line)
        if m:
            out.append(("bound", m.group(1), m.group(2))); continue
        raise ValueError("unreadable .des line: %r" % raw)
    return out


def des_doc(text):
    """the document in the shape of the model's `des-doc` answer"""
    lines = read_des(text)
    return {"structures": [[n, x] for k, n, x in lines if k == "structure"],
            "sequences": [[n, x] for k, n, x in lines if k == "sequence"],
            "assign": [[n, x] for k, n, x in lines if k == "assign"],
            "bounds": [[n, x] for k, n, x in lines if k == "bound"],
            "kinds": [k for k, n, x in lines]}


def system_of_des(text):
    """NUPACK-style .des as the compiler emits it -> (System, objective bounds)"""
    S = System()
    seqs = {}
    structs = {}
    bounds = {}
    assigns = {}
    for kind, name, x in read_des(text):
        if kind == "structure":
            structs[name] = x
        elif kind == "sequence":
            seqs[name] = x
            for i, c in enumerate(x):
                S.var((name, i), GROUP[c])
        elif kind == "assign":
            assigns.setdefault(name, []).append(x)
        else:
            bounds[name] = x
    for sname, items_list in assigns.items():
        if sname not in structs or len(items_list) != 1:
            raise ValueError("structure %s assigned %d times / undefined" % (sname, len(items_list)))
        pl = []
        for it in items_list[0]:
            rev = it.endswith("*")
            nm = it[:-1] if rev else it
            if nm not in seqs:
                raise ValueError("undefined sequence %s" % nm)
            L = len(seqs[nm])
            if rev:
                pl += [((nm, i), True) for i in reversed(range(L))]
            else:
                pl += [((nm, i), False) for i in range(L)]
        dp = structs[sname]
        if len(pl) != len(dp.replace("+", "")):
            raise ValueError("structure %s has %d positions but %d nucleotides assigned" % (sname, len(dp.replace("+", "")), len(pl)))
        S.structs[sname] = pl
        for i, j in bonds(dp):
            S.link(pl[i], pl[j], True)
    for sname in structs:
        if sname not in assigns:
            raise ValueError("structure %s has no sequence assignment" % sname)
    return S, structs, bounds
