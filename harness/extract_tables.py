"""Translator: regenerates lean/PepperModel/Generated/Tables.lean from /repo's working tree.

Everything here is obtained by *executing* the real code over its finite domain (importing the
live Python modules, running the real C functions through c_tables.c), never by pattern matching
on source text.  The file is rewritten only when its content changes, so that an unchanged tree
is a no-op rebuild.
"""
import importlib
import io
import json
import os
import subprocess
import sys
import contextlib

HERE = os.path.dirname(os.path.abspath(__file__))
VERIF = os.path.dirname(HERE)
REPO = os.environ.get("PEPPER_REPO", "/repo")
OUT = os.path.join(VERIF, "lean", "PepperModel", "Generated", "Tables.lean")
BUILD = os.path.join(VERIF, "build")

PRINTABLE = [chr(c) for c in range(33, 127)]


class ExtractError(Exception):
    pass


def lean_char(c):
    return "Char.ofNat %d" % ord(c)


def lean_chars(s):
    return "[" + ", ".join(lean_char(c) for c in s) + "]"


def py_tables():
    """group / complement / rev_group of the three live Python modules, as ordered item lists."""
    out = {}
    for key, modname in (("dna", "peppercompiler.DNA_classes"),
                         ("pil", "peppercompiler.design.PIL_DNA_classes"),
                         ("nupack", "peppercompiler.design.DNA_nupack_classes")):
        try:
            mod = importlib.import_module(modname)
            group = [(str(k), str(v)) for k, v in mod.group.items()]
            compl = [(str(k), str(v)) for k, v in mod.complement.items()]
            rev = [(str(k), str(v)) for k, v in mod.rev_group.items()]
        except Exception as e:  # noqa
            raise ExtractError("cannot extract tables of %s: %r" % (modname, e))
        for k, v in group + compl:
            if len(k) != 1:
                raise ExtractError("non single-letter code %r in %s" % (k, modname))
        out[key] = {"group": group, "compl": compl, "rev": rev}
    return out


def _accepts(fn):
    try:
        with contextlib.redirect_stderr(io.StringIO()), contextlib.redirect_stdout(io.StringIO()):
            fn()
        return True
    except (SystemExit, Exception):
        return False


def alphabets():
    """Characters accepted by the three readers that take nucleotide-code strings."""
    from peppercompiler.design import PIL_parser
    from peppercompiler import nupack_out_grammar, compiler
    from peppercompiler import utils
    old = utils.DEBUG
    res = {}
    try:
        utils.DEBUG = True
        res["pil_parse_seq"] = [c for c in PRINTABLE if c.isalnum() and _accepts(
            lambda: PIL_parser.parse_seq("sequence x = %s : 1" % c))]
        res["mfe_seq"] = [c for c in PRINTABLE if _accepts(
            lambda: nupack_out_grammar.seq.parseString(c, parseAll=True))]
        def fixed_ok(c):
            return compiler.parse_fixed("sequence x = %s" % c)[2] == c
        res["fixed"] = [c for c in PRINTABLE if c.isalpha() and _accepts(lambda: fixed_ok(c)) ]
    finally:
        utils.DEBUG = old
    return res


def c_tables():
    src = os.path.join(REPO, "peppercompiler", "SpuriousDesign", "spuriousSSM.c")
    os.makedirs(BUILD, exist_ok=True)
    exe = os.path.join(BUILD, "c_tables-%d" % os.getpid())     # per process: concurrent checks must not overwrite a running binary
    cmd = ["gcc", "-O1", "-w", '-DSSM_SOURCE="%s"' % src, os.path.join(HERE, "c_tables.c"), "-o", exe, "-lm"]
    p = subprocess.run(cmd, capture_output=True, text=True)
    if p.returncode != 0 and "degenerates" in p.stderr:
        # a rewrite removed the pair string: read the same relation off the behaviour of test_consistency (see c_tables.c)
        p = subprocess.run(cmd[:3] + ["-DSSM_NO_DEGENERATES_STRING"] + cmd[3:], capture_output=True, text=True)
    if p.returncode != 0:
        raise ExtractError("spuriousSSM.c does not compile for table extraction:\n" + p.stderr[-2000:])
    try:
        p = subprocess.run([exe], capture_output=True, text=True, timeout=120)
    finally:
        try:
            os.remove(exe)
        except OSError:
            pass
    if p.returncode != 0:
        raise ExtractError("c_tables failed: " + p.stderr[-2000:])
    return json.loads(p.stdout)


def layout_constants():
    """Blank counts of the two layouts, measured on a probe document (strand mode: blanks after each
    strand; structure mode: blanks after each strand and each structure)."""
    import tempfile
    from peppercompiler.design.constraint_load import Convert
    doc = ("sequence a = NNN : 3\nsequence b = NN : 2\nstrand A = a : 3\nstrand B = b : 2\n"
           "structure [1nt] S1 = A : ...\nstructure [1nt] S2 = A + B : ...+..\n")
    d = tempfile.mkdtemp(prefix="pepper_tables_")
    try:
        fn = os.path.join(d, "p.pil")
        with open(fn, "w") as f:
            f.write(doc)
        res = {}
        with contextlib.redirect_stdout(io.StringIO()):
            eq, wc, st = Convert(fn, False).get_constraints()
        # strands at 0..2 and (3+gap)..; N = 3+gap+2
        res["strand_gap"] = len(st) - 5   # = gap between strands (trailing blanks are not dumped)
        with contextlib.redirect_stdout(io.StringIO()):
            eq, wc, st = Convert(fn, True).get_constraints()
        # S1: A(3) ; S2: A(3) B(2): positions 0-2, gapS.., ; measure first non-blank after index 3
        idx = [i for i, x in enumerate(st) if x is not None]
        res["struct_gap_between_structs"] = idx[3] - 3
        res["struct_gap_between_strands"] = idx[6] - idx[5] - 1
        return res
    finally:
        import shutil
        shutil.rmtree(d, ignore_errors=True)


def extract():
    data = {"py": py_tables(), "alpha": alphabets(), "c": c_tables(), "layout": layout_constants()}
    return data


def render(data):
    L = []
    w = L.append
    w("/- GENERATED by harness/extract_tables.py from /repo's working tree on every run. Do not edit. -/")
    w("import PepperModel.Codes")
    w("namespace Pepper.Generated")
    w("open Pepper")
    for key in ("dna", "pil", "nupack"):
        t = data["py"][key]
        w("def %sTable : CodeTable where" % key)
        w("  group := [" + ", ".join("(%s, %s)" % (lean_char(k), lean_chars(v)) for k, v in t["group"]) + "]")
        w("  compl := [" + ", ".join("(%s, %s)" % (lean_char(k), lean_char(v)) for k, v in t["compl"]) + "]")
        w("  rev := [" + ", ".join("(%s, %s)" % (lean_chars(k), lean_char(v)) for k, v in t["rev"]) + "]")
    for name, key in (("alphaPilParseSeq", "pil_parse_seq"), ("alphaMfeSeq", "mfe_seq"), ("alphaFixed", "fixed")):
        w("def %s : List Char := %s" % (name, lean_chars(data["alpha"][key])))
    c = data["c"]
    w("def cWC : List (Char × Char) := [" + ", ".join("(Char.ofNat %d, Char.ofNat %d)" % (a, b) for a, b in c["wc"]) + "]")
    w("def cDegenerates : List Char := [" + ", ".join("Char.ofNat %d" % x for x in c["degenerates"]) + "]")
    w("def cRandbase : List (Char × List Char) := [" + ", ".join(
        "(Char.ofNat %d, [%s])" % (a, ", ".join("Char.ofNat %d" % x for x in xs)) for a, xs in c["randbase"]) + "]")
    lay = data["layout"]
    w("def strandGap : Nat := %d" % lay["strand_gap"])
    w("def structGapStrands : Nat := %d" % lay["struct_gap_between_strands"])
    w("def structGapStructs : Nat := %d" % lay["struct_gap_between_structs"])
    w("end Pepper.Generated")
    return "\n".join(L) + "\n"


def regenerate():
    """Returns (changed, data). Raises ExtractError when the working tree cannot be extracted."""
    data = extract()
    text = render(data)
    old = None
    if os.path.exists(OUT):
        with open(OUT) as f:
            old = f.read()
    if old != text:
        os.makedirs(os.path.dirname(OUT), exist_ok=True)
        with open(OUT, "w") as f:
            f.write(text)
        return True, data
    return False, data


if __name__ == "__main__":
    ch, data = regenerate()
    print("changed" if ch else "unchanged")
    if "-v" in sys.argv:
        print(json.dumps(data, indent=1))
