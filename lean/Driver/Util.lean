import Lean.Data.Json
import PepperModel
/-! JSON helpers shared by all driver operation files. -/
open Lean
namespace Pepper.Driver

def str (j : Json) (k : String) : String := (j.getObjValAs? String k).toOption.getD ""
def nat (j : Json) (k : String) : Nat := (j.getObjValAs? Nat k).toOption.getD 0
def arr (j : Json) (k : String) : Array Json := match j.getObjVal? k with
  | .ok (.arr a) => a | _ => #[]
def natList (j : Json) : List Nat := match j with
  | .arr a => a.toList.filterMap (fun x => x.getNat?.toOption) | _ => []
def ofNats (l : List Nat) : Json := Json.arr (l.map (fun (n : Nat) => (Json.num n))).toArray
def sorted (l : List Nat) : List Nat := (l.toArray.qsort (· < ·)).toList

def optStr (o : Option (List Char)) : Json := match o with
  | some r => Json.mkObj [("ok", Json.str (String.ofList r))]
  | none => Json.mkObj [("err", "reject")]

def strList (j : Json) : List String := match j with
  | .arr a => a.toList.filterMap (fun x => x.getStr?.toOption) | _ => []
def optNat (j : Json) (k : String) : Option Nat := match j.getObjVal? k with
  | .ok v => v.getNat?.toOption | _ => none
def boolOf (j : Json) (k : String) : Bool := match j.getObjVal? k with
  | .ok (.bool b) => b | _ => false
def reject (cls : String) : Json := Json.mkObj [("err", Json.str cls)]
def okStr (s : String) : Json := Json.mkObj [("ok", Json.str s)]

def tableOf (n : String) : CodeTable :=
  if n == "pil" then Generated.pilTable else if n == "nupack" then Generated.nupackTable else Generated.dnaTable

def adjOf (j : Json) : Closure.Adj := match j with
  | .arr a => a.toList.filterMap (fun e => match e with
      | .arr #[k, l] => match k.getNat? with | .ok n => some (n, natList l) | _ => none
      | _ => none)
  | _ => []


end Pepper.Driver
