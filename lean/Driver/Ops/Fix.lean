import Driver.Util
import Driver.Ops.Compile
/-! Fixed sequences through the *specification* (`FixSpec`): `fix-spec` loads a bundle like `compile`, reports
whether the loaded tree satisfies the invariant `wfB` the C12 theorems assume, and applies the fixed lines
with `specFix` / `specFixStruct` / `sigStepSpec` instead of the code path `fixItem` / `fixStrand` / … -/
open Lean
namespace Pepper.Driver.FixOps
open Pepper.Driver Pepper.Comp Pepper.Sys Pepper.Fix Pepper.FixSpec

def specNamed (t : CodeTable) (k : Fix.Kind) : Nat → Inst → String → List Char → Except Fix.Err (Option Inst)
  | 0, _, _, _ => .ok none
  | _ + 1, .comp s, name, str =>
    match k with
    | .sequence => match s.findSeq name with
      | none => .ok none
      | some _ => (specFix t s (posOfView s name false) str).map (fun s' => some (.comp s'))
    | .strand => match s.findStrand name with
      | none => .ok none
      | some e => (specFix t s (posOfBases e.bases) str).map (fun s' => some (.comp s'))
    | .structure => match s.findStruct name with
      | none => .ok none
      | some e => (specFixStruct t s e str).map (fun s' => some (.comp s'))
  | fuel + 1, .sys st, name, str =>
    match splitFirstDash name with
    | none => .ok none
    | some (cn, rest) =>
      match st.components.lookup cn with
      | none => .ok none
      | some sub =>
        match specNamed t k fuel sub rest str with
        | .error e => .error e
        | .ok none => .ok none
        | .ok (some sub') => .ok (some (.sys (updComp st cn sub')))

def specSignal (t : CodeTable) (fuel : Nat) (st : SysSt) (name : String) (str : List Char) : Except Fix.Err (Option SysSt) :=
  match st.signals.lookup name with
  | none => .ok none
  | some entries => (entries.foldlM (sigStepSpec t fuel str) st).map some

def applySpec (t : CodeTable) (inst : Inst) (l : Compile.FixLine) : Except Fix.Err Inst :=
  let isSub (a b : String) : Bool := (b.splitOn a).length > 1 || a == ""
  let named (k : Fix.Kind) : Except Fix.Err Inst :=
    match specNamed t k 64 inst l.name l.seq with
    | .error e => .error e
    | .ok none => .ok inst
    | .ok (some i) => .ok i
  if isSub l.kind "sequence" then named .sequence
  else if isSub l.kind "signal" then
    match inst with
    | .comp _ => .ok inst
    | .sys st => match specSignal t 63 st l.name l.seq with
      | .error e => .error e
      | .ok none => .ok inst
      | .ok (some st') => .ok (.sys st')
  else if l.kind == "strand" then named .strand
  else if l.kind == "structure" then named .structure
  else .ok inst

def handle? (op : String) (j : Json) : Option Json :=
  match op with
  | "fix-spec" =>
    let b := Compile.bundleOf j
    let includes := strList (j.getObjValD "includes")
    let fixed := (arr j "fixed").toList.map (fun f => (⟨str f "kind", str f "name", (str f "seq").toList⟩ : Compile.FixLine))
    some (match Sys.loadFile b 32 (str j "entry") (nat j "nargs") "@" "" "." includes (nat j "anon") with
    | .error _ => reject "reject"
    | .ok (inst, _) =>
      let wf := wfInst Generated.dnaTable 64 inst
      match fixed.foldlM (applySpec Generated.dnaTable) inst with
      | .error _ => Json.mkObj [("err", "fix-error"), ("wf", Json.bool wf)]
      | .ok inst' =>
        Json.mkObj [("ok", Json.mkObj [("lines", Json.arr ((Sys.emitPilInst inst').map Json.str).toArray), ("wf", Json.bool wf)])])
  | _ => none

end Pepper.Driver.FixOps
