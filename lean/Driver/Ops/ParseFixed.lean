import Driver.Util
/-! Operations of the `--fixed` file text parser (`PepperModel/ParseFixed.lean`).
    `parse-fixed-file` answers with entries in the shape the `compile` operation's `fixed` field accepts
    (`Driver/Ops/Compile.lean`), the number of parsed lines whose kind word selects no branch (`ignored`) and the raw
    `(type_, name, seq)` triples `load_fixed` returns (`raw`). -/
open Lean
namespace Pepper.Driver.ParseFixedOps
open Pepper.Driver Pepper.ParseFixed

def triple (x : String × String × String) : Json := Json.arr #[Json.str x.1, Json.str x.2.1, Json.str x.2.2]

def entryJson (e : Entry) : Json :=
  Json.mkObj [("kind", Json.str e.kind.word), ("name", Json.str e.name), ("seq", Json.str (String.ofList e.seq))]

def handle? (op : String) (j : Json) : Option Json :=
  match op with
  | "parse-fixed-line" =>
    some (match parseFixedLine (str j "line") with
      | .ok x => Json.mkObj [("ok", triple x), ("skip", Json.bool (skipLine (str j "line")))]
      | .error _ => Json.mkObj [("err", "reject"), ("skip", Json.bool (skipLine (str j "line")))])
  | "parse-fixed-file" =>
    let text := str j "text"
    some (match fixedEntries text, loadFixed text with
      | .ok es, .ok raw =>
        Json.mkObj [("ok", Json.arr (es.map entryJson).toArray), ("ignored", Json.num (ignoredCount text)),
                    ("raw", Json.arr (raw.map triple).toArray)]
      | _, _ => reject "reject")
  | "fixed-kind" =>
    some (Json.mkObj [("ok", match kindOf (str j "word") with
      | some k => Json.str k.word
      | none => Json.null)])
  | _ => none

end Pepper.Driver.ParseFixedOps
