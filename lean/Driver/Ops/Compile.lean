import Driver.Util
/-! Operations on the compile path: parse-constraint, resolve, compile (components, systems, fixed files). -/
open Lean
namespace Pepper.Driver.Compile
open Pepper.Driver Pepper.Comp Pepper.Sys

def optStrOf (j : Json) (k : String) : Option String := match j.getObjVal? k with
  | .ok (.str s) => some s | _ => none

def multJson : Constraint.Mult → Json
  | .num n => Json.num n
  | .wild => Json.str "?"

def srcItem (j : Json) : SrcItem :=
  match str j "t" with
  | "nuc" => .nuc (str j "text").toList
  | "dom" => .domains (str j "name") (boolOf j "star")
  | _ => .ref (str j "name") (boolOf j "star")

def compStmt (j : Json) : Stmt :=
  match str j "k" with
  | "seq" => .seq (str j "name") ((arr j "items").toList.map srcItem) (optNat j "len")
  | "strand" => .strand (boolOf j "dummy") (str j "name") ((arr j "items").toList.map srcItem) (optNat j "len")
  | "struct" =>
    let opt := match optStrOf j "opt" with
      | none => OptSrc.default
      | some "no-opt" => OptSrc.noOpt
      | some t => OptSrc.value t
    .struct opt (str j "name") (strList (j.getObjValD "strands")) (boolOf j "domain") (str j "text").toList
  | _ => .kinetic (optStrOf j "low") (optStrOf j "high") (strList (j.getObjValD "ins")) (strList (j.getObjValD "outs"))

def port (j : Json) : Comp.Port := ⟨str j "seq", boolOf j "star", optStrOf j "struct"⟩
def sigRef (j : Json) : SigRef := ⟨str j "name", boolOf j "star"⟩

def sysStmt (j : Json) : SStmt :=
  match str j "k" with
  | "import" => .imports ((arr j "items").toList.map (fun it => match it with
      | .arr #[.str p, .str a] => (p, some a)
      | .arr #[.str p, _] => (p, none)
      | _ => ("", none)))
  | _ => .component (str j "name") (str j "templ") (nat j "nargs")
      ((arr j "ins").toList.map sigRef) ((arr j "outs").toList.map sigRef)

def fileSrc (j : Json) : FileSrc :=
  if str j "kind" == "sys" then
    .sys ⟨str j "name", strList (j.getObjValD "params"), (arr j "inputs").toList.map sigRef,
          (arr j "outputs").toList.map sigRef, (arr j "stmts").toList.map sysStmt⟩
  else
    .comp ⟨str j "name", strList (j.getObjValD "params"), (arr j "inputs").toList.map port,
           (arr j "outputs").toList.map port, (arr j "stmts").toList.map compStmt⟩

def bundleOf (j : Json) : Bundle :=
  let files := match j.getObjVal? "files" with
    | .ok (.obj kvs) => kvs.toList.map (fun (k, v) => (k, fileSrc v))
    | _ => []
  ⟨files, strList (j.getObjValD "exists")⟩

structure FixLine where
  kind : String
  name : String
  seq : List Char

def applyFixed (t : CodeTable) (inst : Inst) (l : FixLine) : Except Fix.Err (Inst × Bool) :=
  -- `type_ in "sequence"` / `type_ in "signal"` are substring tests in the Python
  let isSub (a b : String) : Bool := (b.splitOn a).length > 1 || a == ""
  let named (k : Fix.Kind) : Except Fix.Err (Inst × Bool) :=
    match Fix.fixNamed t k 64 inst l.name l.seq with
    | .error e => .error e
    | .ok none => .ok (inst, true)
    | .ok (some i) => .ok (i, false)
  if isSub l.kind "sequence" then named .sequence
  else if isSub l.kind "signal" then
    match inst with
    | .comp _ => .ok (inst, true)
    | .sys st => match Fix.fixSignal t 64 st l.name l.seq with
      | .error e => .error e
      | .ok none => .ok (inst, true)
      | .ok (some st') => .ok (.sys st', false)
  else if l.kind == "strand" then named .strand
  else if l.kind == "structure" then named .structure
  else .ok (inst, false)

def applyAllFixed (t : CodeTable) : Inst → List FixLine → Nat → Except Fix.Err (Inst × Nat)
  | i, [], w => .ok (i, w)
  | i, l :: r, w => match applyFixed t i l with
    | .error e => .error e
    | .ok (i', warned) => applyAllFixed t i' r (if warned then w + 1 else w)

def pilStmtJson : Pil.Stmt → Json
  | .seq n t => Json.mkObj [("k", "seq"), ("name", Json.str n), ("tmpl", Json.str (String.ofList t))]
  | .sup n its => Json.mkObj [("k", "sup"), ("name", Json.str n), ("items", Json.arr (its.map Json.str).toArray)]
  | .strand n d its => Json.mkObj [("k", "strand"), ("name", Json.str n), ("dummy", Json.bool d), ("items", Json.arr (its.map Json.str).toArray)]
  | .struct n p ss st => Json.mkObj [("k", "struct"), ("name", Json.str n), ("params", match p with | some x => Json.str x | none => Json.null),
      ("strands", Json.arr (ss.map Json.str).toArray), ("struct", Json.str (String.ofList st))]
  | .equal its => Json.mkObj [("k", "equal"), ("items", Json.arr (its.map Json.str).toArray)]
  | .kinetic => Json.mkObj [("k", "kinetic")]

def errClass : Sys.Err → String
  | .comp _ => "reject" | _ => "reject"

def handle? (op : String) (j : Json) : Option Json :=
  match op with
  | "parse-constraint" =>
    some (Json.mkObj [("ok", Json.arr ((Constraint.parseQuoted (str j "s").toList).map (fun (m, c) =>
      Json.arr #[multJson m, Json.str (String.singleton c)])).toArray)])
  | "resolve" =>
    let parts := (arr j "parts").toList.map (fun p => match p with
      | .arr #[.str "?", .str c] => (Constraint.Mult.wild, c.front)
      | .arr #[n, .str c] => (Constraint.Mult.num (n.getNat?.toOption.getD 0), c.front)
      | _ => (Constraint.Mult.num 0, 'N'))
    some (match Constraint.resolve parts (optNat j "len") with
      | .ok (l, c) => Json.mkObj [("ok", Json.arr #[Json.num l, Json.str (String.ofList c)])]
      | .error .wildNoLength => reject "wild"
      | .error _ => reject "reject")
  | "compile" =>
    let b := bundleOf j
    let includes := strList (j.getObjValD "includes")
    let fixed := (arr j "fixed").toList.map (fun f => (⟨str f "kind", str f "name", (str f "seq").toList⟩ : FixLine))
    some (match Sys.loadFile b 32 (str j "entry") (nat j "nargs") "@" "" "." includes (nat j "anon") with
    | .error _ => reject "reject"
    | .ok (inst, anon') =>
      match applyAllFixed Generated.dnaTable inst fixed 0 with
      | .error _ => reject "fix-error"
      | .ok (inst', warns) =>
        let lines := if str j "format" == "des" then Sys.emitDesInst inst' else Sys.emitPilInst inst'
        Json.mkObj [("ok", Json.mkObj [("lines", Json.arr (lines.map Json.str).toArray), ("anon", Json.num anon'),
                                       ("stmts", Json.arr ((Emit.instStmts inst').map pilStmtJson).toArray),
                                       ("fix_warnings", Json.num warns)])])
  | _ => none

end Pepper.Driver.Compile
