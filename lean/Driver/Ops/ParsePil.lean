import Driver.Util
import Driver.Ops.Compile
import PepperModel.ParsePil
/-! Operation on the designer front-end's text reader: `parse-pil` ({"text": str} -> {"ok": [stmt …]} | {"err": "reject"};
    statements in the shape `pil-design` / `pil-constraints` decode).  `"detail": true` adds the error class, `"load": true` adds
    `"loads"`: does `Pil.load` (the model of `PIL_class.Spec`) accept the statements. -/
open Lean
namespace Pepper.Driver.ParsePilOps
open Pepper.Driver

def errName : ParsePil.Err → String
  | .command => "command" | .seqSyntax => "seqSyntax" | .template => "template" | .supSyntax => "supSyntax"
  | .strandSyntax => "strandSyntax" | .structSyntax => "structSyntax" | .structChars => "structChars"

def handle? (op : String) (j : Json) : Option Json :=
  match op with
  | "parse-pil" =>
    some (match ParsePil.parsePil Generated.nupackTable (str j "text") with
      | .ok stmts => Json.mkObj ([("ok", Json.arr (stmts.map Compile.pilStmtJson).toArray)] ++
          (if boolOf j "load" then
            [("loads", Json.bool (match Pil.load Generated.nupackTable stmts {} with | .ok _ => true | .error _ => false))]
           else []))
      | .error e =>
        if boolOf j "detail" then Json.mkObj [("err", Json.str "reject"), ("class", Json.str (errName e))]
        else reject "reject")
  | _ => none

end Pepper.Driver.ParsePilOps
