import Driver.Util
import Driver.Ops.Compile
/-! `mfe-read` (the design-file reader) and `finish` (apply a design to the compiled system). -/
open Lean
namespace Pepper.Driver.FinishOps
open Pepper.Driver

def errName : Finish.Err → String
  | .missing => "missing" | .length => "length" | .letter => "letter" | .complement => "complement" | .structure => "structure"

def handle? (op : String) (j : Json) : Option Json :=
  match op with
  | "mfe-read" =>
    some (match Finish.readDesign Generated.alphaMfeSeq (str j "text").toList with
      | some d => Json.mkObj [("ok", Json.arr (d.map (fun (n, s) => Json.arr #[Json.str (String.ofList n), Json.str (String.ofList s)])).toArray)]
      | none => reject "parse")
  | "finish" =>
    let b := Compile.bundleOf j
    some (match Sys.loadFile b 32 (str j "entry") (nat j "nargs") "@" "" "." (strList (j.getObjValD "includes")) (nat j "anon") with
    | .error _ => reject "reject"
    | .ok (inst, _) =>
      match Finish.readDesign Generated.alphaMfeSeq (str j "mfe").toList with
      | none => reject "parse"
      | some d =>
        match Finish.apply Generated.dnaTable inst d with
        | .error e => Json.mkObj [("err", Json.str "finish"), ("cls", Json.str (errName e))]
        | .ok o => Json.mkObj [("ok", Json.mkObj [("seqs", Json.arr ((Finish.seqsFile o).map Json.str).toArray),
                                                  ("strands", Json.arr ((Finish.strandsFile o).map Json.str).toArray)])])
  | _ => none

end Pepper.Driver.FinishOps
