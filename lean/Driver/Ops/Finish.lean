import Driver.Util
import Driver.Ops.Compile
/-! `mfe-read` (the design-file reader) and `finish` (apply a design to the compiled system). -/
open Lean
namespace Pepper.Driver.FinishOps
open Pepper.Driver

def errName : Finish.Err → String
  | .missing => "missing" | .length => "length" | .letter => "letter" | .complement => "complement" | .structure => "structure"

def baseJ (b : Comp.BaseRef) : Json := Json.arr #[Json.str b.name, Json.bool b.rev, Json.num b.len]
def itemJ (i : Comp.ItemRef) : Json := Json.arr #[Json.str i.name, Json.bool i.rev]
def strsJ (l : List String) : Json := Json.arr (l.map Json.str).toArray

def compSnap (s : Comp.St) : Json :=
  Json.mkObj [
    ("pfx", Json.str s.pfx),
    ("seqs", Json.arr (s.seqs.map (fun e => Json.mkObj [("name", Json.str e.name), ("sup", Json.bool e.isSup), ("len", Json.num e.len),
        ("const", Json.str (String.ofList e.const)), ("items", Json.arr (e.items.map itemJ).toArray),
        ("bases", Json.arr (e.bases.map baseJ).toArray)])).toArray),
    ("strands", Json.arr (s.strands.map (fun e => Json.mkObj [("name", Json.str e.name), ("dummy", Json.bool e.dummy), ("len", Json.num e.len),
        ("items", Json.arr (e.items.map itemJ).toArray), ("bases", Json.arr (e.bases.map baseJ).toArray)])).toArray),
    ("structs", Json.arr (s.structs.map (fun e => Json.mkObj [("name", Json.str e.name), ("strands", strsJ e.strands),
        ("struct", Json.str (String.ofList e.struct)), ("opt", Json.str (String.ofList e.opt.fmtF)),
        ("bases", Json.arr (e.bases.map baseJ).toArray)])).toArray),
    ("kinetics", Json.arr (s.kins.map (fun k => Json.mkObj [("name", Json.str k.name), ("ins", strsJ k.ins), ("outs", strsJ k.outs)])).toArray)]

partial def instSnap : Sys.Inst → Json
  | .comp s => Json.mkObj [("kind", "comp"), ("comp", compSnap s)]
  | .sys st => Json.mkObj [("kind", "sys"), ("pfx", Json.str st.pfx),
      ("signals", Json.arr (st.signals.map (fun (n, es) => Json.arr #[Json.str n, Json.arr (es.map (fun e =>
          Json.arr #[(match e.port with | .seq i _ => Json.str i.name | .sig x => Json.str ("@" ++ x)), Json.str e.comp, Json.bool e.wc])).toArray])).toArray),
      ("lengths", Json.arr (st.lengths.map (fun (n, l) => Json.arr #[Json.str n, Json.num l])).toArray),
      ("components", Json.arr (st.components.map (fun (n, i) => Json.arr #[Json.str n, instSnap i])).toArray)]

def handle? (op : String) (j : Json) : Option Json :=
  match op with
  | "snapshot" =>
    let b := Compile.bundleOf j
    some (match Sys.loadFile b 32 (str j "entry") (nat j "nargs") "@" "" "." (strList (j.getObjValD "includes")) (nat j "anon") with
    | .error _ => reject "reject"
    | .ok (inst, _) =>
      let fixed := (arr j "fixed").toList.map (fun f => (⟨str f "kind", str f "name", (str f "seq").toList⟩ : Compile.FixLine))
      match Compile.applyAllFixed Generated.dnaTable inst fixed 0 with
      | .error _ => reject "fix-error"
      | .ok (inst', _) => Json.mkObj [("ok", instSnap inst')])
  | "mfe-read" =>
    some (match Finish.readDesign Generated.alphaMfeSeq (str j "text").toList with
      | some d => Json.mkObj [("ok", Json.arr (d.map (fun (n, s) => Json.arr #[Json.str (String.ofList n), Json.str (String.ofList s)])).toArray)]
      | none => reject "parse")
  | "finish" =>
    let b := Compile.bundleOf j
    some (match Sys.loadFile b 32 (str j "entry") (nat j "nargs") "@" "" "." (strList (j.getObjValD "includes")) (nat j "anon") with
    | .error _ => reject "reject"
    | .ok (inst, _) =>
      match Finish.readDesign Generated.alphaMfeSeq (str j "mfe").toList with
      | none => reject "parse"
      | some d =>
        match Finish.apply Generated.dnaTable inst d with
        | .error e => Json.mkObj [("err", Json.str "finish"), ("cls", Json.str (errName e))]
        | .ok o => Json.mkObj [("ok", Json.mkObj [("seqs", Json.arr ((Finish.seqsFile o).map Json.str).toArray),
                                                  ("strands", Json.arr ((Finish.strandsFile o).map Json.str).toArray)])])
  | _ => none

end Pepper.Driver.FinishOps
