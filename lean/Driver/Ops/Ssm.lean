import Driver.Util
/-! Operations on the spuriousSSM model (`PepperModel/Ssm.lean`).

* `ssm-check`  {st, eq, wc} → {"ok": bool}                      (`contractB`)
* `ssm-params` {st, eq, wc, automatic, bmax?, imax, bmult} → {"ok": {"bmax", "nfree", "nq", "freelocs"}}
* `ssm-replay` {st, eq, wc, start, raw?, events:[[i,base,cmp],…], bmax, imax, compact?} →
    {"ok": {"constrained", "states":[…], "bored":[…], "stopped_at", "stopped", "final", "consistent"}}
    or {"err": "start" | "event"}.  With `raw` the start sequence is first passed through `constrain`
    (a `sequence=` file); otherwise it is the already constrained start.  With `compact` the two lists
    are replaced by `"digest"`, a rolling hash over (state, bored) of every iteration. -/
open Lean
namespace Pepper.Driver.Ssm
open Pepper.Driver Pepper.Ssm

def known : List String := ["ssm-check", "ssm-params", "ssm-replay"]

def intList (j : Json) : List Int := match j with
  | .arr a => a.toList.filterMap (fun x => x.getInt?.toOption) | _ => []

def tripleOf (j : Json) : Triple :=
  { st := (str j "st").toList, eq := natList (j.getObjValD "eq"), wc := intList (j.getObjValD "wc") }

def eventOf (j : Json) : Option Event := match j with
  | .arr #[i, b, c] => match i.getNat?, b.getStr?, c.getInt? with
    | .ok i, .ok b, .ok c => some ⟨i, b.front, c⟩
    | _, _, _ => none
  | _ => none

def hashMod : Nat := 2305843009213693951   -- 2^61 - 1

/-- Python side: `hs = int.from_bytes(S, "big") % M; h = (h*1000003 + hs*131 + 7 + bored) % M` -/
def hashState (h : Nat) (s : State) : Nat :=
  let hs := s.S.foldl (fun x c => (x * 256 + c.toNat) % hashMod) 0
  (h * 1000003 + hs * 131 + 7 + s.bored) % hashMod

def handle (j : Json) : Json :=
  let t := tripleOf j
  match str j "op" with
  | "ssm-check" => Json.mkObj [("ok", Json.bool (contractB t))]
  | "ssm-params" =>
    let o : Opts := { automatic := boolOf j "automatic", bmax := optNat j "bmax", imax := nat j "imax",
                      bmult := (optNat j "bmult").getD 12 }
    Json.mkObj [("ok", Json.mkObj [("bmax", Json.num (effectiveBmax o t : Nat)), ("nfree", Json.num ((freeLocs t).length : Nat)),
      ("nq", Json.num (nq t : Nat)), ("freelocs", ofNats (freeLocs t))])]
  | "ssm-replay" =>
    let start := (str j "start").toList
    let es := (arr j "events").toList.filterMap eventOf
    if es.length != (arr j "events").size then reject "parse" else
    let p : Params := ⟨nat j "bmax", nat j "imax"⟩
    let S0 := if boolOf j "raw" then constrain t start else start
    if !testConsistency t S0 then reject "start" else
    let nf := (freeLocs t).length
    let s0 : State := ⟨S0, 0, 0⟩
    let sts := runList t p nf s0 es
    let n := sts.length
    let fl := freeLocs t
    -- `validEvent t e` for every executed event, with the `freeloc` table computed once
    if !(es.take n).all (fun e => fl.contains e.idx && (choices (t.stAt e.idx)).contains e.base) then reject "event" else
    let fin := run t p nf s0 es
    let out := constrain t fin.S
    let common : List (String × Json) := [
      ("constrained", Json.str (String.ofList S0)),
      ("stopped_at", Json.num (n : Nat)), ("stopped", Json.bool (!running p nf fin)),
      ("final", Json.str (String.ofList out)), ("consistent", Json.bool (testConsistency t out)),
      ("good", Json.bool (goodB t out))]
    if boolOf j "compact" then
      Json.mkObj [("ok", Json.mkObj (common ++ [("digest", Json.num (sts.foldl hashState 0 : Nat))]))]
    else
      Json.mkObj [("ok", Json.mkObj (common ++ [
        ("states", Json.arr (sts.map (fun s => Json.str (String.ofList s.S))).toArray),
        ("bored", ofNats (sts.map (·.bored)))]))]
  | op => Json.mkObj [("bad", Json.str ("unknown op " ++ op))]

def handle? (op : String) (j : Json) : Option Json := if known.contains op then some (handle j) else none

end Pepper.Driver.Ssm
