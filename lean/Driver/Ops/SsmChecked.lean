import Driver.Util
import Driver.Ops.Ssm
/-! Operations on the bounds-checked spuriousSSM model (`PepperModel/SsmChecked.lean`).

* `ssm-replay-checked` — same request as `ssm-replay` (events carry the mutated *position*, as the trace
    of the binary does; the table index `k` with `freeloc[k] = position` is looked up here) →
    {"ok": {"oob": null, "constrained", "stopped_at", "stopped", "final", "consistent", "digest", "nfree"}}
    or {"ok": {"oob": [array, index, site]}} or {"err": "parse" | "start" | "event"}.
    The run goes through `constrainC`, `testConsistencyC`, `freelocC`, `stepC` (iterated as `runC` does,
    keeping every state for the digest), `constrainC`, `testConsistencyC`.
* `ssm-program-checked` {st, eq, wc, start, automatic, bmax?, imax, bmult, events} →
    {"ok": {"oob": null | [array, index, site], "out": string | null, "total": string | null}}:
    `programC` next to the total `program` on the same inputs. -/
open Lean
namespace Pepper.Driver.SsmCheckedOps
open Pepper.Driver Pepper.Ssm Pepper.SsmChecked

def known : List String := ["ssm-replay-checked", "ssm-program-checked"]

def arrName : Arr → String
  | .St => "St" | .eq => "eq" | .wc => "wc" | .S => "S" | .marked => "marked" | .freeloc => "freeloc" | .oldS => "oldS"

def siteName : Site → String
  | .testConsistency1 => "test_consistency:1" | .testConsistency2 => "test_consistency:2"
  | .testConsistency3 => "test_consistency:3" | .testConsistencyMsg => "test_consistency:message"
  | .constrain => "constrain" | .constrainSingleFast => "constrain_single_fast" | .mutate => "mutate"
  | .freelocTable => "main:freeloc" | .nq => "nq" | .nbp => "set_auto_spurious_weights:nbp"
  | .loopSave => "main:oldS=S" | .loopRestore => "main:S=oldS"

def oobJson (o : Oob) : Json :=
  Json.mkObj [("ok", Json.mkObj [("oob", Json.arr #[Json.str (arrName o.arr), Json.num (JsonNumber.fromInt o.idx),
    Json.str (siteName o.site)])])]

/-- position → table index; a position that is not in the table maps to `fl.length` (never drawn) -/
def eventCOf (fl : List Nat) (e : Event) : Option EventC :=
  match fl.idxOf? e.idx with
  | some k => some ⟨k, e.base, e.cmp⟩
  | none => none

/-- `runC`, keeping the state after every executed iteration (newest first) -/
def runListC (t : Triple) (p : Params) (fl : List Nat) (nf : Nat) : StateC → List EventC → List StateC → Res (StateC × List StateC)
  | s, [], acc => .ok (s, acc)
  | s, e :: es, acc =>
    if running p nf s.toState then
      match stepC t fl nf s e with
      | .ok s' => runListC t p fl nf s' es (s' :: acc)
      | .oob o => .oob o
    else .ok (s, acc)

def replayChecked (j : Json) (t : Triple) : Res Json := do
  let start := (str j "start").toList
  let es := (arr j "events").toList.filterMap Ssm.eventOf
  if es.length != (arr j "events").size then pure (reject "parse") else
  let p : Params := ⟨nat j "bmax", nat j "imax"⟩
  let S0 ← if boolOf j "raw" then constrainC t start else pure start
  let c ← testConsistencyC t S0
  if !c then pure (reject "start") else
  let fn ← freelocC t
  let fl := fn.1.take fn.2
  let ecs := es.filterMap (eventCOf fl)
  if ecs.length != es.length then pure (reject "event") else
  let s0 : StateC := ⟨S0, List.replicate t.N ' ', 0, 0⟩
  let (fin, acc) ← runListC t p fn.1 fn.2 s0 ecs []
  let fin2 ← runC t p fn.1 fn.2 s0 ecs
  let sts := acc.reverse.map StateC.toState
  let n := sts.length
  if !(ecs.take n).all (fun e => decide (e.k < fn.2)) then pure (reject "event") else
  if !(es.take n).all (fun e => (choices (t.stAt e.idx)).contains e.base) then pure (reject "event") else
  let out ← constrainC t fin.S
  let c' ← testConsistencyC t out
  pure (Json.mkObj [("ok", Json.mkObj [
    ("oob", Json.null),
    ("constrained", Json.str (String.ofList S0)),
    ("stopped_at", Json.num (n : Nat)), ("stopped", Json.bool (!running p fn.2 fin.toState)),
    ("final", Json.str (String.ofList out)), ("consistent", Json.bool c'),
    ("runC_agrees", Json.bool (fin2.S == fin.S && fin2.bored == fin.bored && fin2.steps == fin.steps)),
    ("nfree", Json.num (fn.2 : Nat)),
    ("digest", Json.num (sts.foldl Ssm.hashState 0 : Nat))])])

def handle (j : Json) : Json :=
  let t := Ssm.tripleOf j
  match str j "op" with
  | "ssm-replay-checked" =>
    match replayChecked j t with
    | .ok r => r
    | .oob o => oobJson o
  | "ssm-program-checked" =>
    let o : Opts := { automatic := boolOf j "automatic", bmax := optNat j "bmax", imax := nat j "imax",
                      bmult := (optNat j "bmult").getD 12 }
    let start := (str j "start").toList
    let es := (arr j "events").toList.filterMap Ssm.eventOf
    let fl := freeLocs t
    -- a position outside the table gets the index `N` (out of range of `freeloc`)
    let ecs : List EventC := es.map (fun e => ⟨(fl.idxOf? e.idx).getD t.N, e.base, e.cmp⟩)
    let total := match program t o start es with
      | some s => Json.str (String.ofList s) | none => Json.null
    match programC t o start ecs with
    | .ok r => Json.mkObj [("ok", Json.mkObj [("oob", Json.null),
        ("out", match r with | some s => Json.str (String.ofList s) | none => Json.null), ("total", total)])]
    | .oob ob => Json.mkObj [("ok", Json.mkObj [("oob", Json.arr #[Json.str (arrName ob.arr),
        Json.num (JsonNumber.fromInt ob.idx), Json.str (siteName ob.site)]), ("out", Json.null), ("total", total)])]
  | op => Json.mkObj [("bad", Json.str ("unknown op " ++ op))]

def handle? (op : String) (j : Json) : Option Json := if known.contains op then some (handle j) else none

end Pepper.Driver.SsmCheckedOps
