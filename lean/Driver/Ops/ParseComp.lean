import Driver.Util
/-! Operations of the statement-level `.comp` text parser (`PepperModel/ParseComp.lean`).
    The statement / source JSON has the shape the `compile` operation accepts (`Driver/Ops/Compile.lean`). -/
open Lean
namespace Pepper.Driver.ParseCompOps
open Pepper.Driver Pepper.Comp Pepper.ParseComp

def optS : Option String → Json
  | some s => Json.str s
  | none => Json.null

def itemJson : SrcItem → Json
  | .nuc t => Json.mkObj [("t", "nuc"), ("text", Json.str (String.ofList t))]
  | .ref n s => Json.mkObj [("t", "ref"), ("name", Json.str n), ("star", Json.bool s)]
  | .domains n s => Json.mkObj [("t", "dom"), ("name", Json.str n), ("star", Json.bool s)]

def lenJson : Option Nat → Json
  | some n => Json.num n
  | none => Json.null

def strs (l : List String) : Json := Json.arr (l.map Json.str).toArray

def stmtJson : Stmt → Json
  | .seq n its len => Json.mkObj [("k", "seq"), ("name", Json.str n), ("items", Json.arr (its.map itemJson).toArray), ("len", lenJson len)]
  | .strand d n its len => Json.mkObj [("k", "strand"), ("dummy", Json.bool d), ("name", Json.str n),
      ("items", Json.arr (its.map itemJson).toArray), ("len", lenJson len)]
  | .struct o n ss d t => Json.mkObj [("k", "struct"),
      ("opt", match o with | .default => Json.null | .noOpt => Json.str "no-opt" | .value v => Json.str v),
      ("name", Json.str n), ("strands", strs ss), ("domain", Json.bool d), ("text", Json.str (String.ofList t))]
  | .kinetic lo hi i o => Json.mkObj [("k", "kinetic"), ("low", optS lo), ("high", optS hi), ("ins", strs i), ("outs", strs o)]

def portJson (p : Port) : Json := Json.mkObj [("seq", Json.str p.seq), ("star", Json.bool p.star), ("struct", optS p.struct)]

def declFields (name : String) (params : List String) (ins outs : List Port) : List (String × Json) :=
  [("kind", "comp"), ("name", Json.str name), ("params", strs params),
   ("inputs", Json.arr (ins.map portJson).toArray), ("outputs", Json.arr (outs.map portJson).toArray)]

def handle? (op : String) (j : Json) : Option Json :=
  match op with
  | "parse-comp-line" =>
    some (match parseLine (str j "line") with
      | .ok st => Json.mkObj [("ok", stmtJson st)]
      | .error _ => reject "reject")
  | "parse-comp-declare" =>
    some (match parseDeclare (str j "line") with
      | .ok d => Json.mkObj [("ok", Json.mkObj (declFields d.name d.params d.inputs d.outputs))]
      | .error _ => reject "reject")
  | "parse-comp-doc" =>
    some (match parseDoc (str j "text") (str j "declare") with
      | .ok s => Json.mkObj [("ok", Json.mkObj (declFields s.name s.params s.inputs s.outputs ++
                    [("stmts", Json.arr (s.stmts.map stmtJson).toArray)]))]
      | .error _ => reject "reject")
  | "parse-comp-float" =>
    some (Json.mkObj [("ok", Json.bool (pyFloatOk (str j "s").toList))])
  | _ => none

end Pepper.Driver.ParseCompOps
