import Driver.Util
import Driver.Ops.Compile
/-! Denotations: `src-denote` (what a source bundle denotes) and `pil-design` (what a PIL statement list denotes). -/
open Lean
namespace Pepper.Driver.DenoteOps
open Pepper.Driver

def nucJson (n : Nuc) : Json := Json.str (n.var.dom ++ ":" ++ toString n.var.idx ++ (if n.comp then "*" else ""))
def nucsJson (l : List Nuc) : Json := Json.arr (l.map nucJson).toArray
def strs (l : List String) : Json := Json.arr (l.map Json.str).toArray

def optJson : Opt → Json
  | .noOpt => Json.str "no-opt"
  | .nt n => Json.num n
  | .other t => Json.str ("other:" ++ t)

def designJson (d : Design) : Json :=
  Json.mkObj [
    ("domains", Json.arr (d.domains.map (fun (n, t) => Json.arr #[Json.str n, Json.str (String.ofList t)])).toArray),
    ("seqs", Json.arr (d.seqs.map (fun (n, l) => Json.arr #[Json.str n, nucsJson l])).toArray),
    ("strands", Json.arr (d.strands.map (fun (n, dm, l) => Json.arr #[Json.str n, Json.bool dm, nucsJson l])).toArray),
    ("structs", Json.arr (d.structs.map (fun s => Json.arr #[Json.str s.name, strs s.strands, Json.str (String.ofList s.struct), optJson s.opt])).toArray),
    ("kinetics", Json.arr (d.kinetics.map (fun k => Json.arr #[strs k.inputs, strs k.outputs, Json.str k.low, Json.str k.high])).toArray),
    ("equals", Json.arr (d.equals.map (fun e => Json.arr (e.map nucsJson).toArray)).toArray)]

def pilStmt (j : Json) : Pil.Stmt :=
  match str j "k" with
  | "seq" => .seq (str j "name") (str j "tmpl").toList
  | "sup" => .sup (str j "name") (strList (j.getObjValD "items"))
  | "strand" => .strand (str j "name") (boolOf j "dummy") (strList (j.getObjValD "items"))
  | "struct" => .struct (str j "name") (match j.getObjVal? "params" with | .ok (.str s) => some s | _ => none)
      (strList (j.getObjValD "strands")) (str j "struct").toList
  | "equal" => .equal (strList (j.getObjValD "items"))
  | _ => .kinetic

def handle? (op : String) (j : Json) : Option Json :=
  match op with
  | "src-denote" =>
    let b := Compile.bundleOf j
    some (match Denote.denoteTop b (str j "entry") (nat j "nargs") (strList (j.getObjValD "includes")) (nat j "anon") with
      | .ok d => Json.mkObj [("ok", designJson d)]
      | .error _ => reject "reject")
  | "pil-design" =>
    let stmts := (arr j "stmts").toList.map pilStmt
    some (match Pil.load Generated.pilTable stmts {} with
      | .ok s => Json.mkObj [("ok", designJson (Pil.denote s))]
      | .error _ => reject "reject")
  | _ => none

end Pepper.Driver.DenoteOps
