import Driver.Util
import Driver.Ops.Compile
import Driver.Ops.Denote
/-! `des-doc`: the emitted `.des` as a document (`Des.desDoc`), the design of the object tables
    (`Des.designOf`) and the decidable consistency hypothesis of the C03 theorems (`Des.BlocksOk`). -/
open Lean
namespace Pepper.Driver.DesOps
open Pepper.Driver

def pairS (n : String) (t : List Char) : Json := Json.arr #[Json.str n, Json.str (String.ofList t)]

def kindOf : Des.Line → String
  | .struct _ _ => "structure" | .seq _ _ => "sequence" | .assign _ _ => "assign" | .bound _ _ => "bound"

def docJson (doc : Des.DesDoc) : List (String × Json) := [
  ("structures", Json.arr ((Des.structLines doc).map (fun (n, dp) => pairS n dp)).toArray),
  ("sequences", Json.arr ((Des.seqLines doc).map (fun (n, t) => pairS n t)).toArray),
  ("assign", Json.arr ((Des.assignLines doc).map (fun (n, its) =>
      Json.arr #[Json.str n, Json.arr (its.map (fun i => Json.str i.render)).toArray])).toArray),
  ("bounds", Json.arr ((Des.boundLines doc).map (fun (n, t) => Json.arr #[Json.str n, Json.str t])).toArray),
  ("kinds", Json.arr (doc.map (fun l => Json.str (kindOf l))).toArray)]

def handle? (op : String) (j : Json) : Option Json :=
  match op with
  | "des-doc" =>
    let b := Compile.bundleOf j
    let includes := strList (j.getObjValD "includes")
    let fixed := (arr j "fixed").toList.map (fun f => (⟨str f "kind", str f "name", (str f "seq").toList⟩ : Compile.FixLine))
    some (match Sys.loadFile b 32 (str j "entry") (nat j "nargs") "@" "" "." includes (nat j "anon") with
    | .error _ => reject "reject"
    | .ok (inst, _) =>
      match Compile.applyAllFixed Generated.dnaTable inst fixed 0 with
      | .error _ => reject "fix-error"
      | .ok (inst', _) =>
        let doc := Des.desDoc inst'
        Json.mkObj [("ok", Json.mkObj (docJson doc ++ [
          ("wf", Json.bool (Des.wellFormed doc)),
          ("tables_ok", Json.bool (decide (Des.BlocksOk (Des.blocksInst inst')))),
          ("design", DenoteOps.designJson (Des.designOf inst'))]))])
  | _ => none

end Pepper.Driver.DesOps
