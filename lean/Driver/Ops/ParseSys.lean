import Driver.Util
import Driver.Ops.Compile
/-! Operations of the `.sys` text parser model (`PepperModel/ParseSys.lean`):
    `parse-sys-line`, `parse-sys-declare`, `parse-sys-doc`, `parse-sys-first`, `render-sys`.
    Statement / source JSON is in the shape `Compile.sysStmt` / `Compile.fileSrc` decode.
    `dw` (optional, default `" \t"`) is pyparsing's process-global default white space at call time. -/
open Lean
namespace Pepper.Driver.ParseSysOps
open Pepper.Driver Pepper.Sys Pepper.ParseSys

def sigJson (r : SigRef) : Json := Json.mkObj [("name", Json.str r.name), ("star", Json.bool r.star)]
def sigsJson (l : List SigRef) : Json := Json.arr (l.map sigJson).toArray

def stmtJson : SStmt → Json
  | .imports items => Json.mkObj [("k", "import"), ("items", Json.arr (items.map (fun (p, a) =>
      Json.arr #[Json.str p, match a with | some x => Json.str x | none => Json.null])).toArray)]
  | .component name templ args ins outs => Json.mkObj [("k", "component"), ("name", Json.str name),
      ("templ", Json.str templ), ("nargs", Json.num args), ("ins", sigsJson ins), ("outs", sigsJson outs)]

def declFields (d : Decl) : List (String × Json) :=
  [("name", Json.str d.name), ("params", Json.arr (d.params.map Json.str).toArray),
   ("inputs", sigsJson d.inputs), ("outputs", sigsJson d.outputs)]

def srcJson (s : SSrc) : Json :=
  Json.mkObj ([("kind", Json.str "sys")] ++ declFields ⟨s.name, s.params, s.inputs, s.outputs⟩ ++
    [("stmts", Json.arr (s.stmts.map stmtJson).toArray)])

def errJson : ParseSys.Err → Json
  | .reject => reject "reject"
  | .outOfModel => reject "out-of-model"

def dwOf (j : Json) : String := match j.getObjVal? "dw" with
  | .ok (.str s) => s
  | _ => defaultWs

def ok (v : Json) : Json := Json.mkObj [("ok", v)]

def handle? (op : String) (j : Json) : Option Json :=
  match op with
  | "parse-sys-line" =>
    let dw := dwOf j
    let line := str j "line"
    some (match str j "as" with
      | "import" => (match parseImport dw line with
          | some items => ok (stmtJson (.imports items))
          | none => reject "reject")
      | "component" => (match parseComponent dw line with
          | .ok st => ok (stmtJson st)
          | .error e => errJson e)
      | _ => (match parseLine dw line with
          | .ok (some st) => ok (stmtJson st)
          | .ok none => ok Json.null
          | .error e => errJson e))
  | "parse-sys-declare" =>
    some (match parseDeclare (dwOf j) (str j "line") with
      | some d => ok (Json.mkObj (declFields d))
      | none => reject "reject")
  | "parse-sys-doc" =>
    some (match parseDoc (dwOf j) (str j "declare") (str j "doc") with
      | .ok s => ok (srcJson s)
      | .error e => errJson e)
  | "parse-sys-first" =>
    let (c, r) := firstStatement (str j "text")
    some (ok (Json.mkObj [("line", Json.str c), ("rest", Json.arr (r.map Json.str).toArray)]))
  | "render-sys" =>
    some (match j.getObjVal? "stmt" with
      | .ok st => okStr (renderSStmt (Compile.sysStmt st))
      | _ =>
        let d := j.getObjValD "decl"
        okStr (renderDecl ⟨str d "name", strList (d.getObjValD "params"), (arr d "inputs").toList.map Compile.sigRef,
          (arr d "outputs").toList.map Compile.sigRef⟩))
  | _ => none

end Pepper.Driver.ParseSysOps
