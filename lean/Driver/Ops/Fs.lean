import Driver.Util
/-! Operations on Fs (C20): tool footprints and the decidable hypotheses of `C20.footprints_disjoint`. -/
open Lean
namespace Pepper.Driver.Fs
open Pepper.Driver Pepper.Fs

def optS (j : Json) (k : String) : Option String := (j.getObjValAs? String k).toOption

def toolOf (s : String) : Option Tool :=
  if s == "compile" then some .compile else if s == "design" then some .design
  else if s == "finish" then some .finish else none

def invOf (j : Json) : Option Invocation :=
  (toolOf (str j "tool")).map fun t =>
    ⟨t, { arg0 := str j "arg0", output := optS j "output", save := optS j "save", tempname := optS j "tempname",
          design := optS j "design", seqs := optS j "seqs", strands := optS j "strands", fixed := optS j "fixed",
          des := boolOf j "des", justFiles := boolOf j "just_files", cleanup := boolOf j "cleanup",
          sources := strList (j.getObjValD "sources"), existing := strList (j.getObjValD "existing") }⟩

def sortedStrs (l : List String) : Json :=
  Json.arr ((l.eraseDups.toArray.qsort (· < ·)).map Json.str)

def disjointB (a b : List String) : Bool := a.all (fun x => !b.contains x)

def handle? (op : String) (j : Json) : Option Json :=
  match op with
  | "footprint" => some <|
    match invOf j with
    | none => reject "tool"
    | some i =>
      let f := footprintOf i
      Json.mkObj [("ok", Json.mkObj [("reads", sortedStrs f.reads), ("probes", sortedStrs f.probes),
                                     ("writes", sortedStrs f.writes)])]
  | "footprint-pair" => some <|
    match invOf (j.getObjValD "a"), invOf (j.getObjValD "b") with
    | some a, some b =>
      Json.mkObj [("ok", Json.mkObj [
        ("distinct", Json.bool (namesDistinct a b)), ("side", Json.bool (sideCond a b)),
        ("indep", Json.bool (disjointB (writesOf a) (writesOf b) && disjointB (observes a) (writesOf b)
                              && disjointB (observes b) (writesOf a)))])]
    | _, _ => reject "tool"
  | _ => none

end Pepper.Driver.Fs
