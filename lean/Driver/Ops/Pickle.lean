import Driver.Util
/-! Operations of the pickle model (`PepperModel/Pickle.lean`).

    wire format — a tag: `["none"]`, `["bool", b]`, `["int", "<decimal>"]`, `["float", "<16 hex>"]`, `["str", s]`,
    `["bytes", hex]`, `["tuple"]`, `["list"]`, `["dict"]`, `["set"]`, `["frozenset"]`, `["global"]`,
    `["obj", viaNew, hasState, nItems]`;  a cell: `[tag, [kids…]]`;  a heap: array of cells;
    an opcode: `[name]` or `[name, arg]` (`int`: decimal string, `float` / `bytes`: hex, `str`: the string,
    `get` / `put` / `proto`: number, `global`: `[name, module, qualname]`);
    a canonical form: `{"root": cref, "cells": [[tag, [cref…]]…]}` with cref = a number or (inlined atom) a tag.

    * `pickle-run`   `ops`, optional `setstate` (`[[module, qualname]…]`) → `ok`: canonical form of the decoded graph,
                     `heap`: cells allocated, `reach`: cells in the canonical form
    * `pickle-canon` `heap`, `root` → `ok`: canonical form
    * `pickle-dump`  `heap`, `root` → `ok`: the opcode list of the abstract pickler
    * `pickle-snapshot` `ops` → `ok`: the C16 snapshot (`harness/snapshot.py` tree, the model's `snapshot` op) read off the heap the
                     Lean unpickler decodes from the opcodes (`snapshotOfHeap`)
    * `pickle-supported` `heap`, `root` → `ok`: `supportedB heap root` — the decidable form of the hypothesis `Supported` of theorem
                     `roundtrip` (`supportedB_sound`): when true, the round trip of this heap is PROVED, not only evaluated
    * `pickle-roundtrip` `heap`, `root` → `ok`: `canon (run (dump heap root)) = canon heap root` (an instance of theorem
                     `roundtrip`, evaluated) -/
open Lean
namespace Pepper.Driver.PickleOps
open Pepper.Driver Pepper.Pickle

def tagJson : Tag → Json
  | .none => Json.arr #["none"]
  | .bool b => Json.arr #["bool", Json.bool b]
  | .int z => Json.arr #["int", Json.str (toString z)]
  | .float x => Json.arr #["float", Json.str x]
  | .str s => Json.arr #["str", Json.str s]
  | .bytes s => Json.arr #["bytes", Json.str s]
  | .tuple => Json.arr #["tuple"]
  | .list => Json.arr #["list"]
  | .dict => Json.arr #["dict"]
  | .set => Json.arr #["set"]
  | .frozenset => Json.arr #["frozenset"]
  | .global => Json.arr #["global"]
  | .obj a b n => Json.arr #["obj", Json.bool a, Json.bool b, Json.num n]

def jstr (j : Json) : Option String := j.getStr?.toOption
def jnat (j : Json) : Option Nat := j.getNat?.toOption
def jbool (j : Json) : Option Bool := match j with | .bool b => some b | _ => none

def tagOf (j : Json) : Option Tag :=
  match j with
  | .arr a =>
    match a.toList with
    | [n] => match jstr n with
      | some "none" => some .none | some "tuple" => some .tuple | some "list" => some .list | some "dict" => some .dict
      | some "set" => some .set | some "frozenset" => some .frozenset | some "global" => some .global
      | _ => none
    | [n, x] => match jstr n with
      | some "bool" => (jbool x).map .bool
      | some "int" => (jstr x).bind (fun s => s.toInt?.map .int)
      | some "float" => (jstr x).map .float
      | some "str" => (jstr x).map .str
      | some "bytes" => (jstr x).map .bytes
      | _ => none
    | [n, a, b, c] => match jstr n, jbool a, jbool b, jnat c with
      | some "obj", some a, some b, some c => some (.obj a b c)
      | _, _, _, _ => none
    | _ => none
  | _ => none

def cellOf (j : Json) : Option Cell :=
  match j with
  | .arr #[t, .arr ks] => do
    let tag ← tagOf t
    let kids ← ks.toList.mapM jnat
    pure ⟨tag, kids⟩
  | _ => none

def heapOf (j : Json) : Option Heap :=
  match j with
  | .arr cs => (cs.toList.mapM cellOf).map List.toArray
  | _ => none

def opOf (j : Json) : Option Op :=
  match j with
  | .arr a =>
    match a.toList with
    | [n] => match jstr n with
      | some "frame" => some .frame | some "stop" => some .stop | some "none" => some .none
      | some "newtrue" => some .newtrue | some "newfalse" => some .newfalse | some "memoize" => some .memoize
      | some "emptyDict" => some .emptyDict | some "emptyList" => some .emptyList | some "emptyTuple" => some .emptyTuple
      | some "emptySet" => some .emptySet | some "mark" => some .mark | some "setitem" => some .setitem
      | some "setitems" => some .setitems | some "append" => some .append | some "appends" => some .appends
      | some "additems" => some .additems | some "frozenset" => some .frozenset | some "tuple" => some .tuple
      | some "tuple1" => some .tuple1 | some "tuple2" => some .tuple2 | some "tuple3" => some .tuple3
      | some "stackGlobal" => some .stackGlobal | some "newobj" => some .newobj | some "newobjEx" => some .newobjEx
      | some "reduce" => some .reduce | some "build" => some .build | some "pop" => some .pop
      | some "popMark" => some .popMark | some "dup" => some .dup
      | _ => none
    | [n, x] => match jstr n with
      | some "proto" => (jnat x).map .proto
      | some "int" => (jstr x).bind (fun s => s.toInt?.map .int)
      | some "float" => (jstr x).map .float
      | some "str" => (jstr x).map .str
      | some "bytes" => (jstr x).map .bytes
      | some "get" => (jnat x).map .get
      | some "put" => (jnat x).map .put
      | _ => none
    | [n, x, y] => match jstr n, jstr x, jstr y with
      | some "global", some m, some q => some (.global m q)
      | _, _, _ => none
    | _ => none
  | _ => none

def opJson : Op → Json
  | .proto n => Json.arr #["proto", Json.num n]
  | .frame => Json.arr #["frame"] | .stop => Json.arr #["stop"] | .none => Json.arr #["none"]
  | .newtrue => Json.arr #["newtrue"] | .newfalse => Json.arr #["newfalse"]
  | .int z => Json.arr #["int", Json.str (toString z)]
  | .float x => Json.arr #["float", Json.str x]
  | .str s => Json.arr #["str", Json.str s]
  | .bytes s => Json.arr #["bytes", Json.str s]
  | .memoize => Json.arr #["memoize"]
  | .get i => Json.arr #["get", Json.num i]
  | .put i => Json.arr #["put", Json.num i]
  | .emptyDict => Json.arr #["emptyDict"] | .emptyList => Json.arr #["emptyList"]
  | .emptyTuple => Json.arr #["emptyTuple"] | .emptySet => Json.arr #["emptySet"]
  | .mark => Json.arr #["mark"] | .setitem => Json.arr #["setitem"] | .setitems => Json.arr #["setitems"]
  | .append => Json.arr #["append"] | .appends => Json.arr #["appends"] | .additems => Json.arr #["additems"]
  | .frozenset => Json.arr #["frozenset"] | .tuple => Json.arr #["tuple"] | .tuple1 => Json.arr #["tuple1"]
  | .tuple2 => Json.arr #["tuple2"] | .tuple3 => Json.arr #["tuple3"]
  | .global m n => Json.arr #["global", Json.str m, Json.str n]
  | .stackGlobal => Json.arr #["stackGlobal"] | .newobj => Json.arr #["newobj"] | .newobjEx => Json.arr #["newobjEx"]
  | .reduce => Json.arr #["reduce"] | .build => Json.arr #["build"] | .pop => Json.arr #["pop"]
  | .popMark => Json.arr #["popMark"] | .dup => Json.arr #["dup"]

def crefJson : CRef → Json
  | .atom t => tagJson t
  | .idx n => Json.num n

def canonJson (c : Canon) : Json :=
  Json.mkObj [("root", crefJson c.root),
              ("cells", Json.arr (c.cells.map (fun (t, ks) => Json.arr #[tagJson t, Json.arr (ks.map crefJson).toArray])).toArray)]

def pairsOf (j : Json) : List (String × String) :=
  match j with
  | .arr a => a.toList.filterMap (fun e => match e with
      | .arr #[m, n] => match jstr m, jstr n with
        | some a, some b => some (a, b)
        | _, _ => none
      | _ => none)
  | _ => []

def baseJ (b : String × Bool × Int) : Json := Json.arr #[Json.str b.1, Json.bool b.2.1, Json.num (Lean.JsonNumber.fromInt b.2.2)]
def itemJ (i : String × Bool) : Json := Json.arr #[Json.str i.1, Json.bool i.2]
def strsJ (l : List String) : Json := Json.arr (l.map Json.str).toArray
def intJ (z : Int) : Json := Json.num (Lean.JsonNumber.fromInt z)

/-- same shape as `FinishOps.compSnap` (the model's own `snapshot`), except `opt`: the number as it is in the heap
    (`["float", hex]` / `["int", decimal]`), formatted with `"%f"` by the harness -/
def snapCompJ (s : SnapComp) : Json :=
  Json.mkObj [
    ("pfx", Json.str s.pfx),
    ("seqs", Json.arr (s.seqs.map (fun e => Json.mkObj [("name", Json.str e.name), ("sup", Json.bool e.sup), ("len", intJ e.len),
        ("const", Json.str e.const), ("items", Json.arr (e.items.map itemJ).toArray),
        ("bases", Json.arr (e.bases.map baseJ).toArray)])).toArray),
    ("strands", Json.arr (s.strands.map (fun e => Json.mkObj [("name", Json.str e.name), ("dummy", Json.bool e.dummy), ("len", intJ e.len),
        ("items", Json.arr (e.items.map itemJ).toArray), ("bases", Json.arr (e.bases.map baseJ).toArray)])).toArray),
    ("structs", Json.arr (s.structs.map (fun e => Json.mkObj [("name", Json.str e.name), ("strands", strsJ e.strands),
        ("struct", Json.str e.struct), ("opt", tagJson e.opt),
        ("bases", Json.arr (e.bases.map baseJ).toArray)])).toArray),
    ("kinetics", Json.arr (s.kins.map (fun k => Json.mkObj [("name", Json.str k.1), ("ins", strsJ k.2.1), ("outs", strsJ k.2.2)])).toArray)]

partial def snapInstJ : SnapInst → Json
  | .comp c => Json.mkObj [("kind", "comp"), ("comp", snapCompJ c)]
  | .sys pfx sigs lens comps => Json.mkObj [("kind", "sys"), ("pfx", Json.str pfx),
      ("signals", Json.arr (sigs.map (fun (n, es) => Json.arr #[Json.str n, Json.arr (es.map (fun e =>
          Json.arr #[Json.str e.1, Json.str e.2.1, Json.bool e.2.2])).toArray])).toArray),
      ("lengths", Json.arr (lens.map (fun (n, l) => Json.arr #[Json.str n, intJ l])).toArray),
      ("components", Json.arr (comps.map (fun (n, i) => Json.arr #[Json.str n, snapInstJ i])).toArray)]

def handle? (op : String) (j : Json) : Option Json :=
  match op with
  | "pickle-run" =>
    some (match (arr j "ops").toList.mapM opOf with
      | none => reject "bad-ops"
      | some ops =>
        let cfg : Cfg := { setstate := pairsOf ((j.getObjVal? "setstate").toOption.getD Json.null) }
        match runWith cfg ops with
        | .error e => reject e.cls
        | .ok (h, r) =>
          match canon h r with
          | none => reject "canon"
          | some c => Json.mkObj [("ok", canonJson c), ("heap", Json.num h.size), ("reach", Json.num c.cells.length)])
  | "pickle-canon" =>
    some (match heapOf ((j.getObjVal? "heap").toOption.getD Json.null) with
      | none => reject "bad-heap"
      | some h =>
        match canon h (nat j "root") with
        | none => reject "canon"
        | some c => Json.mkObj [("ok", canonJson c), ("reach", Json.num c.cells.length)])
  | "pickle-dump" =>
    some (match heapOf ((j.getObjVal? "heap").toOption.getD Json.null) with
      | none => reject "bad-heap"
      | some h =>
        match dump h (nat j "root") with
        | .error e => reject e.cls
        | .ok ops => Json.mkObj [("ok", Json.arr (ops.map opJson).toArray)])
  | "pickle-roundtrip" =>
    some (match heapOf ((j.getObjVal? "heap").toOption.getD Json.null) with
      | none => reject "bad-heap"
      | some h =>
        Json.mkObj [("ok", Json.bool (roundtripB h (nat j "root")))])
  | "pickle-snapshot" =>
    some (match (arr j "ops").toList.mapM opOf with
      | none => reject "bad-ops"
      | some ops =>
        match run ops with
        | .error e => reject e.cls
        | .ok (h, r) =>
          match snapshotOfHeap h r with
          | none => reject "no-snapshot"
          | some s => Json.mkObj [("ok", snapInstJ s)])
  | "pickle-supported" =>
    some (match heapOf ((j.getObjVal? "heap").toOption.getD Json.null) with
      | none => reject "bad-heap"
      | some h => Json.mkObj [("ok", Json.bool (supportedB h (nat j "root")))])
  | _ => none

end Pepper.Driver.PickleOps
