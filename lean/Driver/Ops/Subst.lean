import Driver.Util
/-! Operations on Subst (template parameter substitution, C13). -/
open Lean
namespace Pepper.Driver.Subst
open Pepper.Driver
open Pepper.Subst

def known : List String := ["subst", "subst-spec", "bind", "instantiate"]

def errName : Err → String
  | .syntax => "syntax" | .name => "name" | .zerodiv => "zerodiv" | .unsupported => "unsupported"
  | .fuel => "fuel" | .arity => "arity"

/-- `{"name": int, …}` (names distinct) or `[["name", int], …]` (most recent binding first) -/
def envOf (j : Json) : Env Int := match j with
  | .obj kvs => kvs.foldl (fun acc k v => match v.getInt? with
      | .ok i => (k.toList, i) :: acc
      | _ => acc) []
  | .arr a => a.toList.filterMap (fun e => match e with
      | .arr #[k, v] => match k.getStr?, v.getInt? with
        | .ok s, .ok i => some (s.toList, i)
        | _, _ => none
      | _ => none)
  | _ => []

def intList (j : Json) : List Int := match j with
  | .arr a => a.toList.filterMap (fun x => x.getInt?.toOption) | _ => []

def linesOf (j : Json) : List Str := (strList (j.getObjValD "lines")).map String.toList

def result (r : Except Err Str) (extra : List (String × Json) := []) : Json := match r with
  | .ok s => Json.mkObj (("ok", Json.str (String.ofList s)) :: extra)
  | .error e => Json.mkObj (("err", Json.str (errName e)) :: extra)

def handle (j : Json) : Json :=
  match str j "op" with
  | "subst" =>
    let lines := linesOf j; let env := envOf (j.getObjValD "env")
    let flat := (substituted evalInt pyStrInt lines env).all (fun l => flatB false l)
    result (processList evalInt pyStrInt lines env) [("flat", Json.bool flat)]
  | "subst-spec" =>
    result (handExpand evalInt pyStrInt (linesOf j) (envOf (j.getObjValD "env")))
  | "bind" =>
    match (bindArgs (strList (j.getObjValD "params") |>.map String.toList) (intList (j.getObjValD "args")) : Except Err (Env Int)) with
    | .ok env => Json.mkObj [("ok", Json.arr (env.map (fun (k, v) =>
        Json.arr #[Json.str (String.ofList k), Json.num (JsonNumber.fromInt v)])).toArray)]
    | .error e => reject (errName e)
  | "instantiate" =>
    result (instantiate (strList (j.getObjValD "params") |>.map String.toList) (intList (j.getObjValD "args")) (linesOf j))
  | op => Json.mkObj [("bad", Json.str ("unknown op " ++ op))]

def handle? (op : String) (j : Json) : Option Json := if known.contains op then some (handle j) else none

end Pepper.Driver.Subst
