import Driver.Util
import PepperModel.ConstraintGen
/-! Operations on the designer front-end: pil-constraints, pil-spec-arrays, satisfiable, ssm-files,
    ssm-contract, pil-denote. -/
open Lean
namespace Pepper.Driver.ConstraintGen
open Pepper.Driver Pepper.Pil Pepper.ConstraintGen

def known : List String :=
  ["pil-constraints", "pil-spec-arrays", "satisfiable", "ssm-files", "ssm-contract", "pil-denote"]

def optStrOf (j : Json) (k : String) : Option String := match j.getObjVal? k with
  | .ok (.str s) => some s | _ => none

def stmtOf (j : Json) : Stmt :=
  match str j "k" with
  | "seq" => .seq (str j "name") (str j "tmpl").toList
  | "sup" => .sup (str j "name") (strList (j.getObjValD "items"))
  | "strand" => .strand (str j "name") (boolOf j "dummy") (strList (j.getObjValD "items"))
  | "struct" => .struct (str j "name") (optStrOf j "params") (strList (j.getObjValD "strands")) (str j "struct").toList
  | "equal" => .equal (strList (j.getObjValD "items"))
  | _ => .kinetic

def stmtsOf (j : Json) : List Stmt := (arr j "stmts").toList.map stmtOf

def layoutOf (j : Json) : Layout := if str j "layout" == "struct" then .struct else .strand

def loadErr : Pil.Err → String
  | .dupSeq => "dupSeq" | .dupStrand => "dupStrand" | .dupStruct => "dupStruct"
  | .undefinedSeq => "undefinedSeq" | .undefinedStrand => "undefinedStrand"
  | .structCount => "structCount" | .structLen => "structLen" | .structChars => "structChars"
  | .bonds => "bonds" | .equalLen => "equalLen" | .emptyEqual => "emptyEqual" | .template => "template"

def genErr : ConstraintGen.Err → String
  | .overconstrained => "overconstrained" | .keyError => "keyError" | .assertion => "assertion"
  | .layout => "layout" | .noPositions => "noPositions"

def optNatJ : Option Nat → Json
  | some n => Json.num n
  | none => Json.null

def optCharJ : Option Char → Json
  | some c => Json.str (String.singleton c)
  | none => Json.null

def arraysJ (a : Arrays) : Json :=
  Json.mkObj [("eq", Json.arr (a.1.map optNatJ).toArray), ("wc", Json.arr (a.2.1.map optNatJ).toArray),
              ("st", Json.arr (a.2.2.map optCharJ).toArray)]

def nucJ (n : Nuc) : Json := Json.arr #[Json.str n.var.dom, Json.num n.var.idx, Json.bool n.comp]
def nucsJ (l : List Nuc) : Json := Json.arr (l.map nucJ).toArray

def optJ : Opt → Json
  | .noOpt => Json.str "no-opt"
  | .nt n => Json.num n
  | .other t => Json.str ("other:" ++ t)

def designJ (d : Design) : Json :=
  Json.mkObj [
    ("domains", Json.arr (d.domains.map (fun (n, t) => Json.arr #[Json.str n, Json.str (String.ofList t)])).toArray),
    ("seqs", Json.arr (d.seqs.map (fun (n, l) => Json.arr #[Json.str n, nucsJ l])).toArray),
    ("strands", Json.arr (d.strands.map (fun (n, dm, l) => Json.arr #[Json.str n, Json.bool dm, nucsJ l])).toArray),
    ("structs", Json.arr (d.structs.map (fun s => Json.arr #[Json.str s.name,
        Json.arr (s.strands.map Json.str).toArray, Json.str (String.ofList s.struct), optJ s.opt])).toArray),
    ("equals", Json.arr (d.equals.map (fun e => Json.arr (e.map nucsJ).toArray)).toArray)]

def withSpec (j : Json) (k : Spec → Json) : Json :=
  match Pil.load Generated.nupackTable (stmtsOf j) {} with
  | .error e => Json.mkObj [("err", Json.str ("load:" ++ loadErr e))]
  | .ok spec => k spec

def segsOfJson (j : Json) : Segs := (arr j "segs").toList.map natList

def handle (j : Json) : Json :=
  match str j "op" with
  | "pil-constraints" => withSpec j (fun spec =>
      match getConstraints (layoutOf j) spec with
      | .ok a => Json.mkObj [("ok", arraysJ a)]
      | .error e => reject (genErr e))
  | "pil-spec-arrays" => withSpec j (fun spec =>
      let d := Pil.denote spec
      if LinkSpec.satisfiableB Generated.pilTable d then
        Json.mkObj [("ok", arraysJ (LinkSpec.specArrays Generated.pilTable (layoutOf j == .struct) d))]
      else okStr "unsat")
  | "satisfiable" => withSpec j (fun spec =>
      Json.mkObj [("ok", Json.bool (LinkSpec.satisfiableB Generated.pilTable (Pil.denote spec)))])
  | "ssm-files" => withSpec j (fun spec =>
      match getConstraints (layoutOf j) spec with
      | .error e => reject (genErr e)
      | .ok a =>
        let f := ssmFiles a
        let base := [("ok", Json.mkObj [("st", Json.str f.st), ("eq", Json.str f.eq), ("wc", Json.str f.wc)])]
        match readTriple f with
        | none => Json.mkObj (base ++ [("read", Json.bool false)])
        | some t =>
          let seed := nat j "pick"
          let start := startOf t (fun i => seed + 7 * i + i / 3)
          Json.mkObj (base ++ [("read", Json.bool true),
            ("triple", Json.mkObj [("st", Json.str (String.ofList t.st)),
                                   ("eq", Json.arr (t.eq.map (fun (n : Nat) => Json.num n)).toArray),
                                   ("wc", Json.arr (t.wc.map (fun (n : Int) => Json.num n)).toArray)]),
            ("contract", Json.bool (SsmContract t (segsOf (layoutOf j) spec))),
            ("segs", Json.arr ((segsOf (layoutOf j) spec).map ofNats).toArray),
            ("consistent", Json.bool (Ssm.testConsistency t (Ssm.constrain t start)))]))
  | "ssm-contract" =>
      match readTriple ⟨str j "st", str j "eq", str j "wc"⟩ with
      | none => reject "reader"
      | some t => Json.mkObj [("ok", Json.bool (SsmContract t (segsOfJson j))),
          ("triple", Json.mkObj [("st", Json.str (String.ofList t.st)),
                                 ("eq", Json.arr (t.eq.map (fun (n : Nat) => Json.num n)).toArray),
                                 ("wc", Json.arr (t.wc.map (fun (n : Int) => Json.num n)).toArray)])]
  | "pil-denote" => withSpec j (fun spec => Json.mkObj [("ok", designJ (Pil.denote spec))])
  | op => Json.mkObj [("bad", Json.str ("unknown op " ++ op))]

def handle? (op : String) (j : Json) : Option Json := if known.contains op then some (handle j) else none

end Pepper.Driver.ConstraintGen
