import Driver.Util
import Driver.Ops.Denote
/-! `gc-token` {k, n} ↦ the text of `"%f" % (k / n)` plus the double `m / 2^s` the model computed for `k / n`;
    `gc-tokens` {pairs: [[k, n], …]} ↦ the same for many pairs in one response;
    `gc-line` {seq, k, n} ↦ the record line `"%s %f %f %d" % (seq, 0, k / n, 0)`;
    `fmt-f` {m, s} ↦ the text of `"%f" % (m / 2^s)`;
    `mfe-write-gc`: `mfe-write` with the real GC-content token in every record (`Mfe.outputGc`): the whole `.mfe` text. -/
open Lean
namespace Pepper.Driver.GcFloatOps
open Pepper.Driver

def one (k n : Nat) : Json :=
  if n == 0 || k > n then reject "domain"
  else
    let d := GcFloat.divRne k n
    Json.mkObj [("ok", Json.str (String.ofList (GcFloat.gcToken k n))), ("m", Json.num d.1), ("s", Json.num d.2)]

def handle? (op : String) (j : Json) : Option Json :=
  match op with
  | "gc-token" => some (one (nat j "k") (nat j "n"))
  | "gc-tokens" =>
    some (Json.mkObj [("ok", Json.arr ((arr j "pairs").map (fun p => match natList p with
      | [k, n] => one k n
      | _ => reject "domain")))])
  | "gc-line" => some (okStr (String.ofList (GcFloat.recordLine (str j "seq").toList (nat j "k") (nat j "n"))))
  | "fmt-f" => some (okStr (String.ofList (GcFloat.fmtF6 (nat j "m") (nat j "s"))))
  | "mfe-write-gc" =>
    let stmts := (arr j "stmts").toList.map DenoteOps.pilStmt
    let mode := if str j "layout" == "struct" then ConstraintGen.Layout.struct else ConstraintGen.Layout.strand
    some (match Pil.load Generated.pilTable stmts {} with
    | .error _ => reject "load"
    | .ok spec =>
      let lay := ConstraintGen.layOf mode spec
      let start := fun (st : Pil.StrandObj) =>
        match ConstraintGen.strandIdx spec st.name with
        | some i => lay.strandStart.getD i none
        | none => none
      match Mfe.processResults Generated.pilTable spec start (str j "nts").toList with
      | .error _ => reject "process"
      | .ok (a, ss) =>
        match Mfe.outputGc Generated.pilTable spec a ss with
        | none => reject "output"
        | some lines => Json.mkObj [("ok", Json.arr (lines.map Json.str).toArray)])
  | _ => none

end Pepper.Driver.GcFloatOps
