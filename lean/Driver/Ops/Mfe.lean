import Driver.Util
import Driver.Ops.Denote
/-! `mfe-write`: PIL statements + layout + designed nucleotide string ↦ the lines of the `.mfe` file
    (`Convert.process_results` then `Convert.output(findmfe=False)`; the GC-content float is printed as `GC`). -/
open Lean
namespace Pepper.Driver.MfeOps
open Pepper.Driver

def handle? (op : String) (j : Json) : Option Json :=
  match op with
  | "mfe-write" =>
    let stmts := (arr j "stmts").toList.map DenoteOps.pilStmt
    let mode := if str j "layout" == "struct" then ConstraintGen.Layout.struct else ConstraintGen.Layout.strand
    some (match Pil.load Generated.pilTable stmts {} with
    | .error _ => reject "load"
    | .ok spec =>
      let lay := ConstraintGen.layOf mode spec
      let start := fun (st : Pil.StrandObj) =>
        match ConstraintGen.strandIdx spec st.name with
        | some i => lay.strandStart.getD i none
        | none => none
      match Mfe.processResults Generated.pilTable spec start (str j "nts").toList with
      | .error _ => reject "process"
      | .ok (a, ss) =>
        match Mfe.output Generated.pilTable spec a ss with
        | none => reject "output"
        | some lines => Json.mkObj [("ok", Json.arr (lines.map Json.str).toArray)])
  | _ => none

end Pepper.Driver.MfeOps
