import Driver.Util
/-! Operations on Codes, Closure, Notation. -/
open Lean
namespace Pepper.Driver.Core
open Pepper.Driver

def known : List String := ["intersect", "wc", "closure", "closure-naive", "notation", "dp2hu", "hu2dp", "ext2dp", "domain-expand"]

def handle (j : Json) : Json :=
  match str j "op" with
  | "intersect" =>
    match (tableOf (str j "table")).intersect ((str j "a").front) ((str j "b").front) with
    | .ok e => Json.mkObj [("ok", Json.str (String.singleton e))]
    | .error .empty => Json.mkObj [("err", "empty")]
    | .error .key => Json.mkObj [("err", "key")]
  | "wc" =>
    match (tableOf (str j "table")).wcStr (str j "s").toList with
    | some r => Json.mkObj [("ok", Json.str (String.ofList r))]
    | none => Json.mkObj [("err", "key")]
  | "closure" =>
    let eq := adjOf (j.getObjValD "eq"); let wc := adjOf (j.getObjValD "wc")
    match Closure.propagate eq wc with
    | .ok r => Json.mkObj [("ok", Json.arr (r.map (fun (x, e, w) =>
        Json.arr #[(x : Json), ofNats (sorted e), ofNats (sorted w)])).toArray), ("pre", Json.bool (Closure.preB eq wc))]
    | .error .keysDiffer => Json.mkObj [("err", "keys")]
    | .error .assertion => Json.mkObj [("err", "assert")]
  | "closure-naive" =>
    let eq := adjOf (j.getObjValD "eq"); let wc := adjOf (j.getObjValD "wc")
    Json.mkObj [("ok", Json.arr ((Closure.keys eq).map (fun x =>
      let (e, w) := Closure.naiveClass eq wc x
      Json.arr #[(x : Json), ofNats (sorted e), ofNats (sorted w)])).toArray)]
  | "notation" =>
    optStr (Notation.compileStruct (str j "s").toList)
  | "dp2hu" => optStr (Notation.dotParen2HU (str j "s").toList)
  | "hu2dp" => optStr (Notation.HU2dotParen (str j "s").toList)
  | "ext2dp" => optStr (Notation.extended2dotParen (str j "s").toList)
  | "domain-expand" =>
    let doms := (arr j "doms").toList.map natList
    optStr (Notation.domainExpand (str j "s").toList doms)
  | op => Json.mkObj [("bad", Json.str ("unknown op " ++ op))]


def handle? (op : String) (j : Json) : Option Json := if known.contains op then some (handle j) else none

end Pepper.Driver.Core
