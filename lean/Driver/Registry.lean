import Driver.Util
import Driver.Ops.Core
import Driver.Ops.Fs
import Driver.Ops.Compile
/-! Registry of operation handlers: each model area adds one import above and one entry below. -/
open Lean
namespace Pepper.Driver

def handlers : List (String → Json → Option Json) := [
  Core.handle?,
  Fs.handle?,
  Compile.handle?
]

def handle (j : Json) : Json :=
  let op := str j "op"
  match handlers.findSome? (fun h => h op j) with
  | some r => r
  | none => Json.mkObj [("bad", Json.str ("unknown op " ++ op))]

end Pepper.Driver
