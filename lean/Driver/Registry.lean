import Driver.Util
import Driver.Ops.Core
import Driver.Ops.ConstraintGen
import Driver.Ops.Fs
import Driver.Ops.Compile
import Driver.Ops.Fix
import Driver.Ops.Denote
import Driver.Ops.Des
import Driver.Ops.Finish
import Driver.Ops.Mfe
import Driver.Ops.GcFloat
import Driver.Ops.Ssm
import Driver.Ops.SsmChecked
import Driver.Ops.Subst
import Driver.Ops.ParseComp
import Driver.Ops.ParsePil
import Driver.Ops.ParseSys
import Driver.Ops.ParseFixed
import Driver.Ops.Pickle
/-! Registry of operation handlers: each model area adds one import above and one entry below. -/
open Lean
namespace Pepper.Driver

def handlers : List (String → Json → Option Json) := [
  Core.handle?,
  ConstraintGen.handle?,
  Fs.handle?,
  Compile.handle?,
  FixOps.handle?,
  DenoteOps.handle?,
  DesOps.handle?,
  FinishOps.handle?,
  MfeOps.handle?,
  GcFloatOps.handle?,
  Ssm.handle?,
  SsmCheckedOps.handle?,
  Subst.handle?,
  ParseCompOps.handle?,
  ParsePilOps.handle?,
  ParseSysOps.handle?,
  ParseFixedOps.handle?,
  PickleOps.handle?
]

def handle (j : Json) : Json :=
  let op := str j "op"
  match handlers.findSome? (fun h => h op j) with
  | some r => r
  | none => Json.mkObj [("bad", Json.str ("unknown op " ++ op))]

end Pepper.Driver
