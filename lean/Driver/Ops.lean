import Lean.Data.Json
import PepperModel
/-! Line-protocol operations of the model driver. Responses are canonical JSON. -/
open Lean
namespace Pepper.Driver

def str (j : Json) (k : String) : String := (j.getObjValAs? String k).toOption.getD ""
def nat (j : Json) (k : String) : Nat := (j.getObjValAs? Nat k).toOption.getD 0
def arr (j : Json) (k : String) : Array Json := match j.getObjVal? k with
  | .ok (.arr a) => a | _ => #[]
def natList (j : Json) : List Nat := match j with
  | .arr a => a.toList.filterMap (fun x => x.getNat?.toOption) | _ => []
def ofNats (l : List Nat) : Json := Json.arr (l.map (fun (n : Nat) => (Json.num n))).toArray
def sorted (l : List Nat) : List Nat := (l.toArray.qsort (· < ·)).toList

def tableOf (n : String) : CodeTable :=
  if n == "pil" then Generated.pilTable else if n == "nupack" then Generated.nupackTable else Generated.dnaTable

def adjOf (j : Json) : Closure.Adj := match j with
  | .arr a => a.toList.filterMap (fun e => match e with
      | .arr #[k, l] => match k.getNat? with | .ok n => some (n, natList l) | _ => none
      | _ => none)
  | _ => []

def handle (j : Json) : Json :=
  match str j "op" with
  | "intersect" =>
    match (tableOf (str j "table")).intersect ((str j "a").front) ((str j "b").front) with
    | .ok e => Json.mkObj [("ok", Json.str (String.singleton e))]
    | .error .empty => Json.mkObj [("err", "empty")]
    | .error .key => Json.mkObj [("err", "key")]
  | "wc" =>
    match (tableOf (str j "table")).wcStr (str j "s").toList with
    | some r => Json.mkObj [("ok", Json.str (String.ofList r))]
    | none => Json.mkObj [("err", "key")]
  | "closure" =>
    let eq := adjOf (j.getObjValD "eq"); let wc := adjOf (j.getObjValD "wc")
    match Closure.propagate eq wc with
    | .ok r => Json.mkObj [("ok", Json.arr (r.map (fun (x, e, w) =>
        Json.arr #[(x : Json), ofNats (sorted e), ofNats (sorted w)])).toArray), ("pre", Json.bool (Closure.preB eq wc))]
    | .error .keysDiffer => Json.mkObj [("err", "keys")]
    | .error .assertion => Json.mkObj [("err", "assert")]
  | "closure-naive" =>
    let eq := adjOf (j.getObjValD "eq"); let wc := adjOf (j.getObjValD "wc")
    Json.mkObj [("ok", Json.arr ((Closure.keys eq).map (fun x =>
      let (e, w) := Closure.naiveClass eq wc x
      Json.arr #[(x : Json), ofNats (sorted e), ofNats (sorted w)])).toArray)]
  | op => Json.mkObj [("bad", Json.str ("unknown op " ++ op))]

end Pepper.Driver
