import Lean.Data.Json
import PepperModel
import Driver.Registry
open Lean

partial def loop (h : IO.FS.Stream) (out : IO.FS.Stream) : IO Unit := do
  let line ← h.getLine
  if line.isEmpty then return ()
  let resp := match Json.parse line with
    | .error e => Json.mkObj [("bad", Json.str e)]
    | .ok j => Pepper.Driver.handle j
  out.putStrLn (Json.compress resp)
  loop h out

def main : IO Unit := do
  let out ← IO.getStdout
  loop (← IO.getStdin) out
  out.flush
