import PepperModel.Comp
import PepperModel.Sys
import PepperModel.Emit
/-!
# Renumbering of anonymous domains, uniqueness of names, dependence on the file system (C18)

Self-contained (imports only the model).

* `anonIdx?` reads a name of the reserved form `_Anon<decimal>` back to its number; `anonName_inj`;
  `shift a k` renames `_Anon n ↦ _Anon (n+k)` for `n ≥ a` and is the identity elsewhere; it is injective.
* `St.rename ρ` applies a renaming of local sequence names to a component state.  `load_rename`: for every
  injective `ρ` that fixes the sequence names the source mentions and maps `_Anon n ↦ _Anon (n+k)` from the
  start counter on, loading at counter `a + k` is loading at `a`, renamed, with the counter shifted.
* name tables of a loaded component are duplicate-free; the emitted statements inherit that.
* `resolveImport` / `loadFile` depend on the bundle's existence list only through the probes.
* systems: `renameInst` (the renaming on a whole instance tree), `loadFile_rename` (the renaming theorem for
  `Sys.loadFile`, with monotonicity of the counter), `instStmts_rename`; `TreeOk`, `tree_names_nodup`,
  `loadFile_treeOk` (uniqueness of declared names over the whole tree when instance and signal names are `-`-free).
-/
set_option linter.unusedSimpArgs false
namespace Pepper.CompShift
open Pepper.Comp Pepper.Constraint

/-! ### the reserved names -/

/-- the number `n` if the name is exactly `_Anon<decimal numeral of n>` -/
def anonIdx? (s : String) : Option Nat :=
  match s.toList with
  | '_' :: 'A' :: 'n' :: 'o' :: 'n' :: ds =>
    if ds = Nat.toDigits 10 (Nat.ofDigitChars 10 ds 0) then some (Nat.ofDigitChars 10 ds 0) else none
  | _ => none

theorem anonName_toList (n : Nat) :
    (anonName n).toList = '_' :: 'A' :: 'n' :: 'o' :: 'n' :: Nat.toDigits 10 n := by
  unfold anonName
  rw [String.toList_append]
  show "_Anon".toList ++ (Nat.repr n).toList = _
  rw [Nat.toList_repr]
  rfl

theorem anonIdx?_anonName (n : Nat) : anonIdx? (anonName n) = some n := by
  unfold anonIdx?
  rw [anonName_toList]
  simp [Nat.ofDigitChars_ten_toDigits]

theorem anonIdx?_eq_some {s : String} {n : Nat} (h : anonIdx? s = some n) : s = anonName n := by
  unfold anonIdx? at h
  split at h
  · rename_i ds heq
    split at h
    · rename_i hd
      injection h with h
      subst h
      apply String.toList_inj.1
      rw [anonName_toList, heq, ← hd]
    · cases h
  · cases h

theorem anonName_inj {m n : Nat} (h : anonName m = anonName n) : m = n := by
  have := anonIdx?_anonName m
  rw [h, anonIdx?_anonName] at this
  injection this with this
  exact this.symm

/-- is the name of the reserved form? -/
def isAnon (s : String) : Bool := (anonIdx? s).isSome

theorem isAnon_anonName (n : Nat) : isAnon (anonName n) = true := by simp [isAnon, anonIdx?_anonName]

theorem not_isAnon_ne {s : String} (h : isAnon s = false) (n : Nat) : s ≠ anonName n := by
  rintro rfl
  simp [isAnon_anonName] at h

theorem isAnon_iff {s : String} : isAnon s = true ↔ ∃ n, s = anonName n := by
  constructor
  · intro h
    unfold isAnon at h
    cases hh : anonIdx? s with
    | none => simp [hh] at h
    | some n => exact ⟨n, anonIdx?_eq_some hh⟩
  · rintro ⟨n, rfl⟩
    exact isAnon_anonName n

/-- the renumbering: `_Anon n ↦ _Anon (n + k)` for `n ≥ a`, every other name unchanged -/
def shift (a k : Nat) (s : String) : String :=
  match anonIdx? s with
  | some n => if a ≤ n then anonName (n + k) else s
  | none => s

theorem shift_anonName {a k n : Nat} (h : a ≤ n) : shift a k (anonName n) = anonName (n + k) := by
  simp [shift, anonIdx?_anonName, h]

theorem shift_anonName_lt {a k n : Nat} (h : n < a) : shift a k (anonName n) = anonName n := by
  have : ¬ a ≤ n := by omega
  simp [shift, anonIdx?_anonName, this]

theorem shift_user {a k : Nat} {s : String} (h : isAnon s = false) : shift a k s = s := by
  unfold isAnon at h
  cases hh : anonIdx? s with
  | none => simp [shift, hh]
  | some n => simp [hh] at h

theorem shift_zero (a : Nat) (s : String) : shift a 0 s = s := by
  unfold shift
  cases hh : anonIdx? s with
  | none => rfl
  | some n =>
    have := anonIdx?_eq_some hh
    simp only [Nat.add_zero]
    split
    · exact this.symm
    · rfl

theorem shift_injective (a k : Nat) {s t : String} (h : shift a k s = shift a k t) : s = t := by
  cases hs : anonIdx? s with
  | none =>
    have e1 : shift a k s = s := by simp [shift, hs]
    cases ht : anonIdx? t with
    | none =>
      have e2 : shift a k t = t := by simp [shift, ht]
      rw [e1, e2] at h; exact h
    | some n =>
      have tn := anonIdx?_eq_some ht
      subst tn
      by_cases hn : a ≤ n
      · rw [e1, shift_anonName hn] at h
        rw [h, anonIdx?_anonName] at hs; cases hs
      · rw [e1, shift_anonName_lt (by omega)] at h
        exact h
  | some m =>
    have sm := anonIdx?_eq_some hs
    subst sm
    cases ht : anonIdx? t with
    | none =>
      have e2 : shift a k t = t := by simp [shift, ht]
      by_cases hm : a ≤ m
      · rw [e2, shift_anonName hm] at h
        rw [← h, anonIdx?_anonName] at ht; cases ht
      · rw [e2, shift_anonName_lt (by omega)] at h
        exact h
    | some n =>
      have tn := anonIdx?_eq_some ht
      subst tn
      by_cases hm : a ≤ m <;> by_cases hn : a ≤ n
      · rw [shift_anonName hm, shift_anonName hn] at h
        have := anonName_inj h
        have : m = n := by omega
        rw [this]
      · rw [shift_anonName hm, shift_anonName_lt (by omega)] at h
        have := anonName_inj h
        omega
      · rw [shift_anonName_lt (by omega), shift_anonName hn] at h
        have := anonName_inj h
        omega
      · rw [shift_anonName_lt (by omega), shift_anonName_lt (by omega)] at h
        exact h

/-! ### renaming a component state -/

def rnB (ρ : String → String) (b : BaseRef) : BaseRef := { b with name := ρ b.name }
def rnI (ρ : String → String) (i : ItemRef) : ItemRef := { i with name := ρ i.name }
def rnE (ρ : String → String) (e : SeqE) : SeqE :=
  { e with name := ρ e.name, items := e.items.map (rnI ρ), bases := e.bases.map (rnB ρ) }
def rnT (ρ : String → String) (t : StrandE) : StrandE :=
  { t with items := t.items.map (rnI ρ), bases := t.bases.map (rnB ρ) }
def rnS (ρ : String → String) (e : StructE) : StructE := { e with bases := e.bases.map (rnB ρ) }

/-- apply a renaming of local sequence names everywhere a component state mentions one: the entries of
    `seqs` (name, item references, base references), the item / base references of strands, the base
    references of structures, the port references.  Strand, structure and kinetic names live in other name
    spaces and never contain generated names: they are left alone. -/
def rename (ρ : String → String) (s : St) : St :=
  { s with seqs := s.seqs.map (rnE ρ), strands := s.strands.map (rnT ρ), structs := s.structs.map (rnS ρ),
           inputSeqs := s.inputSeqs.map (rnI ρ), outputSeqs := s.outputSeqs.map (rnI ρ) }

def rnC (ρ : String → String) : CItem → CItem
  | .obj i bs => .obj (rnI ρ i) (bs.map (rnB ρ))
  | .nuc p => .nuc p

def rnAcc (ρ : String → String) (k : Nat) (a : Acc) : Acc :=
  { items := a.items.map (rnI ρ), bases := a.bases.map (rnB ρ), len := a.len,
    newAnon := a.newAnon.map (rnE ρ), anon := a.anon + k, wild := a.wild }

def rnBuilt (ρ : String → String) (k : Nat) (b : Built) : Built :=
  ⟨b.items.map (rnI ρ), b.bases.map (rnB ρ), b.len, b.newAnon.map (rnE ρ), b.anon + k⟩

@[simp] theorem rnB_inv (ρ : String → String) (b : BaseRef) : rnB ρ b.inv = (rnB ρ b).inv := rfl
@[simp] theorem rnI_inv (ρ : String → String) (i : ItemRef) : rnI ρ i.inv = (rnI ρ i).inv := rfl
@[simp] theorem rnI_len (ρ : String → String) (i : ItemRef) : (rnI ρ i).len = i.len := rfl
@[simp] theorem rnI_name (ρ : String → String) (i : ItemRef) : (rnI ρ i).name = ρ i.name := rfl
@[simp] theorem rnI_rev (ρ : String → String) (i : ItemRef) : (rnI ρ i).rev = i.rev := rfl
@[simp] theorem rnE_name (ρ : String → String) (e : SeqE) : (rnE ρ e).name = ρ e.name := rfl
@[simp] theorem rnE_len (ρ : String → String) (e : SeqE) : (rnE ρ e).len = e.len := rfl
@[simp] theorem rnE_isSup (ρ : String → String) (e : SeqE) : (rnE ρ e).isSup = e.isSup := rfl
@[simp] theorem rnT_name (ρ : String → String) (e : StrandE) : (rnT ρ e).name = e.name := rfl
@[simp] theorem rnT_len (ρ : String → String) (e : StrandE) : (rnT ρ e).len = e.len := rfl
@[simp] theorem rnS_name (ρ : String → String) (e : StructE) : (rnS ρ e).name = e.name := rfl

theorem itemsOfView_rn (ρ : String → String) (e : SeqE) (r : Bool) :
    itemsOfView (rnE ρ e) r = (itemsOfView e r).map (rnI ρ) := by
  cases r <;> simp [itemsOfView, rnE, List.map_reverse, Function.comp_def]

theorem basesOfView_rn (ρ : String → String) (e : SeqE) (r : Bool) :
    basesOfView (rnE ρ e) r = (basesOfView e r).map (rnB ρ) := by
  cases r <;> simp [basesOfView, rnE, List.map_reverse, Function.comp_def]

/-- an injective renaming -/
def Inj (ρ : String → String) : Prop := ∀ x y, ρ x = ρ y → x = y

theorem Inj.beq {ρ : String → String} (h : Inj ρ) (x y : String) : (ρ x == ρ y) = (x == y) := by
  by_cases e : x = y
  · subst e; simp
  · have : ρ x ≠ ρ y := fun c => e (h _ _ c)
    rw [beq_eq_false_iff_ne.2 this, beq_eq_false_iff_ne.2 e]

theorem findSeq_rename {ρ : String → String} (h : Inj ρ) (s : St) (x : String) :
    (rename ρ s).findSeq (ρ x) = (s.findSeq x).map (rnE ρ) := by
  unfold St.findSeq rename
  simp only [List.find?_map]
  congr 1
  · congr 1
    funext e
    simp [h.beq]

theorem findStrand_rename (ρ : String → String) (s : St) (x : String) :
    (rename ρ s).findStrand x = (s.findStrand x).map (rnT ρ) := by
  unfold St.findStrand rename
  simp only [List.find?_map]
  rfl

theorem findStruct_rename (ρ : String → String) (s : St) (x : String) :
    (rename ρ s).findStruct x = (s.findStruct x).map (rnS ρ) := by
  unfold St.findStruct rename
  simp only [List.find?_map]
  rfl

theorem mapM_map_except {α β α' β' ε} (f : α → Except ε β) (f' : α' → Except ε β') (g : α → α') (h : β → β')
    (hf : ∀ x, f' (g x) = (f x).map h) (l : List α) :
    (l.map g).mapM f' = (l.mapM f).map (List.map h) := by
  induction l with
  | nil => rfl
  | cons x r ih =>
    simp only [List.map_cons, List.mapM_cons, ih, hf]
    cases f x with
    | error e => rfl
    | ok y =>
      cases List.mapM f r with
      | error e => rfl
      | ok ys => rfl

theorem bind_map_congr {ε α α' β β'} {A' : Except ε α'} {A : Except ε α} {k' : α' → Except ε β'}
    {k : α → Except ε β} {m : β → β'} {m1 : α → α'}
    (h1 : A' = A.map m1) (h2 : ∀ x, k' (m1 x) = (k x).map m) : A' >>= k' = (A >>= k).map m := by
  subst h1
  cases A with
  | error e => rfl
  | ok x => exact h2 x

theorem bind_congr_right {ε α β β'} {A : Except ε α} {k' : α → Except ε β'}
    {k : α → Except ε β} {m : β → β'} (h2 : ∀ x, k' x = (k x).map m) : A >>= k' = (A >>= k).map m := by
  cases A with
  | error e => rfl
  | ok x => exact h2 x

theorem mapM_except_congr {α β β' ε} (f : α → Except ε β) (f' : α → Except ε β') (h : β → β')
    (hf : ∀ x, f' x = (f x).map h) (l : List α) : l.mapM f' = (l.mapM f).map (List.map h) := by
  have := mapM_map_except f f' id h hf l
  simpa using this

theorem mapM_except_congr_mem {α β β' ε} (f : α → Except ε β) (f' : α → Except ε β') (h : β → β') :
    ∀ (l : List α), (∀ x ∈ l, f' x = (f x).map h) → l.mapM f' = (l.mapM f).map (List.map h)
  | [], _ => rfl
  | x :: r, hf => by
    have ih := mapM_except_congr_mem f f' h r (fun y hy => hf y (List.mem_cons_of_mem _ hy))
    simp only [List.mapM_cons, ih, hf x (List.mem_cons_self)]
    cases f x with
    | error e => rfl
    | ok y =>
      cases List.mapM f r with
      | error e => rfl
      | ok ys => rfl

/-! ### `clean_const` commutes with a renaming that fixes the names the source mentions -/

/-- the sequence names an item list mentions -/
def refNames : List SrcItem → List String
  | [] => []
  | .nuc _ :: r => refNames r
  | .ref n _ :: r => n :: refNames r
  | .domains n _ :: r => n :: refNames r

theorem cleanConst_rename {ρ : String → String} (h : Inj ρ) (s : St) :
    ∀ (items : List SrcItem), (∀ x ∈ refNames items, ρ x = x) →
      cleanConst (rename ρ s) items = (cleanConst s items).map (List.map (rnC ρ))
  | [], _ => rfl
  | .nuc text :: r, hx => by
    have ih := cleanConst_rename h s r (fun x hm => hx x (by simpa [refNames] using hm))
    simp only [cleanConst, ih, bind, Except.bind, pure, Except.pure]
    cases cleanConst s r <;> rfl
  | .ref n star :: r, hx => by
    have ih := cleanConst_rename h s r (fun x hm => hx x (by simp [refNames, hm]))
    have hn : ρ n = n := hx n (by simp [refNames])
    have hf := findSeq_rename h s n
    rw [hn] at hf
    simp only [cleanConst, hf, ih, bind, Except.bind, pure, Except.pure]
    cases s.findSeq n with
    | none => rfl
    | some e =>
      simp only [Option.map_some]
      cases cleanConst s r with
      | error e => rfl
      | ok rest => simp [Except.map, rnC, rnI, basesOfView_rn]
  | .domains n star :: r, hx => by
    have ih := cleanConst_rename h s r (fun x hm => hx x (by simp [refNames, hm]))
    have hn : ρ n = n := hx n (by simp [refNames])
    have hf := findSeq_rename h s n
    rw [hn] at hf
    simp only [cleanConst, hf, ih]
    cases s.findSeq n with
    | none => rfl
    | some e =>
      simp only [Option.map_some, rnE_isSup]
      by_cases hsup : e.isSup = true
      case neg =>
        have hsup : e.isSup = false := by simpa using hsup
        simp [hsup, throw, throwThe, MonadExceptOf.throw, Except.map, bind, Except.bind]
      case pos =>
        simp only [itemsOfView_rn, hsup, Bool.not_true, Bool.false_eq_true, if_false]
        refine bind_map_congr (m1 := List.map (rnC ρ)) ?_ ?_
        · refine mapM_map_except _ _ _ _ ?_ _
          intro i
          simp only [rnI_name, findSeq_rename h]
          cases s.findSeq i.name with
          | none => rfl
          | some ie => simp [Except.map, rnC, basesOfView_rn, pure, Except.pure]
        · intro objs
          refine bind_map_congr (m1 := List.map (rnC ρ)) rfl ?_
          intro rest
          simp [Except.map, pure, Except.pure]

/-! ### building a super-sequence / strand -/

/-- `ρ` renumbers the generated names from `a0` on by `k` -/
def Renum (ρ : String → String) (a0 k : Nat) : Prop := ∀ n, a0 ≤ n → ρ (anonName n) = anonName (n + k)

theorem mkAnon_rn {ρ : String → String} {a0 k : Nat} (hr : Renum ρ a0 k) {n : Nat} (hn : a0 ≤ n) (l : Nat) (c : List Char) :
    mkAnon (n + k) l c = rnE ρ (mkAnon n l c) := by
  simp [mkAnon, rnE, rnB, hr n hn]

theorem buildStep_rn {ρ : String → String} {a0 k : Nat} (hr : Renum ρ a0 k) (a : Acc) (ha : a0 ≤ a.anon) (c : CItem) :
    buildStep (rnAcc ρ k a) (rnC ρ c) = (buildStep a c).map (rnAcc ρ k) := by
  cases c with
  | obj i bs => simp [buildStep, rnC, rnAcc, Except.map]
  | nuc parts =>
    simp only [buildStep, rnC]
    split
    · rename_i l c hres
      have : (rnAcc ρ k a).anon = a.anon + k := rfl
      simp only [this, mkAnon_rn hr ha]
      simp [rnAcc, Except.map, SeqE.ref, rnE, rnI, mkAnon]
      omega
    · cases hw : a.wild <;> simp [rnAcc, hw, Except.map]
    · rfl

theorem buildStep_anon_le {a a' : Acc} {c : CItem} (h : buildStep a c = .ok a') : a.anon ≤ a'.anon := by
  cases c with
  | obj i bs => simp [buildStep] at h; subst h; simp
  | nuc parts =>
    simp only [buildStep] at h
    split at h
    · injection h with h; subst h; simp
    · split at h
      · cases h
      · injection h with h; subst h; simp
    · cases h

theorem buildFold_rn {ρ : String → String} {a0 k : Nat} (hr : Renum ρ a0 k) :
    ∀ (cs : List CItem) (a : Acc), a0 ≤ a.anon →
      buildFold (cs.map (rnC ρ)) (rnAcc ρ k a) = (buildFold cs a).map (rnAcc ρ k)
  | [], a, _ => rfl
  | c :: r, a, ha => by
    simp only [List.map_cons, buildFold, buildStep_rn hr a ha c]
    cases hs : buildStep a c with
    | error e => rfl
    | ok a' =>
      simp only [Except.map]
      exact buildFold_rn hr r a' (Nat.le_trans ha (buildStep_anon_le hs))

theorem buildFold_anon_le : ∀ {cs : List CItem} {a a' : Acc}, buildFold cs a = .ok a' → a.anon ≤ a'.anon
  | [], a, a', h => by simp [buildFold] at h; subst h; exact Nat.le_refl _
  | c :: r, a, a', h => by
    simp only [buildFold] at h
    cases hs : buildStep a c with
    | error e => simp [hs] at h
    | ok a1 =>
      simp only [hs] at h
      exact Nat.le_trans (buildStep_anon_le hs) (buildFold_anon_le h)

theorem insertAt_map {α β} (f : α → β) (l : List α) (i : Nat) (x : α) :
    (insertAt l i x).map f = insertAt (l.map f) i (f x) := by
  simp [insertAt, List.map_take, List.map_drop]

theorem buildSuper_rn {ρ : String → String} {a0 k : Nat} (hr : Renum ρ a0 k) (anon : Nat) (ha : a0 ≤ anon)
    (cs : List CItem) (length : Option Nat) :
    buildSuper (anon + k) (cs.map (rnC ρ)) length = (buildSuper anon cs length).map (rnBuilt ρ k) := by
  have hf := buildFold_rn hr cs { anon := anon } ha
  have h0 : rnAcc ρ k { anon := anon } = { anon := anon + k } := rfl
  rw [h0] at hf
  simp only [buildSuper, hf, bind, Except.bind]
  cases hb : buildFold cs { anon := anon } with
  | error e => rfl
  | ok a =>
    have hle : anon ≤ a.anon := buildFold_anon_le hb
    simp only [Except.map]
    have hw : (rnAcc ρ k a).wild = a.wild := rfl
    rw [hw]
    cases hwild : a.wild with
    | none =>
      cases length with
      | none => simp [rnAcc, rnBuilt, pure, Except.pure]
      | some l =>
        simp only [rnAcc]
        by_cases hl : (a.len == l) = true <;> simp [hl, rnBuilt, pure, Except.pure, throw, throwThe, MonadExceptOf.throw]
    | some w =>
      obtain ⟨i, j, parts⟩ := w
      cases length with
      | none => rfl
      | some l =>
        simp only [rnAcc]
        by_cases hl : l < a.len
        · simp [hl, throw, throwThe, MonadExceptOf.throw]
        · simp only [hl, if_false]
          cases hres : resolve parts (some (l - a.len)) with
          | error e => rfl
          | ok r =>
            obtain ⟨wl, c⟩ := r
            simp only [mkAnon_rn hr (Nat.le_trans ha hle)]
            simp [rnBuilt, pure, Except.pure, insertAt_map, SeqE.ref, rnE, rnI, rnB, mkAnon]
            omega

theorem buildSuper_anon_le {anon : Nat} {cs : List CItem} {length : Option Nat} {b : Built}
    (h : buildSuper anon cs length = .ok b) : anon ≤ b.anon := by
  simp only [buildSuper, bind, Except.bind] at h
  cases hb : buildFold cs { anon := anon } with
  | error e => simp [hb] at h
  | ok a =>
    have hle : anon ≤ a.anon := buildFold_anon_le hb
    simp only [hb] at h
    split at h
    · split at h
      · split at h
        · injection h with h; subst h; exact hle
        · cases h
      · injection h with h; subst h; exact hle
    · split at h
      · cases h
      · split at h
        · cases h
        · split at h
          · cases h
          · injection h with h; subst h; exact Nat.le_succ_of_le hle

/-! ### registration, statements -/

theorem find?_new_rn {ρ : String → String} (h : Inj ρ) (new : List SeqE) (x : String) :
    (new.map (rnE ρ)).find? (·.name == ρ x) = (new.find? (·.name == x)).map (rnE ρ) := by
  simp only [List.find?_map]
  congr 1
  · congr 1
    funext e
    simp [h.beq]

theorem registerAnon_fold_rn {ρ : String → String} (h : Inj ρ) (new : List SeqE) :
    ∀ (its : List ItemRef) (s : St),
      (its.map (rnI ρ)).foldl (fun s i =>
        if (s.findSeq i.name).isSome then s
        else match (new.map (rnE ρ)).find? (·.name == i.name) with
          | some e => { s with seqs := s.seqs ++ [e] }
          | none => s) (rename ρ s)
      = rename ρ (its.foldl (fun s i =>
        if (s.findSeq i.name).isSome then s
        else match new.find? (·.name == i.name) with
          | some e => { s with seqs := s.seqs ++ [e] }
          | none => s) s)
  | [], s => rfl
  | i :: r, s => by
    simp only [List.map_cons, List.foldl_cons, rnI_name, findSeq_rename h, find?_new_rn h, Option.isSome_map]
    by_cases hs : (s.findSeq i.name).isSome = true
    · simp only [hs, if_true]
      exact registerAnon_fold_rn h new r s
    · simp only [hs]
      cases hn : new.find? (·.name == i.name) with
      | none => exact registerAnon_fold_rn h new r s
      | some e =>
        have := registerAnon_fold_rn h new r { s with seqs := s.seqs ++ [e] }
        simpa [rename] using this

theorem registerAnon_rn {ρ : String → String} (h : Inj ρ) (k : Nat) (s : St) (b : Built) :
    registerAnon (rename ρ s) (rnBuilt ρ k b) = rename ρ (registerAnon s b) :=
  registerAnon_fold_rn h b.newAnon b.items s

theorem markInStrand_rn {ρ : String → String} (h : Inj ρ) (s : St) (bs : List BaseRef) :
    markInStrand (rename ρ s) (bs.map (rnB ρ)) = rename ρ (markInStrand s bs) := by
  simp only [markInStrand, rename, List.map_map]
  congr 1
  apply List.map_congr_left
  intro e _
  have : (bs.map (rnB ρ)).any (fun x => x.name == (rnE ρ e).name) = bs.any (fun x => x.name == e.name) := by
    simp only [List.any_map]
    congr 1
    funext b
    simp [rnB, h.beq]
  simp only [Function.comp]
  rw [this]
  split <;> rfl

/-- the sequence names a statement defines or mentions -/
def stmtSeqNames : Stmt → List String
  | .seq name items _ => name :: refNames items
  | .strand _ _ items _ => refNames items
  | _ => []

/-- result of a step, renamed and with the counter shifted -/
def rnRes (ρ : String → String) (k : Nat) (r : St × Nat) : St × Nat := (rename ρ r.1, r.2 + k)

theorem addStmt_seq_rn {ρ : String → String} (h : Inj ρ) {a0 k : Nat} (hr : Renum ρ a0 k) (s : St) (a : Nat)
    (ha : a0 ≤ a) (name : String) (items : List SrcItem) (len : Option Nat)
    (hx : ∀ x ∈ stmtSeqNames (.seq name items len), ρ x = x) :
    addStmt (rename ρ s) (a + k) (.seq name items len) = (addStmt s a (.seq name items len)).map (rnRes ρ k) := by
  have hn : ρ name = name := hx name (by simp [stmtSeqNames])
  have hf := findSeq_rename h s name
  rw [hn] at hf
  have hc := cleanConst_rename h s items (fun x hm => hx x (by simp [stmtSeqNames, hm]))
  unfold addStmt
  simp only [hf, Option.isSome_map]
  by_cases hs : (s.findSeq name).isSome = true
  · simp [hs, Except.map]
  · simp only [hs, Bool.false_eq_true, if_false]
    split
    · rename_i text
      cases resolve (parseQuoted text) len with
      | error e => rfl
      | ok r =>
        obtain ⟨l, c⟩ := r
        simp [Except.map, rnRes, rename, rnE, rnB, hn]
    · rw [hc]
      refine bind_map_congr (m1 := List.map (rnC ρ)) rfl ?_
      intro cs
      refine bind_map_congr (m1 := rnBuilt ρ k) (buildSuper_rn hr a ha cs len) ?_
      intro b
      simp only [Except.map, pure, Except.pure, rnRes]
      congr 2
      rw [← registerAnon_rn h k]
      congr 1
      simp [rename, rnBuilt, rnE, hn]

theorem addStmt_strand_rn {ρ : String → String} (h : Inj ρ) {a0 k : Nat} (hr : Renum ρ a0 k) (s : St) (a : Nat)
    (ha : a0 ≤ a) (dummy : Bool) (name : String) (items : List SrcItem) (len : Option Nat)
    (hx : ∀ x ∈ stmtSeqNames (.strand dummy name items len), ρ x = x) :
    addStmt (rename ρ s) (a + k) (.strand dummy name items len) =
      (addStmt s a (.strand dummy name items len)).map (rnRes ρ k) := by
  have hc := cleanConst_rename h s items (fun x hm => hx x (by simp [stmtSeqNames, hm]))
  unfold addStmt
  simp only [findStrand_rename, Option.isSome_map]
  by_cases hs : (s.findStrand name).isSome = true
  · simp [hs, Except.map, throw, throwThe, MonadExceptOf.throw, bind, Except.bind]
  · simp only [hs, Bool.false_eq_true, if_false]
    rw [hc]
    refine bind_map_congr (m1 := List.map (rnC ρ)) rfl ?_
    intro cs
    refine bind_map_congr (m1 := rnBuilt ρ k) (buildSuper_rn hr a ha cs len) ?_
    intro b
    have hl : (rnBuilt ρ k b).len = b.len := rfl
    rw [hl]
    by_cases hz : (b.len == 0) = true
    · simp [hz, Except.map, throw, throwThe, MonadExceptOf.throw, bind, Except.bind]
    · simp only [hz, Bool.false_eq_true, if_false]
      simp only [Except.map, pure, Except.pure, rnRes]
      congr 2
      have hb : (rnBuilt ρ k b).bases = b.bases.map (rnB ρ) := rfl
      rw [hb, ← markInStrand_rn h, ← registerAnon_rn h k]
      congr 2
      simp [rename, rnBuilt, rnT]

set_option hygiene false in
local macro "struct_leaf" : tactic => `(tactic| (
  simp only [Except.map, pure, Except.pure, rnRes]
  congr 2
  simp [rename, rnS, rnT, List.map_map, Function.comp_def, List.flatMap_map, List.map_flatMap]
  intro t _
  by_cases hmem : t.name ∈ strands <;> simp [hmem]))

set_option hygiene false in
local macro "struct_tail" : tactic => `(tactic| (
  split
  · rfl
  · cases opt with
    | default => struct_leaf
    | noOpt => struct_leaf
    | value t =>
      dsimp only
      cases parseDec t with
      | none => rfl
      | some d => struct_leaf))

theorem addStmt_struct_rn (ρ : String → String) (k : Nat) (s : St) (a : Nat)
    (opt : OptSrc) (name : String) (strands : List String) (domain : Bool) (text : List Char) :
    addStmt (rename ρ s) (a + k) (.struct opt name strands domain text) =
      (addStmt s a (.struct opt name strands domain text)).map (rnRes ρ k) := by
  unfold addStmt
  simp only [findStruct_rename, Option.isSome_map]
  by_cases hs : (s.findStruct name).isSome = true
  · simp [hs, Except.map, throw, throwThe, MonadExceptOf.throw, bind, Except.bind]
  · simp only [hs, Bool.false_eq_true, if_false]
    refine bind_map_congr (m1 := List.map (rnT ρ)) ?_ ?_
    · refine mapM_except_congr _ _ _ ?_ _
      intro n
      simp only [findStrand_rename]
      cases s.findStrand n <;> rfl
    · intro objs
      have e1 : (objs.map (rnT ρ)).map (fun o => o.items.map (·.len)) = objs.map (fun o => o.items.map (·.len)) := by
        simp [List.map_map, Function.comp_def, rnT]
      have e2 : (objs.map (rnT ρ)).map (·.len) = objs.map (·.len) := by
        simp [List.map_map, Function.comp_def]
      rw [e1, e2]
      cases Notation.compileStruct text with
      | none => rfl
      | some dp =>
        simp only [pure_bind]
        cases domain with
        | false =>
          simp only [Bool.false_eq_true, if_false]
          struct_tail
        | true =>
          simp only [if_true]
          cases Notation.domainExpand dp (objs.map (fun o => o.items.map (·.len))) with
          | none => rfl
          | some full =>
            simp only [pure_bind]
            struct_tail

theorem addStmt_kinetic_rn (ρ : String → String) (k : Nat) (s : St) (a : Nat)
    (low high : Option String) (ins outs : List String) :
    addStmt (rename ρ s) (a + k) (.kinetic low high ins outs) =
      (addStmt s a (.kinetic low high ins outs)).map (rnRes ρ k) := by
  unfold addStmt
  simp only [findStruct_rename, Option.isSome_map]
  by_cases hs : ((ins ++ outs).all fun n => (s.findStruct n).isSome) = true
  · simp only [hs, Bool.not_true, Bool.false_eq_true, if_false]
    cases low with
    | none =>
      cases high with
      | none => simp [Except.map, pure, Except.pure, rnRes, rename, bind, Except.bind]
      | some t =>
        dsimp only
        cases parseDec t with
        | none => rfl
        | some d => simp [Except.map, pure, Except.pure, rnRes, rename, bind, Except.bind]
    | some t0 =>
      dsimp only
      cases parseDec t0 with
      | none => rfl
      | some d0 =>
        cases high with
        | none => simp [Except.map, pure, Except.pure, rnRes, rename, bind, Except.bind]
        | some t =>
          dsimp only
          cases parseDec t with
          | none => rfl
          | some d => simp [Except.map, pure, Except.pure, rnRes, rename, bind, Except.bind]
  · simp [hs, Except.map, throw, throwThe, MonadExceptOf.throw, bind, Except.bind]

theorem addStmt_rn {ρ : String → String} (h : Inj ρ) {a0 k : Nat} (hr : Renum ρ a0 k) (s : St) (a : Nat)
    (ha : a0 ≤ a) (st : Stmt) (hx : ∀ x ∈ stmtSeqNames st, ρ x = x) :
    addStmt (rename ρ s) (a + k) st = (addStmt s a st).map (rnRes ρ k) := by
  cases st with
  | seq name items len => exact addStmt_seq_rn h hr s a ha name items len hx
  | strand dummy name items len => exact addStmt_strand_rn h hr s a ha dummy name items len hx
  | struct opt name strands domain text => exact addStmt_struct_rn ρ k s a opt name strands domain text
  | kinetic low high ins outs => exact addStmt_kinetic_rn ρ k s a low high ins outs

theorem addStmt_anon_le {s s' : St} {a a' : Nat} : ∀ {st : Stmt}, addStmt s a st = .ok (s', a') → a ≤ a'
  | .seq name items len, h => by
    unfold addStmt at h
    by_cases hs : (s.findSeq name).isSome = true
    · simp [hs] at h
    · simp only [hs, Bool.false_eq_true, if_false] at h
      split at h
      · split at h
        · injection h with h; injection h with _ h; omega
        · cases h
      · cases hc : cleanConst s items with
        | error e => simp [hc, bind, Except.bind] at h
        | ok cs =>
          cases hb : buildSuper a cs len with
          | error e => simp [hc, hb, bind, Except.bind] at h
          | ok b =>
            simp only [hc, hb, bind, Except.bind, pure, Except.pure] at h
            injection h with h; injection h with _ h
            have := buildSuper_anon_le hb
            omega
  | .strand dummy name items len, h => by
    unfold addStmt at h
    by_cases hs : (s.findStrand name).isSome = true
    · simp [hs, throw, throwThe, MonadExceptOf.throw, bind, Except.bind] at h
    · simp only [hs, Bool.false_eq_true, if_false] at h
      cases hc : cleanConst s items with
      | error e => simp [hc, bind, Except.bind] at h
      | ok cs =>
        cases hb : buildSuper a cs len with
        | error e => simp [hc, hb, bind, Except.bind] at h
        | ok b =>
          simp only [hc, hb, bind, Except.bind, pure, Except.pure] at h
          split at h
          · simp [throw, throwThe, MonadExceptOf.throw] at h
          · simp only [Except.ok.injEq, Prod.mk.injEq] at h
            have := buildSuper_anon_le hb
            omega
  | .struct opt name strands domain text, h => by
    unfold addStmt at h
    simp only [bind, Except.bind, pure, Except.pure] at h
    repeat' split at h
    all_goals first
      | (cases h; done)
      | (simp only [Except.ok.injEq, Prod.mk.injEq] at h; omega)
      | (simp [throw, throwThe, MonadExceptOf.throw] at h; done)
  | .kinetic low high ins outs, h => by
    unfold addStmt at h
    simp only [bind, Except.bind, pure, Except.pure] at h
    repeat' split at h
    all_goals first
      | (cases h; done)
      | (simp only [Except.ok.injEq, Prod.mk.injEq] at h; omega)
      | (simp [throw, throwThe, MonadExceptOf.throw] at h; done)

theorem addStmts_rn {ρ : String → String} (h : Inj ρ) {a0 k : Nat} (hr : Renum ρ a0 k) :
    ∀ (stmts : List Stmt) (s : St) (a : Nat), a0 ≤ a → (∀ st ∈ stmts, ∀ x ∈ stmtSeqNames st, ρ x = x) →
      addStmts (rename ρ s) (a + k) stmts = (addStmts s a stmts).map (rnRes ρ k)
  | [], s, a, _, _ => rfl
  | st :: r, s, a, ha, hx => by
    simp only [addStmts, addStmt_rn h hr s a ha st (hx st List.mem_cons_self)]
    cases hs : addStmt s a st with
    | error e => rfl
    | ok res =>
      obtain ⟨s', a'⟩ := res
      simp only [Except.map, rnRes]
      exact addStmts_rn h hr r s' a' (Nat.le_trans ha (addStmt_anon_le hs))
        (fun st' hm => hx st' (List.mem_cons_of_mem _ hm))

theorem addIO_rn {ρ : String → String} (h : Inj ρ) (s : St) (inputs outputs : List Port)
    (hx : ∀ p ∈ inputs ++ outputs, ρ p.seq = p.seq) :
    addIO (rename ρ s) inputs outputs = (addIO s inputs outputs).map (rename ρ) := by
  unfold addIO
  dsimp only
  refine bind_map_congr (m1 := List.map (fun (x : ItemRef × Option String) => (rnI ρ x.1, x.2))) ?_ ?_
  · refine mapM_except_congr_mem _ _ _ _ ?_
    intro p hp
    have hf := findSeq_rename h s p.seq
    rw [hx p (List.mem_append_left _ hp)] at hf
    simp only [hf, findStruct_rename]
    cases s.findSeq p.seq with
    | none => rfl
    | some e =>
      cases p.struct with
      | none => rfl
      | some sn =>
        simp only [Option.map_some, Option.isNone_map]
        cases (s.findStruct sn).isNone <;> rfl
  · intro ins
    refine bind_map_congr (m1 := List.map (fun (x : ItemRef × Option String) => (rnI ρ x.1, x.2))) ?_ ?_
    · refine mapM_except_congr_mem _ _ _ _ ?_
      intro p hp
      have hf := findSeq_rename h s p.seq
      rw [hx p (List.mem_append_right _ hp)] at hf
      simp only [hf, findStruct_rename]
      cases s.findSeq p.seq with
      | none => rfl
      | some e =>
        cases p.struct with
        | none => rfl
        | some sn =>
          simp only [Option.map_some, Option.isNone_map]
          cases (s.findStruct sn).isNone <;> rfl
    · intro outs
      simp [Except.map, pure, Except.pure, rename, List.map_map, Function.comp_def]

/-- the sequence names a component source defines or mentions (statements and port declarations) -/
def srcSeqNames (src : Src) : List String :=
  src.stmts.flatMap stmtSeqNames ++ (src.inputs ++ src.outputs).map (·.seq)

/-- **Renaming theorem.**  For every injective renaming `ρ` of local sequence names that fixes the names the
    source mentions and renumbers the generated names from `a` on by `k`: loading at counter `a + k` fails
    exactly when loading at `a` fails (with the same error) and otherwise yields the renamed tables and the
    counter shifted by `k`. -/
theorem load_rename {ρ : String → String} (h : Inj ρ) {a k : Nat} (hr : Renum ρ a k) (src : Src) (n : Nat)
    (pfx : String) (hx : ∀ x ∈ srcSeqNames src, ρ x = x) :
    load src n pfx (a + k) = (load src n pfx a).map (rnRes ρ k) := by
  unfold load
  by_cases hn : (src.params.length != n) = true
  · simp [hn, throw, throwThe, MonadExceptOf.throw, bind, Except.bind, Except.map]
  · simp only [hn, Bool.false_eq_true, if_false]
    have h0 : ({ name := src.name, pfx := pfx, params := src.params } : St) =
        rename ρ { name := src.name, pfx := pfx, params := src.params } := rfl
    rw [h0]
    refine bind_map_congr (m1 := rnRes ρ k)
      (addStmts_rn h hr src.stmts _ a (Nat.le_refl _) (fun st hst x hxm => hx x ?_)) ?_
    · simp only [srcSeqNames, List.mem_append, List.mem_flatMap]
      exact Or.inl ⟨st, hst, hxm⟩
    · intro res
      obtain ⟨s, a'⟩ := res
      simp only [rnRes]
      refine bind_map_congr (m1 := rename ρ) (addIO_rn h s src.inputs src.outputs (fun p hp => hx _ ?_)) ?_
      · simp only [srcSeqNames, List.mem_append, List.mem_map]
        exact Or.inr ⟨p, List.mem_append.1 hp, rfl⟩
      · intro s2
        rfl

/-! ### the concrete renumbering -/

/-- no sequence name the source defines or mentions has the reserved form `_Anon<decimal>` -/
def userNamesOk (src : Src) : Bool := (srcSeqNames src).all (fun x => !isAnon x)

/-- `userNamesOk` as a (decidable) proposition -/
def UserNamesOk (src : Src) : Prop := userNamesOk src = true

instance (src : Src) : Decidable (UserNamesOk src) := inferInstanceAs (Decidable (_ = true))

theorem userNamesOk_iff {src : Src} : UserNamesOk src ↔ ∀ x ∈ srcSeqNames src, ∀ n, x ≠ anonName n := by
  unfold UserNamesOk userNamesOk
  simp only [List.all_eq_true, Bool.not_eq_true']
  constructor
  · intro h x hx n
    exact not_isAnon_ne (h x hx) n
  · intro h x hx
    cases hi : isAnon x with
    | false => rfl
    | true =>
      obtain ⟨n, hn⟩ := isAnon_iff.1 hi
      exact absurd hn (h x hx n)

theorem shift_inj (a k : Nat) : Inj (shift a k) := fun _ _ h => shift_injective a k h

theorem shift_renum (a k : Nat) : Renum (shift a k) a k := fun _ hn => shift_anonName hn

theorem shift_fixes {src : Src} (hu : UserNamesOk src) (a k : Nat) : ∀ x ∈ srcSeqNames src, shift a k x = x := by
  intro x hx
  unfold UserNamesOk userNamesOk at hu
  simp only [List.all_eq_true, Bool.not_eq_true'] at hu
  exact shift_user (hu x hx)

/-! ### the emitted specification of a renamed state -/

/-- `Emit.compStmts` with every local sequence name `x` written as `ρ x` -/
def compStmtsWith (ρ : String → String) (s : St) : List Pil.Stmt :=
  let p := s.pfx
  ((s.baseSeqs.filter (·.len != 0)).map (fun e => Pil.Stmt.seq (p ++ ρ e.name) e.const))
  ++ ((s.supSeqs.filter (·.len != 0)).map (fun e =>
        Pil.Stmt.sup (p ++ ρ e.name) ((e.items.filter (!·.dummy)).map (fun i => fullName p (ρ i.name) i.rev))))
  ++ (s.strands.map (fun e => Pil.Stmt.strand (p ++ e.name) e.dummy
        ((e.items.filter (!·.dummy)).map (fun i => fullName p (ρ i.name) i.rev))))
  ++ (s.structs.map (fun e => Pil.Stmt.struct (p ++ e.name) (some (String.ofList e.opt.fmtG ++ "nt"))
        (e.strands.map (p ++ ·)) e.struct))

/-- `Comp.emitPil` with every local sequence name `x` written as `ρ x` -/
def emitPilWith (ρ : String → String) (s : St) : List String :=
  let p := s.pfx
  let names := fun (its : List ItemRef) =>
    joinWith " " ((its.filter (!·.dummy)).map (fun i => fullName p (ρ i.name) i.rev))
  ((s.baseSeqs.filter (·.len != 0)).map (fun e =>
      "sequence " ++ p ++ ρ e.name ++ " = " ++ String.ofList e.const ++ " : " ++ toString e.len))
  ++ ((s.supSeqs.filter (·.len != 0)).map (fun e =>
      "sup-sequence " ++ p ++ ρ e.name ++ " = " ++ names e.items ++ " : " ++ toString e.len))
  ++ (s.strands.map (fun e =>
      "strand " ++ (if e.dummy then "[dummy] " else "") ++ p ++ e.name ++ " = " ++ names e.items ++ " : " ++ toString e.len))
  ++ (s.structs.map (fun e =>
      "structure [" ++ String.ofList e.opt.fmtG ++ "nt] " ++ p ++ e.name ++ " = " ++
        joinWith " + " (e.strands.map (p ++ ·)) ++ " : " ++ String.ofList e.struct))
  ++ (s.kins.map (fun k =>
      "kinetic [" ++ (match k.low with | some d => String.ofList d.fmtF | none => "0.000000") ++ " /M/s < k < " ++
        (match k.high with | some d => String.ofList d.fmtF | none => "inf") ++ " /M/s] " ++
        joinWith " + " (k.ins.map (p ++ ·)) ++ " -> " ++ joinWith " + " (k.outs.map (p ++ ·))))

/-- `Comp.emitDes` with every local sequence name `x` written as `ρ x` -/
def emitDesWith (ρ : String → String) (s : St) : List String :=
  let p := s.pfx
  (s.structs.map (fun e => "structure " ++ p ++ e.name ++ " = " ++ String.ofList e.struct))
  ++ ((s.baseSeqs.filter (·.len != 0)).map (fun e => "sequence " ++ p ++ ρ e.name ++ " = " ++ String.ofList e.const))
  ++ (s.structs.flatMap (fun e =>
      [p ++ e.name ++ " : " ++ joinWith " " ((e.bases.filter (·.len != 0)).map (fun b => fullName p (ρ b.name) b.rev))]
      ++ (if e.opt.isZero then [] else [p ++ e.name ++ " < " ++ String.ofList e.opt.fmtF])))

theorem compStmtsWith_id (s : St) : compStmtsWith id s = Emit.compStmts s := rfl
theorem emitPilWith_id (s : St) : emitPilWith id s = emitPil s := by
  unfold emitPilWith emitPil
  congr 5
theorem emitDesWith_id (s : St) : emitDesWith id s = emitDes s := rfl

theorem filter_items_rn (ρ : String → String) (its : List ItemRef) :
    (its.map (rnI ρ)).filter (!·.dummy) = (its.filter (!·.dummy)).map (rnI ρ) := by
  rw [List.filter_map]; rfl

theorem baseSeqs_rename (ρ : String → String) (s : St) :
    (rename ρ s).baseSeqs.filter (·.len != 0) = (s.baseSeqs.filter (·.len != 0)).map (rnE ρ) := by
  simp only [St.baseSeqs, rename, List.filter_map]; rfl

theorem supSeqs_rename (ρ : String → String) (s : St) :
    (rename ρ s).supSeqs.filter (·.len != 0) = (s.supSeqs.filter (·.len != 0)).map (rnE ρ) := by
  simp only [St.supSeqs, rename, List.filter_map]; rfl

theorem compStmts_rename (ρ : String → String) (s : St) :
    Emit.compStmts (rename ρ s) = compStmtsWith ρ s := by
  unfold Emit.compStmts compStmtsWith
  simp only [baseSeqs_rename, supSeqs_rename, List.map_map]
  simp [rename, Function.comp_def, rnE, rnT, rnS, filter_items_rn, List.map_map, Emit.itemRaw]

theorem emitPil_rename (ρ : String → String) (s : St) : emitPil (rename ρ s) = emitPilWith ρ s := by
  unfold emitPil emitPilWith
  simp only [baseSeqs_rename, supSeqs_rename, List.map_map]
  simp [rename, Function.comp_def, rnE, rnT, rnS, filter_items_rn, List.map_map, Comp.itemNames]
  congr 3

theorem emitDes_rename (ρ : String → String) (s : St) : emitDes (rename ρ s) = emitDesWith ρ s := by
  unfold emitDes emitDesWith
  simp only [baseSeqs_rename, List.map_map]
  simp [rename, Function.comp_def, rnE, rnS, rnB, List.map_map, List.filter_map, List.flatMap_map]
  rfl

/-! ### uniqueness of names -/

/-- the three name tables of a component are duplicate-free -/
structure NamesNodup (s : St) : Prop where
  seqs : (s.seqs.map (·.name)).Nodup
  strands : (s.strands.map (·.name)).Nodup
  structs : (s.structs.map (·.name)).Nodup

theorem findSeq_none_iff {s : St} {n : String} : (s.findSeq n).isSome = false ↔ n ∉ s.seqs.map (·.name) := by
  unfold St.findSeq
  rw [← Bool.not_eq_true, List.find?_isSome]
  simp only [List.mem_map, beq_iff_eq]

theorem findStrand_none_iff {s : St} {n : String} : (s.findStrand n).isSome = false ↔ n ∉ s.strands.map (·.name) := by
  unfold St.findStrand
  rw [← Bool.not_eq_true, List.find?_isSome]
  simp only [List.mem_map, beq_iff_eq]

theorem findStruct_none_iff {s : St} {n : String} : (s.findStruct n).isSome = false ↔ n ∉ s.structs.map (·.name) := by
  unfold St.findStruct
  rw [← Bool.not_eq_true, List.find?_isSome]
  simp only [List.mem_map, beq_iff_eq]

theorem nodup_append_singleton {l : List String} {x : String} (h : l.Nodup) (hx : x ∉ l) : (l ++ [x]).Nodup := by
  rw [List.nodup_append]
  refine ⟨h, by simp, ?_⟩
  intro a ha b hb
  simp only [List.mem_singleton] at hb
  subst hb
  rintro rfl
  exact hx ha

theorem registerAnon_fold_inv (new : List SeqE) :
    ∀ (its : List ItemRef) (s : St), (s.seqs.map (·.name)).Nodup →
      let s' := its.foldl (fun s i =>
        if (s.findSeq i.name).isSome then s
        else match new.find? (·.name == i.name) with
          | some e => { s with seqs := s.seqs ++ [e] }
          | none => s) s
      (s'.seqs.map (·.name)).Nodup ∧ s'.strands = s.strands ∧ s'.structs = s.structs
  | [], s, h => ⟨h, rfl, rfl⟩
  | i :: r, s, h => by
    simp only [List.foldl_cons]
    by_cases hs : (s.findSeq i.name).isSome = true
    · simp only [hs, if_true]
      exact registerAnon_fold_inv new r s h
    · simp only [hs, Bool.false_eq_true, if_false]
      cases hn : new.find? (·.name == i.name) with
      | none => exact registerAnon_fold_inv new r s h
      | some e =>
        have he : e.name = i.name := by simpa using List.find?_some hn
        have hs' : (s.findSeq i.name).isSome = false := by simpa using hs
        have hnot := findSeq_none_iff.1 hs'
        have := registerAnon_fold_inv new r { s with seqs := s.seqs ++ [e] }
          (by simp only [List.map_append, List.map_cons, List.map_nil]
              exact nodup_append_singleton h (he ▸ hnot))
        exact this

theorem registerAnon_inv (s : St) (b : Built) (h : (s.seqs.map (·.name)).Nodup) :
    ((registerAnon s b).seqs.map (·.name)).Nodup ∧ (registerAnon s b).strands = s.strands ∧
      (registerAnon s b).structs = s.structs :=
  registerAnon_fold_inv b.newAnon b.items s h

theorem markInStrand_names (s : St) (bs : List BaseRef) :
    (markInStrand s bs).seqs.map (·.name) = s.seqs.map (·.name) := by
  simp only [markInStrand, List.map_map]
  apply List.map_congr_left
  intro e _
  simp only [Function.comp]
  split <;> rfl

theorem addStmt_namesNodup {s s' : St} {a a' : Nat} (hn : NamesNodup s) :
    ∀ {st : Stmt}, addStmt s a st = .ok (s', a') → NamesNodup s'
  | .seq name items len, h => by
    unfold addStmt at h
    by_cases hs : (s.findSeq name).isSome = true
    · simp [hs] at h
    · have hnot := findSeq_none_iff.1 (by simpa using hs)
      simp only [hs, Bool.false_eq_true, if_false] at h
      split at h
      · split at h
        · injection h with h; injection h with h _; subst h
          exact ⟨by simpa using nodup_append_singleton hn.seqs hnot, hn.strands, hn.structs⟩
        · cases h
      · cases hc : cleanConst s items with
        | error e => simp [hc, bind, Except.bind] at h
        | ok cs =>
          cases hb : buildSuper a cs len with
          | error e => simp [hc, hb, bind, Except.bind] at h
          | ok b =>
            simp only [hc, hb, bind, Except.bind, pure, Except.pure] at h
            injection h with h; injection h with h _; subst h
            have := registerAnon_inv
              { s with seqs := s.seqs ++ [⟨name, true, false, b.len, [], b.items, b.bases, false⟩] } b
              (by simpa using nodup_append_singleton hn.seqs hnot)
            refine ⟨this.1, ?_, ?_⟩
            · rw [this.2.1]; exact hn.strands
            · rw [this.2.2]; exact hn.structs
  | .strand dummy name items len, h => by
    unfold addStmt at h
    by_cases hs : (s.findStrand name).isSome = true
    · simp [hs, throw, throwThe, MonadExceptOf.throw, bind, Except.bind] at h
    · have hnot := findStrand_none_iff.1 (by simpa using hs)
      simp only [hs, Bool.false_eq_true, if_false] at h
      cases hc : cleanConst s items with
      | error e => simp [hc, bind, Except.bind] at h
      | ok cs =>
        cases hb : buildSuper a cs len with
        | error e => simp [hc, hb, bind, Except.bind] at h
        | ok b =>
          simp only [hc, hb, bind, Except.bind, pure, Except.pure] at h
          split at h
          · simp [throw, throwThe, MonadExceptOf.throw] at h
          · simp only [Except.ok.injEq, Prod.mk.injEq] at h
            obtain ⟨h, _⟩ := h
            subst h
            have := registerAnon_inv
              { s with strands := s.strands ++ [⟨name, dummy, b.len, b.items, b.bases, false⟩] } b hn.seqs
            refine ⟨by rw [markInStrand_names]; exact this.1, ?_, ?_⟩
            · show ((registerAnon _ b).strands.map (·.name)).Nodup
              rw [this.2.1]
              simpa using nodup_append_singleton hn.strands hnot
            · show ((registerAnon _ b).structs.map (·.name)).Nodup
              rw [this.2.2]
              exact hn.structs
  | .struct opt name strands domain text, h => by
    unfold addStmt at h
    by_cases hs : (s.findStruct name).isSome = true
    · simp [hs, throw, throwThe, MonadExceptOf.throw, bind, Except.bind] at h
    · have hnot := findStruct_none_iff.1 (by simpa using hs)
      have hstr : ∀ (l : List StrandE),
          (l.map (fun (o : StrandE) => if strands.contains o.name then { o with inStructure := true } else o)).map (·.name)
            = l.map (·.name) := by
        intro l
        simp only [List.map_map]
        apply List.map_congr_left
        intro o _
        simp only [Function.comp]
        split <;> rfl
      simp only [hs, Bool.false_eq_true, if_false, bind, Except.bind, pure, Except.pure] at h
      repeat' split at h
      all_goals first
        | (cases h; done)
        | (simp [throw, throwThe, MonadExceptOf.throw] at h; done)
        | (simp only [Except.ok.injEq, Prod.mk.injEq] at h
           obtain ⟨h, _⟩ := h
           subst h
           exact ⟨hn.seqs, by rw [hstr]; exact hn.strands,
             by simpa using nodup_append_singleton hn.structs hnot⟩)
  | .kinetic low high ins outs, h => by
    unfold addStmt at h
    simp only [bind, Except.bind, pure, Except.pure] at h
    repeat' split at h
    all_goals first
      | (cases h; done)
      | (simp [throw, throwThe, MonadExceptOf.throw] at h; done)
      | (simp only [Except.ok.injEq, Prod.mk.injEq] at h
         obtain ⟨h, _⟩ := h
         subst h
         exact ⟨hn.seqs, hn.strands, hn.structs⟩)

theorem addStmts_namesNodup {s' : St} {a' : Nat} :
    ∀ (stmts : List Stmt) (s : St) (a : Nat), NamesNodup s → addStmts s a stmts = .ok (s', a') → NamesNodup s'
  | [], s, a, hn, h => by
    simp only [addStmts, Except.ok.injEq, Prod.mk.injEq] at h
    obtain ⟨h, _⟩ := h
    subst h
    exact hn
  | st :: r, s, a, hn, h => by
    simp only [addStmts] at h
    cases hs : addStmt s a st with
    | error e => simp [hs] at h
    | ok res =>
      obtain ⟨s1, a1⟩ := res
      simp only [hs] at h
      exact addStmts_namesNodup r s1 a1 (addStmt_namesNodup hn hs) h

theorem addIO_tables {s s' : St} {ins outs : List Port} (h : addIO s ins outs = .ok s') :
    s'.seqs = s.seqs ∧ s'.strands = s.strands ∧ s'.structs = s.structs ∧ s'.pfx = s.pfx := by
  unfold addIO at h
  simp only [bind, Except.bind, pure, Except.pure] at h
  split at h
  · cases h
  · split at h
    · cases h
    · injection h with h
      subst h
      exact ⟨rfl, rfl, rfl, rfl⟩

/-- after a successful load the three name tables of the component are duplicate-free -/
theorem load_namesNodup {src : Src} {n : Nat} {pfx : String} {a : Nat} {st : St} {a' : Nat}
    (h : load src n pfx a = .ok (st, a')) : NamesNodup st := by
  unfold load at h
  by_cases hn : (src.params.length != n) = true
  · simp [hn, throw, throwThe, MonadExceptOf.throw, bind, Except.bind] at h
  · simp only [hn, Bool.false_eq_true, if_false, bind, Except.bind, pure, Except.pure] at h
    cases hs : addStmts { name := src.name, pfx := pfx, params := src.params } a src.stmts with
    | error e => simp [hs] at h
    | ok res =>
      obtain ⟨s1, a1⟩ := res
      simp only [hs] at h
      cases hio : addIO s1 src.inputs src.outputs with
      | error e => simp [hio] at h
      | ok s2 =>
        simp only [hio, Except.ok.injEq, Prod.mk.injEq] at h
        obtain ⟨h, _⟩ := h
        subst h
        have hn1 := addStmts_namesNodup src.stmts _ a ⟨by simp, by simp, by simp⟩ hs
        obtain ⟨e1, e2, e3, _⟩ := addIO_tables hio
        exact ⟨e1 ▸ hn1.seqs, e2 ▸ hn1.strands, e3 ▸ hn1.structs⟩

/-! ### names declared by the emitted statements -/

/-- names declared in the sequence name space (`sequence` and `sup-sequence` statements), in order -/
def seqNameOf : Pil.Stmt → Option String
  | .seq n _ => some n
  | .sup n _ => some n
  | _ => none
def strandNameOf : Pil.Stmt → Option String
  | .strand n _ _ => some n
  | _ => none
def structNameOf : Pil.Stmt → Option String
  | .struct n _ _ _ => some n
  | _ => none
def seqDeclNames (l : List Pil.Stmt) : List String := l.filterMap seqNameOf
def strandDeclNames (l : List Pil.Stmt) : List String := l.filterMap strandNameOf
def structDeclNames (l : List Pil.Stmt) : List String := l.filterMap structNameOf

theorem eq_of_nodup_map {α β} {f : α → β} : ∀ {l : List α}, (l.map f).Nodup →
    ∀ {x y : α}, x ∈ l → y ∈ l → f x = f y → x = y
  | [], _, _, _, hx, _, _ => nomatch hx
  | z :: r, h, x, y, hx, hy, hxy => by
    simp only [List.map_cons, List.nodup_cons, List.mem_map, not_exists, not_and] at h
    rcases List.mem_cons.1 hx with hxz | hxr <;> rcases List.mem_cons.1 hy with hyz | hyr
    · rw [hxz, hyz]
    · subst hxz; exact absurd hxy.symm (h.1 y hyr)
    · subst hyz; exact absurd hxy (h.1 x hxr)
    · exact eq_of_nodup_map h.2 hxr hyr hxy

theorem nodup_map_inj {α β} {f : α → β} (hf : ∀ a b, f a = f b → a = b) {l : List α} (h : l.Nodup) :
    (l.map f).Nodup :=
  List.Pairwise.map f (fun a b hab c => hab (hf a b c)) h

theorem nodup_filter_append {α β} {f : α → β} {l : List α} (h : (l.map f).Nodup) (q1 q2 : α → Bool)
    (hd : ∀ x, q1 x = true → q2 x = true → False) : ((l.filter q1 ++ l.filter q2).map f).Nodup := by
  rw [List.map_append, List.nodup_append]
  refine ⟨List.Sublist.nodup (List.Sublist.map f List.filter_sublist) h,
          List.Sublist.nodup (List.Sublist.map f List.filter_sublist) h, ?_⟩
  intro a ha b hb hab
  obtain ⟨x, hx, rfl⟩ := List.mem_map.1 ha
  obtain ⟨y, hy, rfl⟩ := List.mem_map.1 hb
  obtain ⟨hx1, hx2⟩ := List.mem_filter.1 hx
  obtain ⟨hy1, hy2⟩ := List.mem_filter.1 hy
  have := eq_of_nodup_map h hx1 hy1 hab
  subst this
  exact hd x hx2 hy2

theorem filterMap_none' {α β} (l : List α) : l.filterMap (fun _ => (none : Option β)) = [] := by
  induction l <;> simp_all

theorem seqDeclNames_compStmts (s : St) :
    seqDeclNames (Emit.compStmts s) =
      (s.seqs.filter (fun e => e.len != 0 && !e.isSup) ++ s.seqs.filter (fun e => e.len != 0 && e.isSup)).map
        (fun e => s.pfx ++ e.name) := by
  simp [seqDeclNames, seqNameOf, Emit.compStmts, List.filterMap_append, List.filterMap_map, Function.comp_def,
    St.baseSeqs, St.supSeqs, List.filter_filter]

theorem strandDeclNames_compStmts (s : St) :
    strandDeclNames (Emit.compStmts s) = s.strands.map (fun e => s.pfx ++ e.name) := by
  simp [strandDeclNames, strandNameOf, Emit.compStmts, List.filterMap_append, List.filterMap_map, Function.comp_def, filterMap_none']

theorem structDeclNames_compStmts (s : St) :
    structDeclNames (Emit.compStmts s) = s.structs.map (fun e => s.pfx ++ e.name) := by
  simp [structDeclNames, structNameOf, Emit.compStmts, List.filterMap_append, List.filterMap_map, Function.comp_def, filterMap_none']

theorem nodup_prefixed {α} (p : String) (f : α → String) {l : List α} (h : (l.map f).Nodup) :
    (l.map (fun e => p ++ f e)).Nodup := by
  have := nodup_map_inj (f := fun x => p ++ x) (fun a b hab => (String.append_right_inj p).1 hab) h
  simpa [List.map_map, Function.comp_def] using this

theorem compStmts_names_nodup {s : St} (h : NamesNodup s) :
    (seqDeclNames (Emit.compStmts s)).Nodup ∧ (strandDeclNames (Emit.compStmts s)).Nodup ∧
      (structDeclNames (Emit.compStmts s)).Nodup := by
  rw [seqDeclNames_compStmts, strandDeclNames_compStmts, structDeclNames_compStmts]
  refine ⟨?_, nodup_prefixed s.pfx (fun (e : StrandE) => e.name) h.strands,
    nodup_prefixed s.pfx (fun (e : StructE) => e.name) h.structs⟩
  apply nodup_filter_append (nodup_prefixed s.pfx (fun (e : SeqE) => e.name) h.seqs)
  intro x h1 h2
  simp only [Bool.and_eq_true, Bool.not_eq_true'] at h1 h2
  rw [h1.2] at h2
  exact absurd h2.2 (by simp)

/-! ### dependence on the file system -/
section paths
open Pepper.Sys

/-- the import search consults the file system only at `<d>/<base>.sys` and `<d>/<base>.comp` for the
    directories `d` of the search list -/
theorem resolveImport_go_congr (probe probe' : String → Bool) (base : String) :
    ∀ (dirs : List String),
      (∀ d ∈ dirs, probe (pathJoin d base ++ ".sys") = probe' (pathJoin d base ++ ".sys") ∧
                   probe (pathJoin d base ++ ".comp") = probe' (pathJoin d base ++ ".comp")) →
      resolveImport.go probe base dirs = resolveImport.go probe' base dirs
  | [], _ => by simp [resolveImport.go]
  | d :: r, h => by
    have hd := h d List.mem_cons_self
    have ih := resolveImport_go_congr probe probe' base r (fun x hx => h x (List.mem_cons_of_mem _ hx))
    simp only [resolveImport.go, hd.1, hd.2, ih]

theorem resolveImport_congr (probe probe' : String → Bool) (base dir : String) (includes : List String)
    (h : ∀ d ∈ dir :: includes, probe (pathJoin d base ++ ".sys") = probe' (pathJoin d base ++ ".sys") ∧
                   probe (pathJoin d base ++ ".comp") = probe' (pathJoin d base ++ ".comp")) :
    resolveImport probe base dir includes = resolveImport probe' base dir includes :=
  resolveImport_go_congr probe probe' base (dir :: includes) h

theorem loadStmts_congr_of (b1 b2 : Bundle) (fuel : Nat) (includes : List String)
    (hLF : ∀ base args key pfx path a, loadFile b1 fuel base args key pfx path includes a =
                                       loadFile b2 fuel base args key pfx path includes a) :
    ∀ (stmts : List SStmt) (st : SysSt) (a : Nat),
      loadStmts b1 fuel includes stmts st a = loadStmts b2 fuel includes stmts st a
  | [], st, a => by rw [loadStmts, loadStmts]
  | .imports items :: r, st, a => by
    rw [loadStmts, loadStmts]
    simp only [loadStmts_congr_of b1 b2 fuel includes hLF r]
  | .component cname templ args ins outs :: r, st, a => by
    rw [loadStmts, loadStmts]
    simp only [hLF, loadStmts_congr_of b1 b2 fuel includes hLF r]

theorem loadFile_congr (b1 b2 : Bundle) (hf : b1.files = b2.files)
    (he : ∀ p, b1.exists_.contains (normPath p) = b2.exists_.contains (normPath p)) :
    ∀ (fuel : Nat) (includes : List String) (base : String) (args : Nat) (key pfx path : String) (a : Nat),
      loadFile b1 fuel base args key pfx path includes a = loadFile b2 fuel base args key pfx path includes a
  | 0, includes, base, args, key, pfx, path, a => by rw [loadFile, loadFile]
  | fuel + 1, includes, base, args, key, pfx, path, a => by
    have hp : (fun p => b1.exists_.contains (normPath p)) = (fun p => b2.exists_.contains (normPath p)) :=
      funext he
    have ih := loadStmts_congr_of b1 b2 fuel includes
      (fun base args key pfx path a => loadFile_congr b1 b2 hf he fuel includes base args key pfx path a)
    rw [loadFile, loadFile]
    simp only [hp, hf, ih]

end paths

/-! ### instance prefixes -/

theorem append_sep_inj {α} (c : α) : ∀ {l1 l2 r1 r2 : List α}, c ∉ l1 → c ∉ l2 →
    l1 ++ c :: r1 = l2 ++ c :: r2 → l1 = l2 ∧ r1 = r2
  | [], [], _, _, _, _, h => by simp at h; exact ⟨rfl, h⟩
  | [], y :: l2, _, _, _, h2, h => by
    simp only [List.nil_append, List.cons_append, List.cons.injEq] at h
    exact absurd (h.1 ▸ List.mem_cons_self) h2
  | x :: l1, [], _, _, h1, _, h => by
    simp only [List.nil_append, List.cons_append, List.cons.injEq] at h
    exact absurd (h.1 ▸ List.mem_cons_self) h1
  | x :: l1, y :: l2, r1, r2, h1, h2, h => by
    simp only [List.cons_append, List.cons.injEq] at h
    have := append_sep_inj c (fun m => h1 (List.mem_cons_of_mem _ m)) (fun m => h2 (List.mem_cons_of_mem _ m)) h.2
    exact ⟨by rw [h.1, this.1], this.2⟩

/-- two full names under the instance prefixes `pfx ++ c1 ++ "-"` and `pfx ++ c2 ++ "-"` are equal only if the
    instance names are (instance names do not contain `-`), and then the local names are equal too -/
theorem prefix_disjoint (pfx c1 c2 x y : String) (h1 : '-' ∉ c1.toList) (h2 : '-' ∉ c2.toList)
    (h : pfx ++ c1 ++ "-" ++ x = pfx ++ c2 ++ "-" ++ y) : c1 = c2 ∧ x = y := by
  have h' : pfx ++ (c1 ++ "-" ++ x) = pfx ++ (c2 ++ "-" ++ y) := by
    simpa [String.append_assoc] using h
  have h'' := (String.append_right_inj pfx).1 h'
  have hl := congrArg String.toList h''
  simp only [String.toList_append] at hl
  have hd : "-".toList = ['-'] := rfl
  rw [hd, List.append_assoc, List.append_assoc] at hl
  have := append_sep_inj '-' h1 h2 hl
  exact ⟨String.toList_inj.1 this.1, String.toList_inj.1 this.2⟩

/-! ### systems: the whole instance tree under a renumbering -/
section systems
open Pepper.Sys

def rnPort (ρ : String → String) : Sys.Port → Sys.Port
  | .seq i bs => .seq (rnI ρ i) (bs.map (rnB ρ))
  | .sig n => .sig n

def rnSig (ρ : String → String) (e : SigEntry) : SigEntry := { e with port := rnPort ρ e.port }

def rnSigs (ρ : String → String) (sg : List (String × List SigEntry)) : List (String × List SigEntry) :=
  sg.map (fun x => (x.1, x.2.map (rnSig ρ)))

mutual
/-- rename the local sequence names everywhere in an instance tree -/
def renameInst (ρ : String → String) : Inst → Inst
  | .comp st => .comp (rename ρ st)
  | .sys st => .sys (renameSys ρ st)
def renameSys (ρ : String → String) : SysSt → SysSt
  | .mk p n pf t sg l c i o => .mk p n pf t (rnSigs ρ sg) l (renameComps ρ c) i o
def renameComps (ρ : String → String) : List (String × Inst) → List (String × Inst)
  | [] => []
  | (n, i) :: r => (n, renameInst ρ i) :: renameComps ρ r
end

theorem renameComps_append (ρ : String → String) (a b : List (String × Inst)) :
    renameComps ρ (a ++ b) = renameComps ρ a ++ renameComps ρ b := by
  induction a with
  | nil => rfl
  | cons h t ih =>
    obtain ⟨n, i⟩ := h
    simp [renameComps, ih]

theorem lookup_renameComps (ρ : String → String) (c : List (String × Inst)) (n : String) :
    (renameComps ρ c).lookup n = (c.lookup n).map (renameInst ρ) := by
  induction c with
  | nil => rfl
  | cons h t ih =>
    obtain ⟨m, i⟩ := h
    simp only [renameComps, List.lookup]
    cases n == m
    · exact ih
    · rfl

theorem lookup_rnSigs (ρ : String → String) (sg : List (String × List SigEntry)) (n : String) :
    (rnSigs ρ sg).lookup n = (sg.lookup n).map (List.map (rnSig ρ)) := by
  induction sg with
  | nil => rfl
  | cons h t ih =>
    obtain ⟨m, es⟩ := h
    simp only [rnSigs, List.map_cons, List.lookup]
    cases n == m
    · exact ih
    · rfl

theorem addSig_rn (ρ : String → String) (sg : List (String × List SigEntry)) (n : String) (e : SigEntry) :
    addSig (rnSigs ρ sg) n (rnSig ρ e) = rnSigs ρ (addSig sg n e) := by
  unfold addSig
  rw [lookup_rnSigs, Option.isSome_map]
  split
  · simp only [rnSigs, List.map_map]
    apply List.map_congr_left
    intro x _
    simp only [Function.comp]
    split <;> simp
  · simp [rnSigs]

/-- loop body of the binding loop of `add_component` (same text as in the model, named) -/
def bindStep (cname : String) (acc : List (String × List SigEntry) × List (String × Nat))
    (gp : SigRef × (Sys.Port × Bool × Nat × Bool)) : Except Sys.Err (List (String × List SigEntry) × List (String × Nat)) :=
  match acc.2.lookup gp.1.name with
  | none => if gp.2.2.2.2 then .error .dummySignal
            else .ok (addSig acc.1 gp.1.name ⟨gp.2.1, cname, gp.1.star != gp.2.2.1⟩, acc.2 ++ [(gp.1.name, gp.2.2.2.1)])
  | some l0 => if l0 != gp.2.2.2.1 then .error .signalLength
               else .ok (addSig acc.1 gp.1.name ⟨gp.2.1, cname, gp.1.star != gp.2.2.1⟩, acc.2)

def bindSigs (cname : String) (sigs : List (String × List SigEntry)) (lens : List (String × Nat))
    (globs : List SigRef) (ports : List (Sys.Port × Bool × Nat × Bool)) :
    Except Sys.Err (List (String × List SigEntry) × List (String × Nat)) :=
  (List.zip globs ports).foldlM (bindStep cname) (sigs, lens)

def compPorts (cst : Comp.St) : List (Sys.Port × Bool × Nat × Bool) :=
  (cst.inputSeqs ++ cst.outputSeqs).map (fun (i : ItemRef) =>
    let fwdRef : ItemRef := { i with rev := false }
    let bases := match cst.findSeq i.name with | some e => e.bases | none => []
    (Sys.Port.seq fwdRef bases, i.rev, i.len, i.len == 0))

def sysPorts (sst : SysSt) : List (Sys.Port × Bool × Nat × Bool) :=
  (sst.inputSeqs ++ sst.outputSeqs).map (fun (r : SigRef) =>
    (Sys.Port.sig r.name, r.star, (sst.lengths.lookup r.name).getD 0, false))

def instPorts : Inst → List (Sys.Port × Bool × Nat × Bool)
  | .comp cst => compPorts cst
  | .sys sst => sysPorts sst

def instArity : Inst → Nat × Nat
  | .comp cst => (cst.inputSeqs.length, cst.outputSeqs.length)
  | .sys sst => (sst.inputSeqs.length, sst.outputSeqs.length)

def addComp (st : SysSt) (sg : List (String × List SigEntry)) (l : List (String × Nat)) (cname : String) (inst : Inst) : SysSt :=
  match st with
  | .mk p n pf t _ _ c i o => .mk p n pf t sg l (c ++ [(cname, inst)]) i o

def setTemplate (st : SysSt) (t : List (String × String)) : SysSt :=
  match st with
  | .mk p n pf _ sg l c i o => .mk p n pf t sg l c i o

theorem loadStmts_component_eq (b : Bundle) (fuel : Nat) (includes : List String) (cname templ : String) (args : Nat)
    (ins outs : List SigRef) (r : List SStmt) (st : SysSt) (a : Nat) :
    loadStmts b fuel includes (.component cname templ args ins outs :: r) st a =
      match st.template.lookup templ with
      | none => .error .unknownTemplate
      | some tpath =>
        if (st.components.lookup cname).isSome then .error .dupComponent else
        match loadFile b fuel tpath args ("@" ++ st.pfx ++ cname) (st.pfx ++ cname ++ "-") st.path includes a with
        | .error e => .error e
        | .ok (inst, a') =>
          if ins.length != (instArity inst).1 || outs.length != (instArity inst).2 then .error .portCount else
          match bindSigs cname st.signals st.lengths (ins ++ outs) (instPorts inst) with
          | .error e => .error e
          | .ok (sg, l) => loadStmts b fuel includes r (addComp st sg l cname inst) a' := by
  rw [loadStmts]
  obtain ⟨p, n, pf, t, sg0, l0, c0, i0, o0⟩ := st
  cases (SysSt.mk p n pf t sg0 l0 c0 i0 o0).template.lookup templ with
  | none => rfl
  | some tpath =>
    simp only
    split
    · rfl
    · cases loadFile b fuel tpath args ("@" ++ (SysSt.mk p n pf t sg0 l0 c0 i0 o0).pfx ++ cname) ((SysSt.mk p n pf t sg0 l0 c0 i0 o0).pfx ++ cname ++ "-") (SysSt.mk p n pf t sg0 l0 c0 i0 o0).path includes a with
      | error e => rfl
      | ok x =>
        obtain ⟨inst, a'⟩ := x
        cases inst <;> rfl

theorem loadStmts_imports_eq (b : Bundle) (fuel : Nat) (includes : List String) (items : List (String × Option String))
    (r : List SStmt) (st : SysSt) (a : Nat) :
    loadStmts b fuel includes (.imports items :: r) st a =
      match loadStmts.addImports items st.template with
      | .error e => .error e
      | .ok t => loadStmts b fuel includes r (setTemplate st t) a := by
  rw [loadStmts]
  obtain ⟨p, n, pf, t, sg0, l0, c0, i0, o0⟩ := st
  cases loadStmts.addImports items (SysSt.mk p n pf t sg0 l0 c0 i0 o0).template <;> rfl

@[simp] theorem renameSys_template (ρ : String → String) (st : SysSt) : (renameSys ρ st).template = st.template := by
  cases st; rfl
@[simp] theorem renameSys_pfx (ρ : String → String) (st : SysSt) : (renameSys ρ st).pfx = st.pfx := by
  cases st; rfl
@[simp] theorem renameSys_path (ρ : String → String) (st : SysSt) : (renameSys ρ st).path = st.path := by
  cases st; rfl
@[simp] theorem renameSys_lengths (ρ : String → String) (st : SysSt) : (renameSys ρ st).lengths = st.lengths := by
  cases st; rfl
@[simp] theorem renameSys_signals (ρ : String → String) (st : SysSt) :
    (renameSys ρ st).signals = rnSigs ρ st.signals := by
  cases st; rfl
@[simp] theorem renameSys_components (ρ : String → String) (st : SysSt) :
    (renameSys ρ st).components = renameComps ρ st.components := by
  cases st; rfl
@[simp] theorem renameSys_inputSeqs (ρ : String → String) (st : SysSt) : (renameSys ρ st).inputSeqs = st.inputSeqs := by
  cases st; rfl
@[simp] theorem renameSys_outputSeqs (ρ : String → String) (st : SysSt) : (renameSys ρ st).outputSeqs = st.outputSeqs := by
  cases st; rfl

theorem setTemplate_rn (ρ : String → String) (st : SysSt) (t : List (String × String)) :
    setTemplate (renameSys ρ st) t = renameSys ρ (setTemplate st t) := by
  cases st; rfl

theorem addComp_rn (ρ : String → String) (st : SysSt) (sg : List (String × List SigEntry)) (l : List (String × Nat))
    (cname : String) (inst : Inst) :
    addComp (renameSys ρ st) (rnSigs ρ sg) l cname (renameInst ρ inst) = renameSys ρ (addComp st sg l cname inst) := by
  cases st
  simp [addComp, renameSys, renameComps_append, renameComps]

def rnP4 (ρ : String → String) (x : Sys.Port × Bool × Nat × Bool) : Sys.Port × Bool × Nat × Bool := (rnPort ρ x.1, x.2)

theorem instPorts_rn {ρ : String → String} (h : Inj ρ) (inst : Inst) :
    instPorts (renameInst ρ inst) = (instPorts inst).map (rnP4 ρ) := by
  cases inst with
  | comp cst =>
    simp only [renameInst, instPorts, compPorts]
    have : (rename ρ cst).inputSeqs ++ (rename ρ cst).outputSeqs = (cst.inputSeqs ++ cst.outputSeqs).map (rnI ρ) := by
      simp [rename]
    rw [this, List.map_map, List.map_map]
    apply List.map_congr_left
    intro i _
    simp only [Function.comp, rnI_name, findSeq_rename h, rnP4, rnPort]
    cases cst.findSeq i.name <;> simp [rnI, rnE]
  | sys sst =>
    simp only [renameInst, instPorts, sysPorts, renameSys_inputSeqs, renameSys_outputSeqs, renameSys_lengths,
      List.map_map]
    apply List.map_congr_left
    intro r _
    rfl

theorem instArity_rn (ρ : String → String) (inst : Inst) : instArity (renameInst ρ inst) = instArity inst := by
  cases inst with
  | comp cst => simp [renameInst, instArity, rename]
  | sys sst => simp [renameInst, instArity]

theorem bindStep_rn (ρ : String → String) (cname : String) (acc : List (String × List SigEntry) × List (String × Nat))
    (gp : SigRef × (Sys.Port × Bool × Nat × Bool)) :
    bindStep cname (rnSigs ρ acc.1, acc.2) (gp.1, rnP4 ρ gp.2) =
      (bindStep cname acc gp).map (fun r => (rnSigs ρ r.1, r.2)) := by
  unfold bindStep
  simp only [rnP4]
  cases acc.2.lookup gp.1.name with
  | none =>
    dsimp only
    by_cases hc : gp.2.2.2.2 = true
    · simp only [hc, if_true]; rfl
    · simp only [hc, Bool.false_eq_true, if_false, Except.map]
      rw [← addSig_rn]
      rfl
  | some l0 =>
    dsimp only
    by_cases hc : (l0 != gp.2.2.2.1) = true
    · simp only [hc, if_true]; rfl
    · simp only [hc, Bool.false_eq_true, if_false, Except.map]
      rw [← addSig_rn]
      rfl

theorem bindFold_rn (ρ : String → String) (cname : String) :
    ∀ (zs : List (SigRef × (Sys.Port × Bool × Nat × Bool))) (acc : List (String × List SigEntry) × List (String × Nat)),
      (zs.map (fun gp => (gp.1, rnP4 ρ gp.2))).foldlM (bindStep cname) (rnSigs ρ acc.1, acc.2) =
        (zs.foldlM (bindStep cname) acc).map (fun r => (rnSigs ρ r.1, r.2))
  | [], acc => rfl
  | z :: r, acc => by
    simp only [List.map_cons, List.foldlM_cons, bindStep_rn]
    cases bindStep cname acc z with
    | error e => rfl
    | ok acc1 => exact bindFold_rn ρ cname r acc1

theorem bindSigs_rn (ρ : String → String) (cname : String) (sg : List (String × List SigEntry)) (l : List (String × Nat))
    (globs : List SigRef) (ports : List (Sys.Port × Bool × Nat × Bool)) :
    bindSigs cname (rnSigs ρ sg) l globs (ports.map (rnP4 ρ)) =
      (bindSigs cname sg l globs ports).map (fun r => (rnSigs ρ r.1, r.2)) := by
  unfold bindSigs
  have : List.zip globs (ports.map (rnP4 ρ)) = (List.zip globs ports).map (fun gp => (gp.1, rnP4 ρ gp.2)) := by
    induction globs generalizing ports with
    | nil => rfl
    | cons g gs ih =>
      cases ports with
      | nil => rfl
      | cons p ps => simp [List.zip_cons_cons, ih]
  rw [this]
  exact bindFold_rn ρ cname _ (sg, l)

theorem addStmts_anon_le {s' : St} {a' : Nat} : ∀ (stmts : List Stmt) (s : St) (a : Nat),
    addStmts s a stmts = .ok (s', a') → a ≤ a'
  | [], s, a, h => by
    simp only [addStmts, Except.ok.injEq, Prod.mk.injEq] at h
    omega
  | st :: r, s, a, h => by
    simp only [addStmts] at h
    cases h1 : addStmt s a st with
    | error e => simp [h1] at h
    | ok res =>
      obtain ⟨s1, a1⟩ := res
      simp only [h1] at h
      exact Nat.le_trans (addStmt_anon_le h1) (addStmts_anon_le r s1 a1 h)

theorem load_anon_le {src : Src} {n : Nat} {pfx : String} {a : Nat} {st : St} {a' : Nat}
    (h : load src n pfx a = .ok (st, a')) : a ≤ a' := by
  unfold load at h
  by_cases hn : (src.params.length != n) = true
  · simp [hn, throw, throwThe, MonadExceptOf.throw, bind, Except.bind] at h
  · simp only [hn, Bool.false_eq_true, if_false, bind, Except.bind, pure, Except.pure] at h
    cases hs : addStmts { name := src.name, pfx := pfx, params := src.params } a src.stmts with
    | error e => simp [hs] at h
    | ok res =>
      obtain ⟨s1, a1⟩ := res
      simp only [hs] at h
      cases hio : addIO s1 src.inputs src.outputs with
      | error e => simp [hio] at h
      | ok s2 =>
        simp only [hio, Except.ok.injEq, Prod.mk.injEq] at h
        obtain ⟨_, rfl⟩ := h
        exact addStmts_anon_le src.stmts _ a hs

def rnIR (ρ : String → String) (k : Nat) (r : Inst × Nat) : Inst × Nat := (renameInst ρ r.1, r.2 + k)
def rnSR (ρ : String → String) (k : Nat) (r : SysSt × Nat) : SysSt × Nat := (renameSys ρ r.1, r.2 + k)

/-- `ρ` fixes the sequence names every component source of the bundle mentions -/
def BundleFixed (ρ : String → String) (b : Bundle) : Prop :=
  ∀ key c, b.files.lookup key = some (.comp c) → ∀ x ∈ srcSeqNames c, ρ x = x

local macro "err_case" : tactic =>
  `(tactic| (constructor <;> first | rfl | trivial | (intro r hr; cases hr; done) | (intro r hr; simp at hr; done)))

theorem loadStmts_rename_of {ρ : String → String} (hinj : Inj ρ) {a0 k : Nat} (b : Bundle) (fuel : Nat)
    (includes : List String)
    (hLF : ∀ base args key pfx path a, a0 ≤ a →
      loadFile b fuel base args key pfx path includes (a + k) =
        (loadFile b fuel base args key pfx path includes a).map (rnIR ρ k) ∧
      ∀ r, loadFile b fuel base args key pfx path includes a = .ok r → a ≤ r.2) :
    ∀ (stmts : List SStmt) (st : SysSt) (a : Nat), a0 ≤ a →
      loadStmts b fuel includes stmts (renameSys ρ st) (a + k) =
        (loadStmts b fuel includes stmts st a).map (rnSR ρ k) ∧
      ∀ r, loadStmts b fuel includes stmts st a = .ok r → a ≤ r.2
  | [], st, a, _ => by
    rw [loadStmts, loadStmts]
    refine ⟨rfl, ?_⟩
    intro r hr
    injection hr with hr
    subst hr
    exact Nat.le_refl _
  | .imports items :: r, st, a, ha => by
    rw [loadStmts_imports_eq, loadStmts_imports_eq, renameSys_template]
    cases loadStmts.addImports items st.template with
    | error e => err_case
    | ok t =>
      dsimp only
      rw [setTemplate_rn]
      exact loadStmts_rename_of hinj b fuel includes hLF r (setTemplate st t) a ha
  | .component cname templ args ins outs :: r, st, a, ha => by
    rw [loadStmts_component_eq, loadStmts_component_eq]
    simp only [renameSys_template, renameSys_components, renameSys_pfx, renameSys_path, renameSys_signals,
      renameSys_lengths, lookup_renameComps, Option.isSome_map]
    cases st.template.lookup templ with
    | none => err_case
    | some tpath =>
      dsimp only
      by_cases hd : (st.components.lookup cname).isSome = true
      · simp only [hd, if_true]
        err_case
      · simp only [hd, Bool.false_eq_true, if_false]
        obtain ⟨hl1, hl2⟩ := hLF tpath args ("@" ++ st.pfx ++ cname) (st.pfx ++ cname ++ "-") st.path a ha
        rw [hl1]
        cases hlf : loadFile b fuel tpath args ("@" ++ st.pfx ++ cname) (st.pfx ++ cname ++ "-") st.path includes a with
        | error e => err_case
        | ok x =>
          obtain ⟨inst, a'⟩ := x
          have hle : a ≤ a' := hl2 _ hlf
          simp only [Except.map, rnIR, instArity_rn, instPorts_rn hinj]
          by_cases hc : (ins.length != (instArity inst).1 || outs.length != (instArity inst).2) = true
          · simp only [hc, if_true]
            err_case
          · simp only [hc, Bool.false_eq_true, if_false]
            rw [bindSigs_rn]
            cases bindSigs cname st.signals st.lengths (ins ++ outs) (instPorts inst) with
            | error e => err_case
            | ok sl =>
              obtain ⟨sg, l⟩ := sl
              simp only [Except.map]
              rw [addComp_rn]
              obtain ⟨h1, h2⟩ := loadStmts_rename_of hinj b fuel includes hLF r (addComp st sg l cname inst) a'
                (Nat.le_trans ha hle)
              exact ⟨h1, fun r hr => Nat.le_trans hle (h2 r hr)⟩

theorem loadFile_rename {ρ : String → String} (hinj : Inj ρ) {a0 k : Nat} (hr : Renum ρ a0 k) (b : Bundle)
    (hb : BundleFixed ρ b) :
    ∀ (fuel : Nat) (includes : List String) (base : String) (args : Nat) (key pfx path : String) (a : Nat), a0 ≤ a →
      loadFile b fuel base args key pfx path includes (a + k) =
        (loadFile b fuel base args key pfx path includes a).map (rnIR ρ k) ∧
      ∀ r, loadFile b fuel base args key pfx path includes a = .ok r → a ≤ r.2
  | 0, includes, base, args, key, pfx, path, a, _ => by
    rw [loadFile, loadFile]
    err_case
  | fuel + 1, includes, base, args, key, pfx, path, a, ha => by
    have ih := loadStmts_rename_of hinj b fuel includes
      (fun base args key pfx path a ha => loadFile_rename hinj hr b hb fuel includes base args key pfx path a ha)
    rw [loadFile, loadFile]
    cases resolveImport (fun p => b.exists_.contains (normPath p)) base path includes with
    | error e => err_case
    | ok res =>
      obtain ⟨fname, issys, newPath⟩ := res
      dsimp only
      cases hlk : b.files.lookup (normPath fname ++ key) with
      | none => err_case
      | some fs =>
        cases fs with
        | comp c =>
          dsimp only
          cases issys with
          | true => err_case
          | false =>
            simp only [Bool.false_eq_true, if_false]
            rw [load_rename hinj (fun n hn => hr n (Nat.le_trans ha hn)) c args pfx (hb _ c hlk)]
            cases hld : Comp.load c args pfx a with
            | error e => err_case
            | ok x =>
              obtain ⟨st, a'⟩ := x
              refine ⟨rfl, ?_⟩
              intro r hr
              injection hr with hr
              subst hr
              exact load_anon_le hld
        | sys s =>
          dsimp only
          cases issys with
          | false => err_case
          | true =>
            simp only [Bool.not_true, Bool.false_eq_true, if_false]
            by_cases hp : (s.params.length != args) = true
            · simp only [hp, if_true]
              err_case
            · simp only [hp, Bool.false_eq_true, if_false]
              have h0 : (SysSt.mk newPath s.name pfx [] [] [] [] [] []) =
                  renameSys ρ (SysSt.mk newPath s.name pfx [] [] [] [] [] []) := rfl
              obtain ⟨h1, h2⟩ := ih s.stmts (SysSt.mk newPath s.name pfx [] [] [] [] [] []) a ha
              rw [← h0] at h1
              rw [h1]
              cases hls : loadStmts b fuel includes s.stmts (SysSt.mk newPath s.name pfx [] [] [] [] [] []) a with
              | error e => err_case
              | ok x =>
                obtain ⟨st, a'⟩ := x
                have hle := h2 _ hls
                simp only [Except.map, rnSR, renameSys_signals, lookup_rnSigs, Option.isSome_map]
                split
                · err_case
                · cases st
                  refine ⟨rfl, ?_⟩
                  intro r hr
                  injection hr with hr
                  subst hr
                  exact hle

/-- the `equal` / signal statements of a system with the local sequence names written through `ρ` -/
def sigStmtsWith (ρ : String → String) (pfx : String) (signals : List (String × List SigEntry))
    (lengths : List (String × Nat)) : List Pil.Stmt :=
  signals.flatMap (fun (sg, entries) =>
    let len := (lengths.lookup sg).getD 0
    [Pil.Stmt.seq (pfx ++ sg) (List.replicate len 'N'),
     Pil.Stmt.equal ((pfx ++ sg) :: entries.map (fun e =>
        (match e.port with
         | .seq i _ => pfx ++ e.comp ++ "-" ++ ρ i.name
         | .sig n => pfx ++ e.comp ++ "-" ++ n) ++ (if e.wc then "*" else "")))])

mutual
/-- `Emit.instStmts` with every local sequence name `x` written `ρ x` -/
def instStmtsWith (ρ : String → String) : Inst → List Pil.Stmt
  | .comp st => compStmtsWith ρ st
  | .sys st => sysStmtsWith ρ st
def sysStmtsWith (ρ : String → String) : SysSt → List Pil.Stmt
  | .mk _ _ pfx _ signals lengths components _ _ =>
    compsStmtsWith ρ components ++ sigStmtsWith ρ pfx signals lengths
def compsStmtsWith (ρ : String → String) : List (String × Inst) → List Pil.Stmt
  | [] => []
  | (_, i) :: r => instStmtsWith ρ i ++ compsStmtsWith ρ r
end

theorem sigStmts_rn (ρ : String → String) (pfx : String) (signals : List (String × List SigEntry))
    (lengths : List (String × Nat)) :
    sigStmtsWith id pfx (rnSigs ρ signals) lengths = sigStmtsWith ρ pfx signals lengths := by
  unfold sigStmtsWith rnSigs
  rw [List.flatMap_map]
  congr 1
  funext x
  obtain ⟨sg, entries⟩ := x
  simp only [List.map_map]
  congr 4
  apply List.map_congr_left
  intro e _
  simp only [Function.comp, rnSig, rnPort]
  cases e.port <;> rfl

mutual
theorem instStmts_rename (ρ : String → String) : ∀ inst : Inst, Emit.instStmts (renameInst ρ inst) = instStmtsWith ρ inst
  | .comp st => by simp only [renameInst, Emit.instStmts, instStmtsWith, compStmts_rename]
  | .sys st => by
    simp only [renameInst, Emit.instStmts, instStmtsWith]
    exact sysStmts_rename ρ st
theorem sysStmts_rename (ρ : String → String) : ∀ st : SysSt, Emit.sysStmts (renameSys ρ st) = sysStmtsWith ρ st
  | .mk p n pfx t signals lengths components i o => by
    simp only [renameSys, Emit.sysStmts, sysStmtsWith, compsStmts_rename ρ components]
    congr 1
    exact sigStmts_rn ρ pfx signals lengths
theorem compsStmts_rename (ρ : String → String) : ∀ c : List (String × Inst),
    Emit.compsStmts (renameComps ρ c) = compsStmtsWith ρ c
  | [] => rfl
  | (n, i) :: r => by
    simp only [renameComps, Emit.compsStmts, compsStmtsWith, instStmts_rename ρ i, compsStmts_rename ρ r]
end

mutual
theorem instStmtsWith_id : ∀ inst : Inst, instStmtsWith id inst = Emit.instStmts inst
  | .comp st => by simp only [instStmtsWith, Emit.instStmts, compStmtsWith_id]
  | .sys st => by
    simp only [instStmtsWith, Emit.instStmts]
    exact sysStmtsWith_id st
theorem sysStmtsWith_id : ∀ st : SysSt, sysStmtsWith id st = Emit.sysStmts st
  | .mk p n pfx t signals lengths components i o => by
    simp only [sysStmtsWith, Emit.sysStmts, compsStmtsWith_id components]
    rfl
theorem compsStmtsWith_id : ∀ c : List (String × Inst), compsStmtsWith id c = Emit.compsStmts c
  | [] => rfl
  | (n, i) :: r => by
    simp only [compsStmtsWith, Emit.compsStmts, instStmtsWith_id i, compsStmtsWith_id r]
end

/-! ### uniqueness of names over a whole instance tree -/

def instPfx : Inst → String
  | .comp st => st.pfx
  | .sys st => st.pfx

def dashFree (s : String) : Prop := '-' ∉ s.toList

mutual
/-- well-formedness of an instance tree as far as names go: each component has duplicate-free tables; at each
    system level the instance names are distinct and contain no `-`, the signal names are distinct and contain
    no `-`, and every instance carries the prefix `pfx ++ <instance name> ++ "-"` -/
def TreeOk : Inst → Prop
  | .comp st => NamesNodup st
  | .sys st => SysOk st
def SysOk : SysSt → Prop
  | .mk _ _ pfx _ signals _ components _ _ =>
    (components.map (·.1)).Nodup ∧ (∀ c ∈ components.map (·.1), dashFree c) ∧
    (signals.map (·.1)).Nodup ∧ (∀ g ∈ signals.map (·.1), dashFree g) ∧ CompsOk pfx components
def CompsOk (pfx : String) : List (String × Inst) → Prop
  | [] => True
  | (c, i) :: r => instPfx i = pfx ++ c ++ "-" ∧ TreeOk i ∧ CompsOk pfx r
end

theorem sysStmts_eq (p n pfx : String) (t : List (String × String)) (signals : List (String × List SigEntry))
    (lengths : List (String × Nat)) (components : List (String × Inst)) (i o : List SigRef) :
    Emit.sysStmts (.mk p n pfx t signals lengths components i o) =
      Emit.compsStmts components ++ sigStmtsWith id pfx signals lengths := by
  simp only [Emit.sysStmts]
  rfl

/-- names with a common prefix -/
def HasPfx (p : String) (n : String) : Prop := ∃ rest, n = p ++ rest

mutual
theorem treeNodup_inst (f : Pil.Stmt → Option String)
    (hcomp : ∀ st, NamesNodup st → (List.filterMap f (Emit.compStmts st)).Nodup ∧
      ∀ n ∈ List.filterMap f (Emit.compStmts st), HasPfx st.pfx n)
    (hsig : ∀ pfx signals lengths,
      (List.filterMap f (sigStmtsWith id pfx signals lengths)).Sublist (signals.map (fun x => pfx ++ x.1))) :
    ∀ inst, TreeOk inst → (List.filterMap f (Emit.instStmts inst)).Nodup ∧
      ∀ n ∈ List.filterMap f (Emit.instStmts inst), HasPfx (instPfx inst) n
  | .comp st, h => by
    simp only [Emit.instStmts, instPfx]
    exact hcomp st h
  | .sys (.mk p nm pfx t signals lengths components i o), h => by
    simp only [TreeOk, SysOk] at h
    obtain ⟨hc1, hc2, hs1, hs2, hok⟩ := h
    obtain ⟨hn, hp⟩ := treeNodup_comps f hcomp hsig pfx components hok hc1 hc2
    simp only [Emit.instStmts, instPfx, SysSt.pfx, sysStmts_eq, List.filterMap_append]
    have hsub := hsig pfx signals lengths
    have hsn : (signals.map (fun x => pfx ++ x.1)).Nodup :=
      nodup_prefixed pfx (fun (x : String × List SigEntry) => x.1) hs1
    refine ⟨?_, ?_⟩
    · rw [List.nodup_append]
      refine ⟨hn, List.Sublist.nodup hsub hsn, ?_⟩
      intro a ha b hb hab
      obtain ⟨c, hc, rest, hrest⟩ := hp a ha
      have hb' := List.Sublist.subset hsub hb
      obtain ⟨x, hx, hxe⟩ := List.mem_map.1 hb'
      have hd := hs2 x.1 (List.mem_map_of_mem hx)
      rw [hab, ← hxe] at hrest
      have h2 : x.1 = c ++ "-" ++ rest := by
        have : pfx ++ x.1 = pfx ++ (c ++ "-" ++ rest) := by
          rw [hrest]; simp [String.append_assoc]
        exact (String.append_right_inj pfx).1 this
      apply hd
      rw [h2]
      simp [String.toList_append]
    · intro a ha
      rcases List.mem_append.1 ha with ha | ha
      · obtain ⟨c, _, rest, hrest⟩ := hp a ha
        exact ⟨c ++ "-" ++ rest, by rw [hrest]; simp [String.append_assoc]⟩
      · have hb' := List.Sublist.subset hsub ha
        obtain ⟨x, _, hxe⟩ := List.mem_map.1 hb'
        exact ⟨x.1, hxe.symm⟩
theorem treeNodup_comps (f : Pil.Stmt → Option String)
    (hcomp : ∀ st, NamesNodup st → (List.filterMap f (Emit.compStmts st)).Nodup ∧
      ∀ n ∈ List.filterMap f (Emit.compStmts st), HasPfx st.pfx n)
    (hsig : ∀ pfx signals lengths,
      (List.filterMap f (sigStmtsWith id pfx signals lengths)).Sublist (signals.map (fun x => pfx ++ x.1))) :
    ∀ pfx comps, CompsOk pfx comps → (comps.map (·.1)).Nodup → (∀ c ∈ comps.map (·.1), dashFree c) →
      (List.filterMap f (Emit.compsStmts comps)).Nodup ∧
      ∀ n ∈ List.filterMap f (Emit.compsStmts comps), ∃ c ∈ comps.map (·.1), HasPfx (pfx ++ c ++ "-") n
  | pfx, [], _, _, _ => by
    simp [Emit.compsStmts]
  | pfx, (c, i) :: r, h, hnd, hdf => by
    simp only [CompsOk] at h
    obtain ⟨hpf, hti, hr⟩ := h
    simp only [List.map_cons, List.nodup_cons] at hnd
    obtain ⟨hni, hnr⟩ := treeNodup_inst f hcomp hsig i hti
    obtain ⟨hnr2, hpr⟩ := treeNodup_comps f hcomp hsig pfx r hr hnd.2 (fun x hx => hdf x (List.mem_cons_of_mem _ hx))
    simp only [Emit.compsStmts, List.filterMap_append]
    refine ⟨?_, ?_⟩
    · rw [List.nodup_append]
      refine ⟨hni, hnr2, ?_⟩
      intro a ha b hb hab
      obtain ⟨r1, hr1⟩ := hnr a ha
      obtain ⟨c', hc', r2, hr2⟩ := hpr b hb
      rw [hpf] at hr1
      rw [hab, hr2] at hr1
      have := prefix_disjoint pfx c' c r2 r1 (hdf c' (List.mem_cons_of_mem _ hc')) (hdf c List.mem_cons_self) hr1
      exact hnd.1 (this.1 ▸ hc')
    · intro a ha
      rcases List.mem_append.1 ha with ha | ha
      · obtain ⟨r1, hr1⟩ := hnr a ha
        exact ⟨c, List.mem_cons_self, r1, by rw [hr1, hpf]⟩
      · obtain ⟨c', hc', hh⟩ := hpr a ha
        exact ⟨c', List.mem_cons_of_mem _ hc', hh⟩
end

theorem sig_seqNames (pfx : String) (signals : List (String × List SigEntry)) (lengths : List (String × Nat)) :
    List.filterMap seqNameOf (sigStmtsWith id pfx signals lengths) = signals.map (fun x => pfx ++ x.1) := by
  unfold sigStmtsWith
  induction signals with
  | nil => rfl
  | cons x r ih =>
    obtain ⟨sg, entries⟩ := x
    simp only [List.flatMap_cons, List.filterMap_append, ih, List.map_cons]
    simp [seqNameOf]

theorem sig_strandNames (pfx : String) (signals : List (String × List SigEntry)) (lengths : List (String × Nat)) :
    List.filterMap strandNameOf (sigStmtsWith id pfx signals lengths) = [] := by
  unfold sigStmtsWith
  induction signals with
  | nil => rfl
  | cons x r ih =>
    obtain ⟨sg, entries⟩ := x
    simp only [List.flatMap_cons, List.filterMap_append, ih]
    simp [strandNameOf]

theorem sig_structNames (pfx : String) (signals : List (String × List SigEntry)) (lengths : List (String × Nat)) :
    List.filterMap structNameOf (sigStmtsWith id pfx signals lengths) = [] := by
  unfold sigStmtsWith
  induction signals with
  | nil => rfl
  | cons x r ih =>
    obtain ⟨sg, entries⟩ := x
    simp only [List.flatMap_cons, List.filterMap_append, ih]
    simp [structNameOf]

/-- **Uniqueness over the tree.**  In the statements emitted for a well-formed instance tree no name is
    declared twice: not in the sequence name space (`sequence` / `sup-sequence`, including the signal
    sequences of systems), not among the strands, not among the structures. -/
theorem tree_names_nodup (inst : Inst) (h : TreeOk inst) :
    (seqDeclNames (Emit.instStmts inst)).Nodup ∧ (strandDeclNames (Emit.instStmts inst)).Nodup ∧
      (structDeclNames (Emit.instStmts inst)).Nodup := by
  refine ⟨?_, ?_, ?_⟩
  · refine (treeNodup_inst seqNameOf ?_ ?_ inst h).1
    · intro st hn
      refine ⟨(compStmts_names_nodup hn).1, ?_⟩
      intro n hm
      have : n ∈ seqDeclNames (Emit.compStmts st) := hm
      rw [seqDeclNames_compStmts] at this
      obtain ⟨e, _, rfl⟩ := List.mem_map.1 this
      exact ⟨e.name, rfl⟩
    · intro pfx signals lengths
      rw [sig_seqNames]
      exact List.Sublist.refl _
  · refine (treeNodup_inst strandNameOf ?_ ?_ inst h).1
    · intro st hn
      refine ⟨(compStmts_names_nodup hn).2.1, ?_⟩
      intro n hm
      have : n ∈ strandDeclNames (Emit.compStmts st) := hm
      rw [strandDeclNames_compStmts] at this
      obtain ⟨e, _, rfl⟩ := List.mem_map.1 this
      exact ⟨e.name, rfl⟩
    · intro pfx signals lengths
      rw [sig_strandNames]
      exact List.nil_sublist _
  · refine (treeNodup_inst structNameOf ?_ ?_ inst h).1
    · intro st hn
      refine ⟨(compStmts_names_nodup hn).2.2, ?_⟩
      intro n hm
      have : n ∈ structDeclNames (Emit.compStmts st) := hm
      rw [structDeclNames_compStmts] at this
      obtain ⟨e, _, rfl⟩ := List.mem_map.1 this
      exact ⟨e.name, rfl⟩
    · intro pfx signals lengths
      rw [sig_structNames]
      exact List.nil_sublist _

/-! #### a successful load yields a well-formed tree -/

theorem registerAnon_pfx (s : St) (b : Built) : (registerAnon s b).pfx = s.pfx := by
  unfold registerAnon
  generalize b.items = its
  induction its generalizing s with
  | nil => rfl
  | cons i r ih =>
    simp only [List.foldl_cons]
    split
    · exact ih s
    · split
      · rw [ih]
      · exact ih s

theorem addStmt_pfx {s s' : St} {a a' : Nat} : ∀ {st : Stmt}, addStmt s a st = .ok (s', a') → s'.pfx = s.pfx
  | .seq name items len, h => by
    unfold addStmt at h
    by_cases hs : (s.findSeq name).isSome = true
    · simp [hs] at h
    · simp only [hs, Bool.false_eq_true, if_false] at h
      split at h
      · split at h
        · injection h with h; injection h with h _; subst h; rfl
        · cases h
      · cases hc : cleanConst s items with
        | error e => simp [hc, bind, Except.bind] at h
        | ok cs =>
          cases hb : buildSuper a cs len with
          | error e => simp [hc, hb, bind, Except.bind] at h
          | ok b =>
            simp only [hc, hb, bind, Except.bind, pure, Except.pure] at h
            injection h with h; injection h with h _; subst h
            rw [registerAnon_pfx]
  | .strand dummy name items len, h => by
    unfold addStmt at h
    by_cases hs : (s.findStrand name).isSome = true
    · simp [hs, throw, throwThe, MonadExceptOf.throw, bind, Except.bind] at h
    · simp only [hs, Bool.false_eq_true, if_false] at h
      cases hc : cleanConst s items with
      | error e => simp [hc, bind, Except.bind] at h
      | ok cs =>
        cases hb : buildSuper a cs len with
        | error e => simp [hc, hb, bind, Except.bind] at h
        | ok b =>
          simp only [hc, hb, bind, Except.bind, pure, Except.pure] at h
          split at h
          · simp [throw, throwThe, MonadExceptOf.throw] at h
          · simp only [Except.ok.injEq, Prod.mk.injEq] at h
            obtain ⟨h, _⟩ := h
            subst h
            show (registerAnon _ b).pfx = s.pfx
            rw [registerAnon_pfx]
  | .struct opt name strands domain text, h => by
    unfold addStmt at h
    simp only [bind, Except.bind, pure, Except.pure] at h
    repeat' split at h
    all_goals first
      | (cases h; done)
      | (simp [throw, throwThe, MonadExceptOf.throw] at h; done)
      | (simp only [Except.ok.injEq, Prod.mk.injEq] at h
         obtain ⟨h, _⟩ := h
         subst h
         rfl)
  | .kinetic low high ins outs, h => by
    unfold addStmt at h
    simp only [bind, Except.bind, pure, Except.pure] at h
    repeat' split at h
    all_goals first
      | (cases h; done)
      | (simp [throw, throwThe, MonadExceptOf.throw] at h; done)
      | (simp only [Except.ok.injEq, Prod.mk.injEq] at h
         obtain ⟨h, _⟩ := h
         subst h
         rfl)

theorem addStmts_pfx {s' : St} {a' : Nat} : ∀ (stmts : List Stmt) (s : St) (a : Nat),
    addStmts s a stmts = .ok (s', a') → s'.pfx = s.pfx
  | [], s, a, h => by
    simp only [addStmts, Except.ok.injEq, Prod.mk.injEq] at h
    rw [← h.1]
  | st :: r, s, a, h => by
    simp only [addStmts] at h
    cases h1 : addStmt s a st with
    | error e => simp [h1] at h
    | ok res =>
      obtain ⟨s1, a1⟩ := res
      simp only [h1] at h
      rw [addStmts_pfx r s1 a1 h, addStmt_pfx h1]

theorem load_pfx {src : Src} {n : Nat} {pfx : String} {a : Nat} {st : St} {a' : Nat}
    (h : load src n pfx a = .ok (st, a')) : st.pfx = pfx := by
  unfold load at h
  by_cases hn : (src.params.length != n) = true
  · simp [hn, throw, throwThe, MonadExceptOf.throw, bind, Except.bind] at h
  · simp only [hn, Bool.false_eq_true, if_false, bind, Except.bind, pure, Except.pure] at h
    cases hs : addStmts { name := src.name, pfx := pfx, params := src.params } a src.stmts with
    | error e => simp [hs] at h
    | ok res =>
      obtain ⟨s1, a1⟩ := res
      simp only [hs] at h
      cases hio : addIO s1 src.inputs src.outputs with
      | error e => simp [hio] at h
      | ok s2 =>
        simp only [hio, Except.ok.injEq, Prod.mk.injEq] at h
        obtain ⟨rfl, _⟩ := h
        rw [(addIO_tables hio).2.2.2, addStmts_pfx src.stmts _ a hs]

theorem lookup_isSome_iff {β} (l : List (String × β)) (n : String) :
    (l.lookup n).isSome = true ↔ n ∈ l.map (·.1) := by
  induction l with
  | nil => simp
  | cons h t ih =>
    obtain ⟨m, v⟩ := h
    simp only [List.lookup, List.map_cons, List.mem_cons]
    by_cases e : n = m
    · subst e; simp
    · have : (n == m) = false := by simpa using e
      simp [this, ih, e]

theorem addSig_keys (sg : List (String × List SigEntry)) (n : String) (e : SigEntry) :
    (addSig sg n e).map (·.1) = if n ∈ sg.map (·.1) then sg.map (·.1) else sg.map (·.1) ++ [n] := by
  unfold addSig
  by_cases h : (sg.lookup n).isSome = true
  · have hm := (lookup_isSome_iff sg n).1 h
    simp only [h, if_true, hm, List.map_map]
    apply List.map_congr_left
    intro x _
    simp only [Function.comp]
    split <;> rfl
  · have hm : n ∉ sg.map (·.1) := fun c => h ((lookup_isSome_iff sg n).2 c)
    simp [h, hm]

theorem bindStep_keys {cname : String} {acc acc' : List (String × List SigEntry) × List (String × Nat)}
    {gp : SigRef × (Sys.Port × Bool × Nat × Bool)} (h : bindStep cname acc gp = .ok acc')
    (hn : (acc.1.map (·.1)).Nodup) :
    (acc'.1.map (·.1)).Nodup ∧ ∀ g ∈ acc'.1.map (·.1), g ∈ acc.1.map (·.1) ∨ g = gp.1.name := by
  have key : ∀ e, ((addSig acc.1 gp.1.name e).map (·.1)).Nodup ∧
      ∀ g ∈ (addSig acc.1 gp.1.name e).map (·.1), g ∈ acc.1.map (·.1) ∨ g = gp.1.name := by
    intro e
    rw [addSig_keys]
    split
    · exact ⟨hn, fun g hg => Or.inl hg⟩
    · rename_i hnot
      refine ⟨nodup_append_singleton hn hnot, ?_⟩
      intro g hg
      rcases List.mem_append.1 hg with hg | hg
      · exact Or.inl hg
      · exact Or.inr (by simpa using hg)
  unfold bindStep at h
  split at h
  · split at h
    · cases h
    · injection h with h; subst h; exact key _
  · split at h
    · cases h
    · injection h with h; subst h; exact key _

theorem bindFold_keys {cname : String} :
    ∀ (zs : List (SigRef × (Sys.Port × Bool × Nat × Bool))) {acc acc' : List (String × List SigEntry) × List (String × Nat)},
      zs.foldlM (bindStep cname) acc = .ok acc' → (acc.1.map (·.1)).Nodup →
      (acc'.1.map (·.1)).Nodup ∧ ∀ g ∈ acc'.1.map (·.1), g ∈ acc.1.map (·.1) ∨ g ∈ zs.map (·.1.name)
  | [], acc, acc', h, hn => by
    simp only [List.foldlM_nil, pure, Except.pure, Except.ok.injEq] at h
    subst h
    exact ⟨hn, fun g hg => Or.inl hg⟩
  | z :: r, acc, acc', h, hn => by
    simp only [List.foldlM_cons, bind, Except.bind] at h
    cases h1 : bindStep cname acc z with
    | error e => simp [h1] at h
    | ok acc1 =>
      simp only [h1] at h
      obtain ⟨hn1, hk1⟩ := bindStep_keys h1 hn
      obtain ⟨hn2, hk2⟩ := bindFold_keys r h hn1
      refine ⟨hn2, ?_⟩
      intro g hg
      rcases hk2 g hg with hg | hg
      · rcases hk1 g hg with hg | hg
        · exact Or.inl hg
        · exact Or.inr (by simp [hg])
      · exact Or.inr (List.mem_cons_of_mem _ hg)

theorem CompsOk_snoc (pfx : String) (cname : String) (inst : Inst) :
    ∀ (c : List (String × Inst)), CompsOk pfx c → instPfx inst = pfx ++ cname ++ "-" → TreeOk inst →
      CompsOk pfx (c ++ [(cname, inst)])
  | [], _, h1, h2 => by simp only [List.nil_append, CompsOk]; exact ⟨h1, h2, trivial⟩
  | (n, i) :: r, h, h1, h2 => by
    simp only [List.cons_append, CompsOk] at h ⊢
    exact ⟨h.1, h.2.1, CompsOk_snoc pfx cname inst r h.2.2 h1 h2⟩

/-- instance and signal names written in a system source contain no `-` (the system grammar's identifiers
    are `Word(alphas, alphanums+"_")`) -/
def sstmtDashFree : SStmt → Prop
  | .component cname _ _ ins outs => dashFree cname ∧ ∀ g ∈ ins ++ outs, dashFree g.name
  | .imports _ => True

def BundleDashFree (b : Bundle) : Prop :=
  ∀ key s, b.files.lookup key = some (.sys s) → ∀ st ∈ s.stmts, sstmtDashFree st

theorem SysOk_setTemplate (st : SysSt) (t : List (String × String)) (h : SysOk st) : SysOk (setTemplate st t) := by
  cases st; exact h

theorem loadStmts_treeOk (b : Bundle) (fuel : Nat) (includes : List String)
    (hLF : ∀ base args key pfx path a inst a', loadFile b fuel base args key pfx path includes a = .ok (inst, a') →
      TreeOk inst ∧ instPfx inst = pfx) :
    ∀ (stmts : List SStmt) (st : SysSt) (a : Nat) {st' : SysSt} {a' : Nat}, SysOk st →
      (∀ s ∈ stmts, sstmtDashFree s) → loadStmts b fuel includes stmts st a = .ok (st', a') →
      SysOk st' ∧ st'.pfx = st.pfx
  | [], st, a, st', a', hok, _, h => by
    rw [loadStmts] at h
    injection h with h
    injection h with h _
    subst h
    exact ⟨hok, rfl⟩
  | .imports items :: r, st, a, st', a', hok, hdf, h => by
    rw [loadStmts_imports_eq] at h
    cases hi : loadStmts.addImports items st.template with
    | error e => simp [hi] at h
    | ok t =>
      simp only [hi] at h
      have := loadStmts_treeOk b fuel includes hLF r (setTemplate st t) a (SysOk_setTemplate st t hok)
        (fun s hs => hdf s (List.mem_cons_of_mem _ hs)) h
      refine ⟨this.1, ?_⟩
      rw [this.2]
      cases st; rfl
  | .component cname templ args ins outs :: r, st, a, st', a', hok, hdf, h => by
    rw [loadStmts_component_eq] at h
    have hdfc := hdf _ List.mem_cons_self
    simp only [sstmtDashFree] at hdfc
    cases ht : st.template.lookup templ with
    | none => simp [ht] at h
    | some tpath =>
      simp only [ht] at h
      by_cases hd : (st.components.lookup cname).isSome = true
      · simp [hd] at h
      · simp only [hd, Bool.false_eq_true, if_false] at h
        cases hlf : loadFile b fuel tpath args ("@" ++ st.pfx ++ cname) (st.pfx ++ cname ++ "-") st.path includes a with
        | error e => simp [hlf] at h
        | ok x =>
          obtain ⟨inst, a1⟩ := x
          simp only [hlf] at h
          obtain ⟨hti, hpi⟩ := hLF _ _ _ _ _ _ _ _ hlf
          split at h
          · cases h
          · cases hbs : bindSigs cname st.signals st.lengths (ins ++ outs) (instPorts inst) with
            | error e => simp [hbs] at h
            | ok sl =>
              obtain ⟨sg, l⟩ := sl
              simp only [hbs] at h
              have hnew : SysOk (addComp st sg l cname inst) := by
                obtain ⟨p, n, pf, t, sg0, l0, c0, i0, o0⟩ := st
                simp only [SysOk] at hok
                obtain ⟨hc1, hc2, hs1, hs2, hcomps⟩ := hok
                have hnotin : cname ∉ c0.map (·.1) := by
                  intro hc
                  exact hd ((lookup_isSome_iff c0 cname).2 hc)
                obtain ⟨hk1, hk2⟩ := bindFold_keys _ hbs hs1
                simp only [addComp, SysOk]
                refine ⟨?_, ?_, hk1, ?_, ?_⟩
                · simpa using nodup_append_singleton hc1 hnotin
                · intro c hc
                  simp only [List.map_append, List.map_cons, List.map_nil, List.mem_append, List.mem_singleton] at hc
                  rcases hc with hc | rfl
                  · exact hc2 c hc
                  · exact hdfc.1
                · intro g hg
                  rcases hk2 g hg with hg | hg
                  · exact hs2 g hg
                  · obtain ⟨z, hz, rfl⟩ := List.mem_map.1 hg
                    exact hdfc.2 _ (List.of_mem_zip hz).1
                · exact CompsOk_snoc pf cname inst c0 hcomps hpi hti
              have := loadStmts_treeOk b fuel includes hLF r (addComp st sg l cname inst) a1 hnew
                (fun s hs => hdf s (List.mem_cons_of_mem _ hs)) h
              refine ⟨this.1, ?_⟩
              rw [this.2]
              cases st; rfl

/-- a successful load of a bundle whose system sources use `-`-free instance and signal names yields a
    well-formed tree carrying the requested prefix -/
theorem loadFile_treeOk (b : Bundle) (hb : BundleDashFree b) :
    ∀ (fuel : Nat) (includes : List String) (base : String) (args : Nat) (key pfx path : String) (a : Nat)
      (inst : Inst) (a' : Nat), loadFile b fuel base args key pfx path includes a = .ok (inst, a') →
      TreeOk inst ∧ instPfx inst = pfx
  | 0, includes, base, args, key, pfx, path, a, inst, a', h => by
    rw [loadFile] at h
    cases h
  | fuel + 1, includes, base, args, key, pfx, path, a, inst, a', h => by
    have ih := loadStmts_treeOk b fuel includes
      (fun base args key pfx path a inst a' h => loadFile_treeOk b hb fuel includes base args key pfx path a inst a' h)
    rw [loadFile] at h
    cases hri : resolveImport (fun p => b.exists_.contains (normPath p)) base path includes with
    | error e => rw [hri] at h; cases h
    | ok res =>
      obtain ⟨fname, issys, newPath⟩ := res
      rw [hri] at h
      dsimp only at h
      cases hlk : b.files.lookup (normPath fname ++ key) with
      | none => simp [hlk] at h
      | some fs =>
        simp only [hlk] at h
        cases fs with
        | comp c =>
          dsimp only at h
          split at h
          · cases h
          · cases hld : Comp.load c args pfx a with
            | error e => simp [hld] at h
            | ok x =>
              obtain ⟨st, a1⟩ := x
              simp only [hld, Except.ok.injEq, Prod.mk.injEq] at h
              obtain ⟨rfl, _⟩ := h
              exact ⟨load_namesNodup hld, load_pfx hld⟩
        | sys s =>
          dsimp only at h
          split at h
          · cases h
          · split at h
            · cases h
            · cases hls : loadStmts b fuel includes s.stmts (SysSt.mk newPath s.name pfx [] [] [] [] [] []) a with
              | error e => simp [hls] at h
              | ok x =>
                obtain ⟨st, a1⟩ := x
                simp only [hls] at h
                have h0 : SysOk (SysSt.mk newPath s.name pfx [] [] [] [] [] []) := by
                  simp [SysOk, CompsOk]
                obtain ⟨hok, hpf⟩ := ih s.stmts _ a h0 (hb _ s hlk) hls
                split at h
                · cases h
                · obtain ⟨p, n, pf, t, sg, l, c, i0, o0⟩ := st
                  simp only [Except.ok.injEq, Prod.mk.injEq] at h
                  obtain ⟨rfl, _⟩ := h
                  exact ⟨hok, hpf⟩

end systems

end Pepper.CompShift
